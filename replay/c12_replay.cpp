// Replay of verifier counterexamples for C12/C13/C48 sizing units on the REAL dispenso code.
// usage: replay <mode> T=<IntegerT> key=value ...   exit 0 holds / 1 violated / 2 not replayable
#include <dispenso/parallel_for.h>
#include <atomic>
#include <chrono>
#include <cstdio>
#include <cstdlib>
#include <cstring>
#include <map>
#include <mutex>
#include <string>
#include <thread>
#include <vector>
#include <algorithm>

typedef __int128 i128;
static std::map<std::string, std::string> kv;
static bool has(const char* k) { return kv.count(k) != 0; }
static i128 geti(const char* k) {
  auto it = kv.find(k);
  if (it == kv.end()) { fprintf(stderr, "missing input %s\n", k); exit(2); }
  const char* s = it->second.c_str();
  if (!strcmp(s, "true") || !strcmp(s, "True")) return 1;
  if (!strcmp(s, "false") || !strcmp(s, "False")) return 0;
  bool neg = *s == '-';
  if (neg) ++s;
  i128 v = 0;
  for (; *s >= '0' && *s <= '9'; ++s) v = v * 10 + (*s - '0');
  return neg ? -v : v;
}
#define LL(x) ((long long)(x))

template <typename T>
static dispenso::ChunkedRange<T> rangeFrom(const char* pre) {
  std::string p(pre);
  return dispenso::ChunkedRange<T>((T)geti((p + ".start").c_str()), (T)geti((p + ".end").c_str()), (T)geti((p + ".chunk").c_str()));
}

template <typename T>
static int adjustT() {
  using size_type = typename dispenso::ChunkedRange<T>::size_type;
  auto r = rangeFrom<T>("range");
  if (r.chunk < 0 || r.end <= r.start) return 2;
  size_type mt = (size_type)geti("maxThreads");
  auto res = dispenso::detail::adjustChunkSizing(r, mt, geti("isStatic") != 0, (uint32_t)geti("minItemsPerChunk"), (size_type)geti("poolThreads"), geti("wait") != 0);
  bool ok = (i128)res.maxThreads <= (i128)mt && (i128)res.maxThreads <= geti("poolThreads") + 1;
  printf("real adjustChunkSizing: range [%lld,%lld) chunk=%lld maxThreads=%lld poolThreads=%lld wait=%lld -> maxThreads=%lld : %s\n", LL(r.start), LL(r.end),
         LL(r.chunk), LL(mt), LL(geti("poolThreads")), LL(geti("wait")), LL(res.maxThreads), ok ? "within the requested limit" : "EXCEEDS the requested maxThreads");
  return ok ? 0 : 1;
}

template <typename T>
static int calcT() {
  using size_type = typename dispenso::ChunkedRange<T>::size_type;
  auto r = rangeFrom<T>("self");
  i128 size = (i128)r.end - (i128)r.start;
  i128 nl = geti("numLaunched"), one = geti("oneOnCaller"), mc = geti("minChunkSize"), g = geti("granularity"), md = geti("maxDynFactor");
  if (size <= 0 || r.chunk < 0 || r.isStatic() || nl + one < 1) return 2;
  if (r.chunk == 0 && size / (nl + one) < mc) return 2;
  auto t = r.calcChunkSize((size_type)nl, one != 0, (size_type)mc, (uint32_t)g, (size_type)md);
  i128 cs = std::get<0>(t), nc = std::get<1>(t);
  bool ok = cs >= 1 && nc >= 1 && (nc - 1) * cs < size && size <= nc * cs && (r.chunk != 0 || (cs % g == 0));
  printf("real calcChunkSize: size=%lld chunk=%lld workers=%lld g=%lld -> chunkSize=%lld numChunks=%lld : %s\n", LL(size), LL(r.chunk), LL(nl + one), LL(g), LL(cs),
         LL(nc), ok ? "contract holds" : "contract of calcChunkSize VIOLATED (numChunks != ceil(size/chunkSize), or chunkSize not a multiple of the granularity)");
  return ok ? 0 : 1;
}

template <typename T>
static int granT() {
  auto r = rangeFrom<T>("range");
  if (r.end <= r.start) return 2;
  auto gi = dispenso::detail::computeGranularity(r, (uint32_t)geti("requested"));
  i128 g = gi.granularity;
  bool ok = g >= 1 && r.start <= gi.trimmedEnd && gi.trimmedEnd <= r.end && (((i128)gi.trimmedEnd - r.start) % g == 0) && ((i128)r.end - gi.trimmedEnd < g) &&
      gi.hasTail == (gi.trimmedEnd != r.end);
  printf("real computeGranularity: [%lld,%lld) requested=%lld -> g=%lld trimmedEnd=%lld hasTail=%d : %s\n", LL(r.start), LL(r.end), LL(geti("requested")), LL(g),
         LL(gi.trimmedEnd), (int)gi.hasTail, ok ? "OK" : "WRONG");
  return ok ? 0 : 1;
}

// run the real parallel_for and check the partition / granularity / concurrency of what the body sees
template <typename T>
static int runT() {
  i128 s = geti("start"), e = geti("end");
  i128 chunk = has("chunk") ? geti("chunk") : (has("chunkSize") ? geti("chunkSize") : 0);
  i128 g = has("granularity") ? geti("granularity") : 1;
  i128 mt = has("maxThreads") ? geti("maxThreads") : 64;
  int poolN = has("pool") ? (int)geti("pool") : 3;
  bool adaptive = has("adaptive") && geti("adaptive");
  if (e <= s) return 2;
  dispenso::ThreadPool pool((size_t)poolN);
  dispenso::TaskSet ts(pool);
  std::mutex mu;
  std::vector<std::pair<i128, i128>> got;
  std::atomic<int> cur{0}, maxc{0};
  dispenso::ParForOptions opt;
  opt.maxThreads = (uint32_t)mt;
  opt.granularity = (uint32_t)g;
  opt.defaultChunking = adaptive ? dispenso::ParForChunking::kAdaptive : dispenso::ParForChunking::kStatic;
  auto body = [&](T a, T b) {
    int c = ++cur;
    int m = maxc.load();
    while (c > m && !maxc.compare_exchange_weak(m, c)) {}
    { std::lock_guard<std::mutex> l(mu); got.push_back({a, b}); }
    std::this_thread::sleep_for(std::chrono::milliseconds(2));
    --cur;
  };
  if (chunk > 0) dispenso::parallel_for(ts, dispenso::ChunkedRange<T>((T)s, (T)e, (T)chunk), body, opt);
  else dispenso::parallel_for(ts, dispenso::makeChunkedRange((T)s, (T)e, opt.defaultChunking), body, opt);
  std::sort(got.begin(), got.end());
  bool ok = !got.empty() && got.front().first == s && got.back().second == e;
  int nonmult = 0;
  for (size_t i = 0; i < got.size(); ++i) {
    i128 sz = got[i].second - got[i].first;
    if (sz <= 0) ok = false;
    if (i + 1 < got.size() && got[i].second != got[i + 1].first) ok = false;
    if (chunk == 0 && g > 1 && sz % g != 0) { ++nonmult; if (got[i].second != e) ok = false; }
  }
  if (nonmult > 1) ok = false;
  i128 lim = mt < 1 ? 1 : mt;
  bool conc_ok = maxc.load() <= lim;
  printf("real parallel_for on [%lld,%lld) chunk=%lld g=%lld maxThreads=%lld pool=%d: %zu invocations, max concurrent %d:", LL(s), LL(e), LL(chunk), LL(g), LL(mt), poolN,
         got.size(), maxc.load());
  for (size_t i = 0; i < got.size() && i < 10; ++i) printf(" [%lld,%lld)", LL(got[i].first), LL(got[i].second));
  printf(" : %s%s\n", ok ? "exact partition" : "NOT an exact partition / granularity contract broken", conc_ok ? "" : ", maxThreads EXCEEDED");
  return ok && conc_ok ? 0 : 1;
}

#define DISPATCH(fn)                                      \
  do {                                                    \
    std::string T = kv.count("T") ? kv["T"] : "int64_t";  \
    if (T == "int8_t") return fn<int8_t>();               \
    if (T == "uint8_t") return fn<uint8_t>();             \
    if (T == "int16_t") return fn<int16_t>();             \
    if (T == "uint16_t") return fn<uint16_t>();           \
    if (T == "int32_t") return fn<int32_t>();             \
    if (T == "uint32_t") return fn<uint32_t>();           \
    if (T == "int64_t") return fn<int64_t>();             \
    if (T == "uint64_t") return fn<uint64_t>();           \
    return 2;                                             \
  } while (0)

int main(int argc, char** argv) {
  if (argc < 2) return 2;
  std::string mode = argv[1];
  for (int i = 2; i < argc; ++i) {
    char* eq = strchr(argv[i], '=');
    if (eq) kv[std::string(argv[i], eq - argv[i])] = eq + 1;
  }
  if (mode == "adjust") DISPATCH(adjustT);
  if (mode == "calc") DISPATCH(calcT);
  if (mode == "gran") DISPATCH(granT);
  if (mode == "dyn" || mode == "run") DISPATCH(runT);
  return 2;
}
