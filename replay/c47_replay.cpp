// C47 replay: on the REAL library, force-queue many tasks through every tagged front end while the pool is saturated (all workers parked
// in blocking tasks, work piled up) and report any functor that ran on the submitting thread before schedule() returned.  exit 1 = violated.
#include <dispenso/task_set.h>
#include <dispenso/thread_pool.h>
#include <atomic>
#include <cstdio>
#include <thread>
#include <chrono>
int main() {
  int bad = 0;
  for (int variant = 0; variant < 5; ++variant) {
    dispenso::ThreadPool pool(2);
    std::atomic<bool> release{false};
    std::atomic<int> inlineRuns{0}, done{0};
    for (int i = 0; i < 2; ++i) pool.schedule([&]() { while (!release.load()) std::this_thread::sleep_for(std::chrono::milliseconds(1)); }, dispenso::ForceQueuingTag());
    std::this_thread::sleep_for(std::chrono::milliseconds(30));
    const int N = 400;
    std::thread::id me = std::this_thread::get_id();
    std::atomic<bool> inCall{false};
    auto body = [&]() { if (inCall.load() && std::this_thread::get_id() == me) inlineRuns++; done++; };
    {
      dispenso::TaskSet ts(pool);
      dispenso::ConcurrentTaskSet ctsH(pool), ctsL(pool, dispenso::ParentCascadeCancel::kOff, 4, dispenso::TaskCost::kLightweight);
      for (int i = 0; i < N; ++i) {
        inCall = true;
        switch (variant) {
          case 0: pool.schedule(body, dispenso::ForceQueuingTag()); break;
          case 1: ts.schedule(body, dispenso::ForceQueuingTag()); break;
          case 2: ctsH.schedule(body, dispenso::ForceQueuingTag()); break;
          case 3: ctsL.schedule(body, dispenso::ForceQueuingTag()); break;
          case 4: if (i % 8 == 0) ctsL.scheduleBulk(8, [&](size_t) { return body; }, dispenso::ForceQueuingTag()); break;
        }
        inCall = false;
      }
      release = true;
      ts.wait(); ctsH.wait(); ctsL.wait();
    }
    int spin = 0; while (done.load() < N && variant != 4 && spin++ < 5000) std::this_thread::sleep_for(std::chrono::milliseconds(1));
    if (inlineRuns.load()) { std::printf("variant %d: %d of %d force-queued functors ran on the caller inside schedule()\n", variant, inlineRuns.load(), N); bad++; }
  }
  if (bad) return 1;
  std::printf("no force-queued functor ran on the caller\n");
  return 0;
}
