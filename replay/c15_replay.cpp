// Replay for C15/C48(for_each) on the real dispenso::for_each_n.
// usage: replay sizing n=.. opt_maxThreads=.. opt_wait=.. numPoolThreads=.. isRecursive=..
// exit 0: each element visited exactly once and concurrency within maxThreads; 1: violated; crash (SIGFPE/abort) also counts as violated; 2: not replayable
#include <dispenso/for_each.h>
#include <atomic>
#include <chrono>
#include <cstdio>
#include <cstdlib>
#include <cstring>
#include <map>
#include <string>
#include <thread>
#include <vector>
#include <list>
static std::map<std::string, long long> kv;
int main(int argc, char** argv) {
  if (argc < 2) return 2;
  for (int i = 2; i < argc; ++i) { char* eq = strchr(argv[i], '='); if (eq) kv[std::string(argv[i], eq - argv[i])] = (!strcmp(eq + 1, "true") || !strcmp(eq + 1, "True")) ? 1 : strtoll(eq + 1, 0, 0); }
  long long n = kv["n"], mt = kv["opt_maxThreads"], wait = kv["opt_wait"], pool = kv["numPoolThreads"];
  if (kv["isRecursive"] || n > 2000000 || pool > 64 || n < 0) { printf("not replayable natively\n"); return 2; }
  setvbuf(stdout, 0, _IONBF, 0);
  int rc = 0;
  for (int useList = 0; useList < 2; ++useList) {
    dispenso::ThreadPool tp((size_t)pool);
    dispenso::TaskSet ts(tp);
    std::vector<std::atomic<int>> hits((size_t)n);
    for (auto& h : hits) h = 0;
    std::vector<int> idx((size_t)n);
    for (size_t i = 0; i < idx.size(); ++i) idx[i] = (int)i;
    std::list<int> lst(idx.begin(), idx.end());
    std::atomic<int> cur{0}, maxc{0};
    dispenso::ForEachOptions opt;
    opt.maxThreads = (uint32_t)mt;
    opt.wait = wait != 0;
    auto f = [&](int i) {
      int c = ++cur; int m = maxc.load(); while (c > m && !maxc.compare_exchange_weak(m, c)) {}
      hits[(size_t)i]++;
      if (n <= 64) std::this_thread::sleep_for(std::chrono::milliseconds(1));
      --cur;
    };
    printf("real for_each_n(%s) n=%lld maxThreads=%lld wait=%lld pool=%lld ... ", useList ? "std::list" : "std::vector", n, mt, wait, pool);
    if (useList) dispenso::for_each_n(ts, lst.begin(), (size_t)n, f, opt); else dispenso::for_each_n(ts, idx.begin(), (size_t)n, f, opt);
    ts.wait();
    size_t bad = 0;
    for (auto& h : hits) bad += (h.load() != 1);
    long long lim = mt < 1 ? 1 : mt;
    printf("%zu element(s) not visited exactly once, max concurrent %d (limit %lld)\n", bad, maxc.load(), lim);
    if (bad || maxc.load() > lim) rc = 1;
  }
  return rc;
}
