// C22 / C23 replay: on the REAL dispenso::RWLock and dispenso::DistributedRWLock<N>, writers (lock / try_lock), readers (lock_shared /
// try_lock_shared) and, for RWLock, one upgrader (lock_shared -> lock_upgrade -> lock_downgrade -> unlock_shared) hammer one lock while an
// (the upgrader is then the only thread that ever locks for write -- the documented precondition of lock_upgrade) an occupancy word
// records who is inside: a writer inside together with anybody else, or a reader inside together with a writer, is the
// violation.  A watchdog reports a lock that stops making progress (lost wakeup / deadlock).  exit 1 = violated.
//   argv[1]: "rw" | "drw"      argv[2]: seconds (default 4)
#include <dispenso/rw_lock.h>
#include <dispenso/distributed_rw_lock.h>
#include <atomic>
#include <chrono>
#include <cstdio>
#include <cstdlib>
#include <cstring>
#include <thread>
#include <vector>
static std::atomic<int> g_writers{0}, g_readers{0};
static std::atomic<uint64_t> g_bad{0}, g_ops{0};
static void writerInside() { if (g_writers.fetch_add(1) != 0 || g_readers.load() != 0) g_bad++; for (volatile int i = 0; i < 40; ++i) {} if (g_readers.load() != 0) g_bad++; g_writers.fetch_sub(1); g_ops++; }
static void readerInside() { g_readers.fetch_add(1); if (g_writers.load() != 0) g_bad++; for (volatile int i = 0; i < 40; ++i) {} if (g_writers.load() != 0) g_bad++; g_readers.fetch_sub(1); g_ops++; }

template <typename L, bool UPGRADE>
static int run(const char* what, double seconds, int nw, int nr) {
  L lock;
  std::atomic<bool> stop{false};
  g_bad = 0; g_ops = 0;
  std::vector<std::thread> th;
  for (int w = 0; w < nw; ++w)
    th.emplace_back([&, w]() { unsigned rnd = 17 + w; while (!stop.load(std::memory_order_relaxed)) { rnd = rnd * 1664525u + 1013904223u;
        if ((rnd >> 16) & 1) { lock.lock(); writerInside(); lock.unlock(); } else if (lock.try_lock()) { writerInside(); lock.unlock(); } } });
  for (int r = 0; r < nr; ++r)
    th.emplace_back([&, r]() { unsigned rnd = 91 + r; while (!stop.load(std::memory_order_relaxed)) { rnd = rnd * 1664525u + 1013904223u;
        if ((rnd >> 16) & 1) { lock.lock_shared(); readerInside(); lock.unlock_shared(); } else if (lock.try_lock_shared()) { readerInside(); lock.unlock_shared(); } } });
  if (UPGRADE)
    th.emplace_back([&]() { while (!stop.load(std::memory_order_relaxed)) {
        auto* l = reinterpret_cast<dispenso::RWLock*>(&lock);
        l->lock_shared(); readerInside(); l->lock_upgrade(); writerInside(); l->lock_downgrade(); readerInside(); l->unlock_shared(); } });
  // watchdog: the operation counter must keep moving
  auto t0 = std::chrono::steady_clock::now();
  uint64_t last = 0; int stalled = 0; bool hung = false;
  while (std::chrono::duration<double>(std::chrono::steady_clock::now() - t0).count() < seconds) {
    std::this_thread::sleep_for(std::chrono::milliseconds(100));
    uint64_t now = g_ops.load();
    if (now == last) { if (++stalled >= 100) { hung = true; break; } } else stalled = 0;
    last = now;
  }
  if (hung) { std::printf("%s: no lock operation completed for 10 s with %d writers and %d readers running: lost wakeup / deadlock\n", what, nw, nr); std::fflush(stdout); std::_Exit(1); }
  stop = true;
  // every thread is at most one acquisition away from leaving: a join that does not come back is a locker that never proceeds
  std::atomic<bool> joined{false};
  std::thread wd([&]() { for (int i = 0; i < 300 && !joined.load(); ++i) std::this_thread::sleep_for(std::chrono::milliseconds(100));
                         if (!joined.load()) { std::printf("%s: a thread is still blocked in the lock 30 s after all others stopped competing: lost wakeup / deadlock\n", what); std::_Exit(1); } });
  for (auto& t : th) t.join();
  joined = true; wd.join();
  std::printf("%s: %llu critical sections, %llu exclusion violations\n", what, (unsigned long long)g_ops.load(), (unsigned long long)g_bad.load());
  return g_bad.load() ? 1 : 0;
}

int main(int argc, char** argv) {
  std::setvbuf(stdout, nullptr, _IONBF, 0);
  const char* which = argc > 1 ? argv[1] : "rw";
  double secs = argc > 2 ? std::atof(argv[2]) : 4.0;
  int bad = 0;
  if (!std::strcmp(which, "rw")) {
    bad |= run<dispenso::RWLock, false>("RWLock (writers + readers)", secs / 3, 3, 4);
    bad |= run<dispenso::RWLock, true>("RWLock (readers + one upgrader, the only thread that locks for write: the documented use of lock_upgrade)", secs / 3, 0, 4);
    bad |= run<dispenso::UnalignedRWLock, false>("UnalignedRWLock", secs / 3, 2, 5);
  } else {
    bad |= run<dispenso::DistributedRWLock<1>, false>("DistributedRWLock<1>", secs / 4, 3, 4);
    bad |= run<dispenso::DistributedRWLock<2>, false>("DistributedRWLock<2>", secs / 4, 3, 4);
    bad |= run<dispenso::DistributedRWLock<4>, false>("DistributedRWLock<4>", secs / 4, 3, 5);
    bad |= run<dispenso::DistributedRWLock<16>, false>("DistributedRWLock<16>", secs / 4, 2, 6);
  }
  if (bad) { std::printf("reader/writer exclusion violated on the real code\n"); return 1; }
  std::printf("no writer ever shared the lock\n");
  return 0;
}
