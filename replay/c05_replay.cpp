// C05 replay: on the REAL task sets.  Bodies that throw are scheduled (one thrower, two throwers that are both already running when the
// first exception is captured, throwers mixed with ordinary tasks, bulk and single submissions); wait() / tryWait() must deliver exactly
// one exception per episode, a following wait() must deliver none, and wait() must still return only after every started body has
// finished (completion accounting).  exit 1 = violated.
#include <dispenso/task_set.h>
#include <dispenso/thread_pool.h>
#include <atomic>
#include <chrono>
#include <cstdio>
#include <stdexcept>
#include <thread>
template <typename TS> static int episode(dispenso::ThreadPool& pool, int throwers, int plain, bool useTryWait, const char* what, int round) {
  int bad = 0;
  TS ts(pool);
  std::atomic<int> entered{0}, finished{0}, started{0};
  for (int i = 0; i < throwers; ++i)
    ts.schedule([&, throwers]() { started++; entered++; while (entered.load() < throwers) std::this_thread::yield();   // all throwers are running before any throws
                                  finished++; throw std::runtime_error("boom"); }, dispenso::ForceQueuingTag());
  for (int i = 0; i < plain; ++i) ts.schedule([&]() { started++; std::this_thread::yield(); finished++; });
  int delivered = 0;
  auto waitOnce = [&]() { try { if (useTryWait) { while (!ts.tryWait(4)) std::this_thread::yield(); } else ts.wait(); } catch (const std::runtime_error&) { delivered++; } };
  waitOnce();
  if (finished.load() != started.load()) { std::printf("%s round %d: wait returned with %d of %d started bodies finished\n", what, round, finished.load(), started.load()); bad = 1; }
  if (delivered != 1) { std::printf("%s round %d: %d throwers, %d exceptions delivered by the first wait (expected exactly 1)\n", what, round, throwers, delivered); bad = 1; }
  int before = delivered;
  // (a cancelled set makes tryWait() report false for good, so the second look is a single call, not a loop)
  try { if (useTryWait) (void)ts.tryWait(4); else (void)ts.wait(); } catch (const std::runtime_error&) { delivered++; }
  if (delivered != before) { std::printf("%s round %d: the captured exception was delivered a second time\n", what, round); bad = 1; }
  return bad;
}
int main() {
  std::setvbuf(stdout, nullptr, _IONBF, 0);
  int bad = 0;
  dispenso::ThreadPool pool(4);
  std::thread watchdog([] { std::this_thread::sleep_for(std::chrono::seconds(100)); std::printf("watchdog: a wait() never returned after its tasks threw (completion accounting broken)\n"); std::_Exit(1); });
  watchdog.detach();
  for (int round = 0; round < 300 && !bad; ++round) {
    bad |= episode<dispenso::TaskSet>(pool, 1, 3, false, "TaskSet/1 thrower", round);
    bad |= episode<dispenso::ConcurrentTaskSet>(pool, 2, 2, false, "ConcurrentTaskSet/2 throwers", round);
    bad |= episode<dispenso::ConcurrentTaskSet>(pool, 3, 0, true, "ConcurrentTaskSet/3 throwers/tryWait", round);
    bad |= episode<dispenso::TaskSet>(pool, 2, 4, true, "TaskSet/2 throwers/tryWait", round);
  }
  // a body that is already running when the set is cancelled (no exception yet) and then throws: its exception is the first one captured
  for (int round = 0; round < 100 && !bad; ++round) {
    dispenso::ConcurrentTaskSet ts(pool);
    std::atomic<bool> running{false};
    ts.schedule([&]() { running = true; while (!ts.canceled()) std::this_thread::yield(); throw std::runtime_error("cancelled"); }, dispenso::ForceQueuingTag());
    while (!running.load()) std::this_thread::yield();
    ts.cancel();
    int delivered = 0;
    try { ts.wait(); } catch (const std::runtime_error&) { delivered++; }
    if (delivered != 1) { std::printf("cancel-then-throw round %d: the task's exception was not delivered by wait()\n", round); bad = 1; }
  }
  if (bad) { std::printf("task exceptions: property C05 violated on the real code\n"); return 1; }
  std::printf("every episode delivered exactly one exception, once, after all bodies finished\n");
  return 0;
}
