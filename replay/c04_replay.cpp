// C04 replay: on the REAL library, cancel a task set and then submit work through every schedule path while the pool is overloaded
// (one worker, parked, with a backlog above the pool's inline threshold).  Any body that starts after cancel() returned is a violation.  exit 1 = violated.
#include <dispenso/task_set.h>
#include <dispenso/thread_pool.h>
#include <atomic>
#include <cstdio>
#include <thread>
#include <chrono>
int main() {
  int bad = 0;
  for (int variant = 0; variant < 6; ++variant) {
    dispenso::ThreadPool pool(1);
    std::atomic<bool> release{false};
    std::atomic<int> started{0};
    {
      dispenso::ConcurrentTaskSet backlog(pool);
      for (int i = 0; i < 200; ++i) backlog.schedule([&]() { while (!release.load()) std::this_thread::sleep_for(std::chrono::milliseconds(1)); }, dispenso::ForceQueuingTag());
      std::this_thread::sleep_for(std::chrono::milliseconds(20));
      {
        dispenso::TaskSet ts(pool);
        dispenso::ConcurrentTaskSet ctsH(pool), ctsL(pool, dispenso::TaskCost::kLightweight);
        dispenso::ConcurrentTaskSet parent(pool);
        ts.cancel(); ctsH.cancel(); ctsL.cancel();
        auto body = [&]() { started++; };
        switch (variant) {
          case 0: for (int i = 0; i < 50; ++i) ts.schedule(body); break;
          case 1: for (int i = 0; i < 50; ++i) ctsH.schedule(body); break;
          case 2: for (int i = 0; i < 50; ++i) ctsL.schedule(body); break;
          case 3: ctsL.scheduleBulk(50, [&](size_t) { return body; }); break;
          case 4: ctsH.scheduleBulk(50, [&](size_t) { return body; }); break;
          case 5: ts.scheduleBulk(50, [&](size_t) { return body; }); break;
        }
        release = true;
        ts.wait(); ctsH.wait(); ctsL.wait(); parent.wait();
      }
      backlog.wait();
    }
    if (started.load()) { std::printf("variant %d: %d task bodies started after cancel() had returned\n", variant, started.load()); bad++; }
  }
  // cancellation from inside a body while the caller is running bulk items inline (set over its load factor, pool thread parked):
  // every later item of the same scheduleBulk call must be skipped, so no body may start with the set already cancelled
  for (int variant = 0; variant < 4; ++variant) {
    dispenso::ThreadPool pool(1);
    std::atomic<bool> release{false};
    std::atomic<int> startedCancelled{0}, ran{0};
    {
      dispenso::TaskSet ts(pool, 1);
      dispenso::ConcurrentTaskSet ctsH(pool, dispenso::ParentCascadeCancel::kOff, 1), ctsL(pool, dispenso::ParentCascadeCancel::kOff, 1, dispenso::TaskCost::kLightweight);
      auto blocker = [&]() { while (!release.load()) std::this_thread::sleep_for(std::chrono::milliseconds(1)); };
      ts.schedule(blocker, dispenso::ForceQueuingTag()); ts.schedule(blocker, dispenso::ForceQueuingTag());
      ctsH.schedule(blocker, dispenso::ForceQueuingTag()); ctsH.schedule(blocker, dispenso::ForceQueuingTag());
      ctsL.schedule(blocker, dispenso::ForceQueuingTag()); ctsL.schedule(blocker, dispenso::ForceQueuingTag());
      std::this_thread::sleep_for(std::chrono::milliseconds(20));
      auto gen = [&](dispenso::TaskSetBase* set, bool thrower) {
        return [&, set, thrower](size_t i) { return [&, set, thrower, i]() {
          if (set->canceled()) startedCancelled++;
          ran++;
          if (i == 1) { if (thrower) throw 1; set->cancel(); } }; };
      };
      try {
        switch (variant) {
          case 0: ts.scheduleBulk(40, gen(&ts, false)); break;
          case 1: ctsH.scheduleBulk(40, gen(&ctsH, false)); break;
          case 2: ctsL.scheduleBulk(40, gen(&ctsL, false)); break;
          case 3: ts.scheduleBulk(40, gen(&ts, true)); break;
        }
      } catch (...) {}
      release = true;
      try { ts.wait(); } catch (...) {}
      try { ctsH.wait(); } catch (...) {}
      try { ctsL.wait(); } catch (...) {}
    }
    if (startedCancelled.load()) { std::printf("bulk variant %d: %d of %d bodies started with the set already cancelled\n", variant, startedCancelled.load(), ran.load()); bad++; }
  }
  if (bad) return 1;
  std::printf("no body started after cancel()\n");
  return 0;
}
