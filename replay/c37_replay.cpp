// Replay for C37 on the real ConcurrentObjectArena: copy an arena whose pointer table has unused entries (3 buffers in a table of 4)
// and compare contents.  Built with AddressSanitizer: reading an uninitialised table entry crashes.  exit 0 ok / 1 (or crash) violated
#include <dispenso/concurrent_object_arena.h>
#include <cstdio>
int main() {
  int rc = 0;
  for (size_t nbuf = 1; nbuf <= 9; ++nbuf) {
    dispenso::ConcurrentObjectArena<int> a(4);
    size_t n = 4 * nbuf - 1;
    size_t first = a.grow_by(n);
    for (size_t i = 0; i < n; ++i) a[first + i] = (int)(i * 7 + 1);
    printf("copying an arena with %zu buffers (size %zu) ... ", (size_t)a.numBuffers(), (size_t)a.size()); fflush(stdout);
    dispenso::ConcurrentObjectArena<int> b(a);
    bool same = b.size() == a.size() && b.numBuffers() == a.numBuffers();
    for (size_t i = 0; same && i < n; ++i) same = (b[first + i] == a[first + i]);
    printf("%s\n", same ? "identical" : "DIFFERENT");
    if (!same) rc = 1;
  }
  return rc;
}
