// C38 replay: runs the REAL dispenso::SmallVector against std::vector on operation sequences (lifetime-tracked and over-aligned
// element types, inline capacities 1, 2, 4), including v.push_back(v[i]) at capacity.  exit 1 = the property is violated on the real code.
#include <dispenso/small_vector.h>
#include <cstdio>
#include <cstdint>
#include <cstdlib>
#include <vector>
#include <string>
static long g_live = 0; static int g_bad = 0;
struct L {
  int v; bool alive;
  L(int x = 0) : v(x), alive(true) { ++g_live; }
  L(const L& o) : v(o.v), alive(true) { if (!o.alive) { g_bad++; std::printf("copy from a destroyed object\n"); } ++g_live; }
  L(L&& o) noexcept : v(o.v), alive(true) { if (!o.alive) { g_bad++; std::printf("move from a destroyed object\n"); } ++g_live; }
  L& operator=(const L& o) { if (!o.alive || !alive) g_bad++; v = o.v; return *this; }
  L& operator=(L&& o) noexcept { if (!o.alive || !alive) g_bad++; v = o.v; return *this; }
  ~L() { if (!alive) { g_bad++; std::printf("double destroy\n"); } alive = false; v = -777; --g_live; }
};
struct alignas(64) A64 { char c[64]; };
struct alignas(256) A256 { char c[256]; };
struct alignas(1024) A1024 { char c[1024]; };
template <typename A, size_t N> static void alignRun() {
  // several vectors alive at once so the allocator hands out blocks at varied offsets
  dispenso::SmallVector<A, N> av[6];
  for (int i = 0; i < 24; ++i) for (auto& v : av) { v.emplace_back(); if (i % 5 == 0) v.reserve(v.size() + 3);
    for (size_t k = 0; k < v.size(); ++k) if (reinterpret_cast<uintptr_t>(&v[k]) % alignof(A)) { g_bad++; std::printf("N=%zu: element %zu of an alignas(%zu) type at a misaligned address\n", N, k, alignof(A)); return; } }
}
template <size_t N> static void run(unsigned seed) {
  std::srand(seed);
  for (int round = 0; round < 200; ++round) {
    long live0 = g_live;
    {
      dispenso::SmallVector<L, N> sv; std::vector<L> mv;
      for (int step = 0; step < 40; ++step) {
        int op = std::rand() % 9;
        if (op <= 2) { int x = std::rand(); sv.push_back(L(x)); mv.push_back(L(x)); }
        else if (op == 3 && !mv.empty()) { size_t i = std::rand() % mv.size(); sv.push_back(sv[i]); mv.push_back(mv[i]); }
        else if (op == 4 && !mv.empty()) { sv.pop_back(); mv.pop_back(); }
        else if (op == 5) { size_t c = std::rand() % 9; sv.resize(c); mv.resize(c); }
        else if (op == 6 && !mv.empty()) { size_t i = std::rand() % mv.size(); sv.erase(sv.begin() + i); mv.erase(mv.begin() + i); }
        else if (op == 7) { size_t c = std::rand() % 12; sv.reserve(c); }
        else if (op == 8 && !mv.empty()) { size_t i = std::rand() % mv.size(); size_t c = std::rand() % 12; sv.resize(c, sv[i]); mv.resize(c, mv[i]); }   // value aliases an element: valid for std::vector
        if (sv.size() != mv.size() || sv.size() > sv.capacity()) { g_bad++; std::printf("N=%zu: size %zu vs std::vector %zu (capacity %zu)\n", N, sv.size(), mv.size(), sv.capacity()); return; }
        for (size_t i = 0; i < mv.size(); ++i) if (sv[i].v != mv[i].v) { g_bad++; std::printf("N=%zu: element %zu is %d, std::vector has %d\n", N, i, sv[i].v, mv[i].v); return; }
      }
      dispenso::SmallVector<L, N> moved(std::move(sv));
      if (moved.size() != mv.size() || sv.size() != 0) { g_bad++; std::printf("N=%zu: move construction sizes\n", N); }
    }
    if (g_live != live0) { g_bad++; std::printf("N=%zu: %ld objects not destroyed\n", N, g_live - live0); return; }
  }
  alignRun<A256, N>(); alignRun<A1024, N>();
  dispenso::SmallVector<A64, N> av;
  for (int i = 0; i < 40; ++i) { av.emplace_back(); for (size_t k = 0; k < av.size(); ++k) if (reinterpret_cast<uintptr_t>(&av[k]) % 64) { g_bad++; std::printf("N=%zu: element %zu of an alignas(64) type at a misaligned address\n", N, k); return; } }
}
int main(int argc, char** argv) {
  unsigned seed = argc > 1 ? (unsigned)std::atoi(argv[argc - 1]) : 1;
  run<1>(seed); run<2>(seed + 1); run<4>(seed + 2);
  if (g_bad) { std::printf("real SmallVector: %d violations of the std::vector contract / alignment / lifetime balance\n", g_bad); return 1; }
  std::printf("real SmallVector agrees with std::vector on the sampled operation sequences\n");
  return 0;
}
