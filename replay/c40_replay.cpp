// Replay for C40 on the real dispenso::detail::OpResult<T> with a lifetime-counting element type.
// usage: replay <move_ctor|move_assign|copy_ctor|copy_assign|dtor|emplace>   exit 0 balanced / 1 leaked or double-destroyed
#include <dispenso/detail/op_result.h>
#include <cstdio>
#include <cstring>
#include <set>
#include <string>
static std::set<const void*> liveObjs;
static int doubleDestroy = 0, ctorOnLive = 0;
struct Tr {
  int v;
  explicit Tr(int x) : v(x) { reg(); }
  Tr(const Tr& o) : v(o.v) { reg(); }
  Tr(Tr&& o) : v(o.v) { o.v = -1; reg(); }
  ~Tr() { if (!liveObjs.erase(this)) ++doubleDestroy; }
  void reg() { if (!liveObjs.insert(this).second) ++ctorOnLive; }
};
using Op = dispenso::detail::OpResult<Tr>;
int main(int argc, char** argv) {
  std::string m = argc > 1 ? argv[1] : "";
  bool semantic_ok = true;
  for (int srcEngaged = 0; srcEngaged < 2; ++srcEngaged)
    for (int dstEngaged = 0; dstEngaged < 2; ++dstEngaged) {
      {
        Op src; if (srcEngaged) src.emplace(Tr(7));
        if (m == "move_ctor") { Op dst(std::move(src)); semantic_ok &= (dst.has_value() == (bool)srcEngaged) && (!srcEngaged || dst.value().v == 7); }
        else if (m == "copy_ctor") { Op dst(src); semantic_ok &= (dst.has_value() == (bool)srcEngaged) && (src.has_value() == (bool)srcEngaged); }
        else {
          Op dst; if (dstEngaged) dst.emplace(Tr(3));
          if (m == "move_assign") { dst = std::move(src); semantic_ok &= (dst.has_value() == (bool)srcEngaged) && (!srcEngaged || dst.value().v == 7); }
          else if (m == "copy_assign") { dst = src; semantic_ok &= (dst.has_value() == (bool)srcEngaged) && (!srcEngaged || dst.value().v == 7); }
          else if (m == "emplace") { dst.emplace(Tr(9)); semantic_ok &= dst.has_value() && dst.value().v == 9; }
          else if (m == "dtor") {}
          else return 2;
        }
      }
      // every OpResult is out of scope here: nothing may be alive
    }
  printf("real OpResult<%s>: %zu contained object(s) never destroyed, %d double destruction(s), %d construction(s) over a live object, optional semantics %s\n",
         m.c_str(), liveObjs.size(), doubleDestroy, ctorOnLive, semantic_ok ? "ok" : "WRONG");
  return (liveObjs.empty() && !doubleDestroy && !ctorOnLive && semantic_ok) ? 0 : 1;
}
