// Replay for C41 (backingStoreLock) on the real SmallBufferAllocator<64>.
// malloc is interposed: the thread that refills the central store is held inside alignedMalloc WHILE IT HOLDS backingStoreLock.
// A second thread then calls approxBytesAllocatedSmallBuffer<64>().  It must wait for the lock; if it returns while the first
// thread is still inside its critical section, two threads were inside the critical section at once.  exit 0 ok / 1 violated.
#include <dispenso/small_buffer_allocator.h>
#include <atomic>
#include <chrono>
#include <cstdio>
#include <thread>
extern "C" void* __libc_malloc(size_t);
static std::atomic<int> trapArmed{0}, trapped{0}, release{0};
static const size_t kTrapSize = 4096 * 6 + 64;   // kMallocBytes of SmallBufferAllocator<64> + alignment padding of alignedMalloc
extern "C" void* malloc(size_t n) {
  if (n == kTrapSize && trapArmed.load()) {
    trapArmed = 0; trapped = 1;
    while (!release.load()) std::this_thread::sleep_for(std::chrono::milliseconds(1));
  }
  return __libc_malloc(n);
}
int main() {
  std::atomic<int> t2done{0};
  trapArmed = 1;
  std::thread t1([] { char* p = dispenso::allocSmallBuffer<64>(); dispenso::deallocSmallBuffer<64>(p); });
  for (int i = 0; i < 3000 && !trapped.load(); ++i) std::this_thread::sleep_for(std::chrono::milliseconds(1));
  if (!trapped.load()) { printf("could not hold the refilling thread inside the lock (allocation size changed?)\n"); release = 1; t1.join(); return 2; }
  std::thread t2([&] { (void)dispenso::approxBytesAllocatedSmallBuffer<64>(); t2done = 1; });
  std::this_thread::sleep_for(std::chrono::milliseconds(500));
  int early = t2done.load();
  printf("real SmallBufferAllocator<64>: thread 1 is inside grabFromCentralStore holding backingStoreLock; approxBytesAllocatedSmallBuffer() on thread 2 %s\n",
         early ? "RETURNED while the lock was held (entered the critical section concurrently)" : "waited for the lock");
  release = 1; t1.join(); t2.join();
  return early ? 1 : 0;
}
