// C36 replay: on the REAL dispenso::ChaseLevDeque, one owner pushes uniquely tagged elements and pops, several thieves steal, and every
// delivery is counted per tag.  A tag delivered twice, a tag never pushed that is delivered, or an accepted tag that is never delivered
// after the deque drained is the property violation.  Small capacities keep the deque at the 0/1-element boundary where the
// owner/thief race on the last element lives.  exit 1 = violated, exit 0 = not reproduced within the time budget (seconds = argv[1], default 4).
#include <dispenso/chase_lev_deque.h>
#include <atomic>
#include <chrono>
#include <cstdio>
#include <cstdlib>
#include <thread>
#include <vector>

template <size_t CAP>
static int run(double seconds, int nthieves, bool into) {
  const uint64_t kMax = 1u << 22;
  static std::vector<std::atomic<uint8_t>> delivered(kMax);
  for (auto& d : delivered) d.store(0, std::memory_order_relaxed);
  dispenso::ChaseLevDeque<uint64_t, CAP> dq;
  std::atomic<bool> stop{false};
  std::atomic<uint64_t> dup{0}, bogus{0}, got{0};
  auto deliver = [&](uint64_t v) {
    if (v >= kMax) { bogus++; return; }
    if (delivered[v].fetch_add(1, std::memory_order_relaxed) != 0) dup++;
    got++;
  };
  std::vector<std::thread> th;
  for (int i = 0; i < nthieves; ++i)
    th.emplace_back([&, i]() {
      uint64_t v;
      while (!stop.load(std::memory_order_acquire)) {
        bool ok;
        if (into && (i & 1)) { alignas(uint64_t) char buf[sizeof(uint64_t)]; ok = dq.try_steal_into(reinterpret_cast<uint64_t*>(buf)); if (ok) v = *reinterpret_cast<uint64_t*>(buf); }
        else ok = dq.try_steal(v);
        if (ok) deliver(v);
      }
    });
  uint64_t next = 0, accepted = 0;
  auto t0 = std::chrono::steady_clock::now();
  unsigned rnd = 12345;
  while (next < kMax - 8) {
    if ((next & 1023) == 0 && std::chrono::duration<double>(std::chrono::steady_clock::now() - t0).count() > seconds) break;
    rnd = rnd * 1664525u + 1013904223u;
    int pushes = 1 + ((rnd >> 16) % 3);
    for (int k = 0; k < pushes; ++k)
      if (dq.try_push(next)) { ++accepted; ++next; }
    int pops = 1 + ((rnd >> 20) % 3);
    for (int k = 0; k < pops; ++k) {
      uint64_t v;
      bool ok;
      if (into && (k & 1)) { alignas(uint64_t) char buf[sizeof(uint64_t)]; ok = dq.try_pop_into(reinterpret_cast<uint64_t*>(buf)); if (ok) v = *reinterpret_cast<uint64_t*>(buf); }
      else ok = dq.try_pop(v);
      if (ok) deliver(v);
    }
  }
  // drain as the owner, then stop the thieves
  for (int spin = 0; spin < 1000; ++spin) { uint64_t v; while (dq.try_pop(v)) deliver(v); if (dq.empty()) break; }
  stop.store(true, std::memory_order_release);
  for (auto& t : th) t.join();
  { uint64_t v; while (dq.try_pop(v)) deliver(v); }
  uint64_t lost = 0;
  for (uint64_t i = 0; i < next; ++i) if (delivered[i].load(std::memory_order_relaxed) == 0) ++lost;
  std::printf("Capacity=%zu thieves=%d into=%d: accepted=%llu delivered=%llu duplicated=%llu lost=%llu bogus=%llu\n", CAP, nthieves, (int)into,
              (unsigned long long)accepted, (unsigned long long)got.load(), (unsigned long long)dup.load(), (unsigned long long)lost, (unsigned long long)bogus.load());
  return (dup.load() || lost || bogus.load()) ? 1 : 0;
}

int main(int argc, char** argv) {
  double secs = argc > 1 ? std::atof(argv[1]) : 4.0;
  int bad = 0;
  auto t0 = std::chrono::steady_clock::now();
  for (int round = 0; !bad && std::chrono::duration<double>(std::chrono::steady_clock::now() - t0).count() < secs; ++round) {
    bad |= run<2>(secs / 8, 3, false);
    bad |= run<4>(secs / 8, 3, true);
    bad |= run<1>(secs / 8, 2, false);
    bad |= run<32>(secs / 8, 4, true);
  }
  if (bad) { std::printf("ChaseLevDeque delivered an element twice / lost one: property C36 violated on the real code\n"); return 1; }
  std::printf("every accepted element was delivered exactly once\n");
  return 0;
}
