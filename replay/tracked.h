// Lifetime-tracking element type shared by the ring-buffer replays (C34, C35).  Every constructor, move, copy and destructor checks the
// state word of the object it touches, so a double destroy, a read of a destroyed or never-constructed slot, or a construction over a
// live element is counted at the access itself.  Each delivery of a tag is counted so duplicates and losses are visible.
#pragma once
#include <atomic>
#include <cstdint>
#include <cstdio>
#include <vector>

namespace trk {
static const uint64_t kAlive = 0xA11FE0A11FE0A11Full, kMoved = 0x30FED30FED30FED3ull, kDead = 0xDEADDEADDEADDEADull;
static std::atomic<uint64_t> g_doubleDestroy{0}, g_readDead{0}, g_overLive{0}, g_ctor{0}, g_dtor{0};
static std::atomic<int> g_slow{0};   // widen the race windows a little: every 64th element operation yields

inline void maybeYield() { if ((g_slow.fetch_add(1, std::memory_order_relaxed) & 63) == 0) { for (volatile int i = 0; i < 200; ++i) {} } }

struct Tracked {
  uint64_t tag;
  uint64_t state;
  static uint64_t peek(const void* p) { return reinterpret_cast<const volatile uint64_t*>(p)[1]; }
  void born() { uint64_t prev = peek(this); if (prev == kAlive || prev == kMoved) g_overLive++; state = kAlive; g_ctor++; maybeYield(); }
  Tracked() noexcept : tag(~0ull) { born(); }
  explicit Tracked(uint64_t t) noexcept { born(); tag = t; }
  Tracked(const Tracked& o) noexcept { born(); if (o.state != kAlive) g_readDead++; tag = o.tag; }
  Tracked(Tracked&& o) noexcept { born(); if (o.state != kAlive) g_readDead++; tag = o.tag; o.state = kMoved; }
  Tracked& operator=(const Tracked& o) noexcept { if (state != kAlive && state != kMoved) g_readDead++; if (o.state != kAlive) g_readDead++; tag = o.tag; state = kAlive; return *this; }
  Tracked& operator=(Tracked&& o) noexcept { if (state != kAlive && state != kMoved) g_readDead++; if (o.state != kAlive) g_readDead++; tag = o.tag; state = kAlive; o.state = kMoved; maybeYield(); return *this; }
  ~Tracked() { if (state != kAlive && state != kMoved) g_doubleDestroy++;
             if (state == kMoved) { for (volatile int i = 0; i < 150; ++i) {} if (state != kMoved) g_overLive++; }   /* a moved-from shell is torn down slowly: nobody may touch its slot meanwhile */
             state = kDead; g_dtor++; maybeYield(); }
};

struct Ledger {
  std::vector<std::atomic<uint8_t>> delivered;
  std::atomic<uint64_t> dup{0}, bogus{0}, got{0}, order{0};
  explicit Ledger(size_t n) : delivered(n) { for (auto& d : delivered) d.store(0, std::memory_order_relaxed); }
  void deliver(const Tracked& t) {
    if (t.state != kAlive) g_readDead++;
    if (t.tag >= delivered.size()) { bogus++; return; }
    if (delivered[t.tag].fetch_add(1, std::memory_order_relaxed) != 0) dup++;
    got++;
  }
  uint64_t lost(uint64_t upto) const { uint64_t l = 0; for (uint64_t i = 0; i < upto; ++i) if (!delivered[i].load(std::memory_order_relaxed)) ++l; return l; }
};

inline bool lifetimeErrors(const char* what) {
  bool bad = g_doubleDestroy.load() || g_readDead.load() || g_overLive.load() || g_ctor.load() != g_dtor.load();
  std::printf("%s: constructed=%llu destroyed=%llu double-destroy=%llu read-of-dead-or-raw=%llu construct-over-live=%llu\n", what,
              (unsigned long long)g_ctor.load(), (unsigned long long)g_dtor.load(), (unsigned long long)g_doubleDestroy.load(),
              (unsigned long long)g_readDead.load(), (unsigned long long)g_overLive.load());
  return bad;
}
}  // namespace trk
