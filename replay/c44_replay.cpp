// Replay of C44 counterexamples on the real compiled helpers. usage: replay <kind> v=<n> [bytes= alignment=]
#include <dispenso/detail/math.h>
#include <dispenso/platform.h>
#include <cstdio>
#include <cstdlib>
#include <cstring>
#include <string>
#include <map>
using namespace dispenso::detail;
static uint32_t ref_log2(uint64_t v) { uint32_t r = 0; while (v >>= 1) ++r; return r; }
int main(int argc, char** argv) {
  if (argc < 2) return 2;
  std::string kind = argv[1];
  std::map<std::string, unsigned long long> kv;
  for (int i = 2; i < argc; ++i) { char* eq = strchr(argv[i], '='); if (eq) kv[std::string(argv[i], eq - argv[i])] = strtoull(eq + 1, 0, 0); }
  unsigned long long v = kv.count("v") ? kv["v"] : kv["val"];
  bool ok = true;
  if (kind == "nextPow2") { if (v > (1ull << 63)) return 2; uint64_t p = nextPow2(v); ok = v == 0 ? p == 0 : (p && !(p & (p - 1)) && p >= v && (p >> 1) < v); printf("nextPow2(%llu)=%llu\n", v, (unsigned long long)p); }
  else if (kind == "log2const64") { if (!v) return 2; ok = log2const((uint64_t)v) == ref_log2(v); printf("log2const(%llu)=%u want %u\n", v, log2const((uint64_t)v), ref_log2(v)); }
  else if (kind == "log2const32") { if (!(uint32_t)v) return 2; ok = log2const((uint32_t)v) == ref_log2((uint32_t)v); printf("log2const32(%u)=%u\n", (uint32_t)v, log2const((uint32_t)v)); }
  else if (kind == "log2_64") { if (!v) return 2; ok = log2((uint64_t)v) == ref_log2(v); printf("log2(%llu)=%u want %u\n", v, log2((uint64_t)v), ref_log2(v)); }
  else if (kind == "log2_32") { if (!(uint32_t)v) return 2; ok = log2((uint32_t)v) == ref_log2((uint32_t)v); printf("log2(%u)=%u\n", (uint32_t)v, log2((uint32_t)v)); }
  else if (kind == "ctz") { if (!v) return 2; int tz = 0; while (!((v >> tz) & 1)) ++tz; ok = countTrailingZeros(v) == tz; printf("ctz(%llu)=%d want %d\n", v, countTrailingZeros(v), tz); }
  else if (kind == "popcount") { int pc = 0; for (int i = 0; i < 64; ++i) pc += (v >> i) & 1; ok = countSetBits(v) == pc; printf("popcount(%llu)=%d want %d\n", v, countSetBits(v), pc); }
  else if (kind == "alignToCacheLine") { if (v > UINTPTR_MAX - 127) return 2; uintptr_t a = dispenso::detail::alignToCacheLine(v); ok = a >= v && a % dispenso::kCacheLineSize == 0 && a - v < dispenso::kCacheLineSize; printf("alignToCacheLine(%llu)=%lu\n", v, (unsigned long)a); }
  else if (kind == "alignedMalloc") {
    size_t b = kv["b"], a = kv["a"]; if (!a || (a & (a - 1)) || a > (1u << 20) || b > (1u << 24)) return 2;
    void* p = alignedMalloc(b, a); ok = (uintptr_t)p % a == 0; printf("alignedMalloc(%zu,%zu)=%p\n", b, a, p); alignedFree(p);
  } else return 2;
  printf("%s\n", ok ? "OK" : "WRONG RESULT");
  return ok ? 0 : 1;
}
