// C34 replay: on the REAL dispenso::MpmcRingBuffer, several producers push uniquely tagged lifetime-tracked elements through every push
// flavour (move, copy, emplace, batch) and several consumers pop them through every pop flavour (T&, OpResult, into raw storage).
// Reported: duplicated or lost tags, per-producer order inversions seen by one consumer, element-lifetime errors (double destroy, read of a
// destroyed/raw slot, construction over a live element), constructed != destroyed at the end.  exit 1 = violated; exit 0 = not
// reproduced within the time budget (seconds = argv[1], default 4).
#include <dispenso/mpmc_ring_buffer.h>
#include "tracked.h"
#include <chrono>
#include <cstdlib>
#include <new>
#include <thread>

using trk::Tracked;
static const uint64_t kPerProducer = 1u << 19;

template <size_t CAP, bool RU>
static int run(double seconds, int np, int nc) {
  trk::Ledger led(kPerProducer * np);
  std::atomic<uint64_t> inversions{0};
  std::atomic<int> producersLeft{np};
  std::atomic<bool> stop{false};
  std::vector<uint64_t> accepted(np, 0);
  int quiescentBad = 0;
  {
    dispenso::MpmcRingBuffer<Tracked, CAP, RU> ring;
    auto t0 = std::chrono::steady_clock::now();
    std::vector<std::thread> th;
    for (int p = 0; p < np; ++p)
      th.emplace_back([&, p]() {
        uint64_t base = kPerProducer * p, n = 0, iters = 0;
        unsigned rnd = 777 + p;
        while (n < kPerProducer - 4) {
          if ((++iters & 255) == 0 && std::chrono::duration<double>(std::chrono::steady_clock::now() - t0).count() > seconds) break;
          rnd = rnd * 1664525u + 1013904223u;
          switch ((rnd >> 16) & 3) {
            case 0: { Tracked t(base + n); if (ring.try_push(std::move(t))) ++n; break; }
            case 1: { const Tracked t(base + n); if (ring.try_push(t)) ++n; break; }
            case 2: { if (ring.try_emplace(base + n)) ++n; break; }
            default: {
              size_t want = 1 + ((rnd >> 20) % 3);
              alignas(Tracked) char raw[3 * sizeof(Tracked)];
              Tracked* items = reinterpret_cast<Tracked*>(raw);
              for (size_t i = 0; i < want; ++i) new (items + i) Tracked(base + n + i);
              size_t pushed = ring.try_push_batch(items, want);
              for (size_t i = 0; i < want; ++i) items[i].~Tracked();
              n += pushed;
            }
          }
        }
        accepted[p] = n;
        producersLeft--;
      });
    for (int c = 0; c < nc; ++c)
      th.emplace_back([&, c]() {
        std::vector<uint64_t> lastSeen(np, 0);
        std::vector<char> seenAny(np, 0);
        auto note = [&](const Tracked& t) {
          led.deliver(t);
          uint64_t p = t.tag / kPerProducer;
          if (p < (uint64_t)np) { if (seenAny[p] && t.tag <= lastSeen[p]) inversions++; lastSeen[p] = t.tag; seenAny[p] = 1; }
        };
        int idle = 0;
        while (true) {
          bool ok = false;
          switch (c % 3) {
            case 0: { Tracked t; ok = ring.try_pop(t); if (ok) note(t); break; }
            case 1: { auto r = ring.try_pop(); ok = static_cast<bool>(r); if (ok) note(r.value()); break; }
            default: { alignas(Tracked) char raw[sizeof(Tracked)]; Tracked* s = reinterpret_cast<Tracked*>(raw); ok = ring.try_pop_into(s); if (ok) { note(*s); s->~Tracked(); } }
          }
          if (ok) idle = 0;
          else if (producersLeft.load() == 0 && ++idle > 2000) break;
        }
      });
    for (auto& t : th) t.join();
    // quiescent and empty now: a push must succeed (not full) and a pop must return that element (not empty)
    { Tracked probe(kPerProducer * np - 1); Tracked out; if (!ring.try_push(std::move(probe)) || !ring.try_pop(out) || out.tag != kPerProducer * np - 1) { std::printf("Capacity=%zu RoundUp=%d: quiescent empty ring refused a push or lost it\n", CAP, (int)RU); quiescentBad = 1; } }
    // whatever is still inside is destroyed by the destructor
  }
  uint64_t total = 0, lost = 0;
  for (int p = 0; p < np; ++p) { total += accepted[p]; for (uint64_t i = 0; i < accepted[p]; ++i) if (!led.delivered[kPerProducer * p + i].load()) ++lost; }
  std::printf("Capacity=%zu RoundUp=%d producers=%d consumers=%d: accepted=%llu delivered=%llu duplicated=%llu lost=%llu bogus=%llu order-inversions=%llu\n", CAP, (int)RU, np, nc,
              (unsigned long long)total, (unsigned long long)led.got.load(), (unsigned long long)led.dup.load(), (unsigned long long)lost,
              (unsigned long long)led.bogus.load(), (unsigned long long)inversions.load());
  return (led.dup.load() || lost || led.bogus.load() || inversions.load() || quiescentBad) ? 1 : 0;
}

int main(int argc, char** argv) {
  double secs = argc > 1 ? std::atof(argv[1]) : 4.0;
  int bad = 0;
  auto t0 = std::chrono::steady_clock::now();
  for (int round = 0; !bad && std::chrono::duration<double>(std::chrono::steady_clock::now() - t0).count() < secs; ++round) {
    bad |= run<2, true>(secs / 10, 2, 2);
    bad |= run<3, false>(secs / 10, 3, 2);
    bad |= run<6, true>(secs / 12, 4, 3);
    bad |= run<3, true>(secs / 12, 2, 2);
    bad |= run<16, true>(secs / 10, 3, 3);
    bad |= run<6, false>(secs / 10, 2, 3);
    bad |= trk::lifetimeErrors("element lifetimes") ? 1 : 0;
  }
  if (bad) { std::printf("MpmcRingBuffer broke exactly-once delivery / FIFO order / element lifetimes: property C34 violated on the real code\n"); return 1; }
  std::printf("every accepted element was delivered exactly once, in order, and destroyed exactly once\n");
  return 0;
}
