// C35 replay: on the REAL dispenso::SPSCRingBuffer, one producer pushes consecutively tagged lifetime-tracked elements through every push
// flavour (move, copy, emplace, batch) and one consumer pops through every pop flavour (T&, OpResult, raw storage, batch).  The consumer
// must see exactly the tags 0,1,2,... in order (exactly-once + FIFO); element-lifetime errors (double destroy, read of a destroyed/raw
// slot, construction over a live element, constructed != destroyed) are counted at the access.  exit 1 = violated.
#include <dispenso/spsc_ring_buffer.h>
#include "tracked.h"
#include <chrono>
#include <cstdlib>
#include <new>
#include <thread>
using trk::Tracked;

template <size_t CAP, bool RU>
static int run(double seconds) {
  std::atomic<uint64_t> orderErrors{0}, consumed{0};
  std::atomic<bool> done{false};
  uint64_t produced = 0;
  {
    dispenso::SPSCRingBuffer<Tracked, CAP, RU> ring;
    auto t0 = std::chrono::steady_clock::now();
    std::thread prod([&]() {
      uint64_t n = 0, iters = 0; unsigned rnd = 4242;
      while (true) {
        if ((++iters & 255) == 0 && std::chrono::duration<double>(std::chrono::steady_clock::now() - t0).count() > seconds) break;
        rnd = rnd * 1664525u + 1013904223u;
        switch ((rnd >> 16) & 3) {
          case 0: { Tracked t(n); if (ring.try_push(std::move(t))) ++n; break; }
          case 1: { const Tracked t(n); if (ring.try_push(t)) ++n; break; }
          case 2: { if (ring.try_emplace(n)) ++n; break; }
          default: {
            size_t want = 1 + ((rnd >> 20) % 4);
            alignas(Tracked) char raw[4 * sizeof(Tracked)];
            Tracked* items = reinterpret_cast<Tracked*>(raw);
            for (size_t i = 0; i < want; ++i) new (items + i) Tracked(n + i);
            size_t pushed = ring.try_push_batch(items, items + want);
            for (size_t i = 0; i < want; ++i) items[i].~Tracked();
            n += pushed;
          }
        }
      }
      produced = n;
      done.store(true, std::memory_order_release);
    });
    std::thread cons([&]() {
      uint64_t expect = 0; int idle = 0; unsigned rnd = 99;
      auto note = [&](const Tracked& t) { if (t.state != trk::kAlive) trk::g_readDead++; if (t.tag != expect) orderErrors++; expect = t.tag + 1; };
      while (true) {
        bool ok = false;
        rnd = rnd * 1664525u + 1013904223u;
        switch ((rnd >> 16) & 3) {
          case 0: { Tracked t; ok = ring.try_pop(t); if (ok) note(t); break; }
          case 1: { auto r = ring.try_pop(); ok = static_cast<bool>(r); if (ok) note(r.value()); break; }
          case 2: { alignas(Tracked) char raw[sizeof(Tracked)]; Tracked* s = reinterpret_cast<Tracked*>(raw); ok = ring.try_pop_into(s); if (ok) { note(*s); s->~Tracked(); } break; }
          default: { Tracked out[3]; size_t got = ring.try_pop_batch(out, 3); ok = got > 0; for (size_t i = 0; i < got; ++i) note(out[i]); }
        }
        if (ok) idle = 0;
        else if (done.load(std::memory_order_acquire) && ++idle > 2000) break;
      }
      consumed = expect;
    });
    prod.join(); cons.join();
  }
  std::printf("Capacity=%zu RoundUp=%d: produced=%llu consumed-through=%llu order/duplicate/loss errors=%llu\n", CAP, (int)RU,
              (unsigned long long)produced, (unsigned long long)consumed.load(), (unsigned long long)orderErrors.load());
  return (orderErrors.load() || consumed.load() != produced) ? 1 : 0;
}

int main(int argc, char** argv) {
  double secs = argc > 1 ? std::atof(argv[1]) : 4.0;
  int bad = 0;
  auto t0 = std::chrono::steady_clock::now();
  for (int round = 0; !bad && std::chrono::duration<double>(std::chrono::steady_clock::now() - t0).count() < secs; ++round) {
    bad |= run<1, true>(secs / 10);
    bad |= run<2, false>(secs / 10);
    bad |= run<3, true>(secs / 10);
    bad |= run<5, false>(secs / 10);
    bad |= run<15, true>(secs / 10);
    bad |= trk::lifetimeErrors("element lifetimes") ? 1 : 0;
  }
  if (bad) { std::printf("SPSCRingBuffer broke exactly-once FIFO delivery / element lifetimes: property C35 violated on the real code\n"); return 1; }
  std::printf("every pushed element was delivered exactly once, in push order, and destroyed exactly once\n");
  return 0;
}
