// Replay of C21 counterexamples on the real dispenso::Latch / CompletionEvent.
// usage: replay count_down count0=<c> n=<n>    exit 0 = behaves as specified, 1 = lost wake-up or early return, 2 = not replayable
#include <dispenso/latch.h>
#include <dispenso/completion_event.h>
#include <atomic>
#include <chrono>
#include <cstdio>
#include <cstdlib>
#include <cstring>
#include <map>
#include <string>
#include <thread>
static std::map<std::string, long long> kv;
int main(int argc, char** argv) {
  if (argc < 2) return 2;
  std::string mode = argv[1];
  for (int i = 2; i < argc; ++i) { char* eq = strchr(argv[i], '='); if (eq) kv[std::string(argv[i], eq - argv[i])] = strtoll(eq + 1, 0, 0); }
  if (mode == "count_down") {
    long long c0 = kv["count0"], n = kv["n"];
    if (c0 < 1 || n < 0 || n > c0 || c0 > 0x7fffffff) { printf("not a legal latch use\n"); return 2; }
    auto* latch = new dispenso::Latch((uint32_t)c0);
    auto* returned = new std::atomic<bool>(false);
    std::thread waiter([=] { latch->wait(); returned->store(true); });
    waiter.detach();
    std::this_thread::sleep_for(std::chrono::milliseconds(200));  // let the waiter park in the futex
    latch->count_down((uint32_t)n);
    std::this_thread::sleep_for(std::chrono::milliseconds(500));
    bool should = (c0 - n == 0), did = returned->load();
    printf("real Latch(%lld): waiter parked, count_down(%lld): waiter %s after 500ms, count is now %s -> %s\n", c0, n, did ? "RETURNED" : "still blocked",
           should ? "zero" : "non-zero", did == should ? "as specified" : (should ? "LOST WAKE-UP" : "EARLY RETURN"));
    fflush(stdout);
    _Exit(did == should ? 0 : 1);
  }
  return 2;
}
