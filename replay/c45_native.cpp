// C45 supporting native check on the REAL thread_id.cpp: the id counter must be constant-initialised.
// An object defined BEFORE the library source in this translation unit takes an id during static initialisation; if the counter
// were initialised dynamically (later), it would be reset and the same id handed out again.  Also re-checks uniqueness/stability
// over 512 threads.  Prints CASES=<n>; exit 0 ok / 1 violated.
#include <dispenso/thread_id.h>
#include <cstdio>
#include <mutex>
#include <set>
#include <thread>
#include <vector>
static uint64_t g_early_id;
struct Early { Early() { g_early_id = dispenso::threadId(); } };
static Early g_early;                       // initialised before anything in thread_id.cpp below (same TU: definition order)
#include <dispenso/thread_id.cpp>
int main() {
  std::mutex mu; std::multiset<uint64_t> ids; int unstable = 0;
  ids.insert(g_early_id);
  if (dispenso::threadId() != g_early_id) ++unstable;
  std::vector<std::thread> ts;
  for (int i = 0; i < 512; ++i) ts.emplace_back([&] { uint64_t a = dispenso::threadId(); for (int k = 0; k < 100; ++k) if (dispenso::threadId() != a) { std::lock_guard<std::mutex> l(mu); ++unstable; break; } std::lock_guard<std::mutex> l(mu); ids.insert(a); });
  for (auto& t : ts) t.join();
  size_t dup = 0; for (auto it = ids.begin(); it != ids.end(); it = ids.upper_bound(*it)) if (ids.count(*it) > 1) ++dup;
  printf("id taken during static initialisation: %llu; %zu duplicate id(s), %d unstable thread(s) among 513 threads\nCASES=513\n", (unsigned long long)g_early_id, dup, unstable);
  return (dup || unstable) ? 1 : 0;
}
