// C02 replay: on the REAL task sets.  (a) tryWait(n) with the budget of the counterexample (argv[1], default 0) while a task of the set is
// provably still running must return false.  (b) wait() and the destructors are completion barriers for single, bulk and force-queued
// submissions, also when tasks schedule further tasks: after they return every body has finished, each exactly once.  exit 1 = violated.
#include <dispenso/task_set.h>
#include <dispenso/thread_pool.h>
#include <atomic>
#include <chrono>
#include <cstdio>
#include <cstdlib>
#include <thread>
#include <vector>
int main(int argc, char** argv) {
  size_t budget = argc > 1 ? std::strtoull(argv[1], nullptr, 10) : 0;
  int bad = 0;
  for (int variant = 0; variant < 3; ++variant) {
    dispenso::ThreadPool pool(2);
    std::atomic<bool> release{false}, started{false};
    dispenso::TaskSet ts(pool);
    dispenso::ConcurrentTaskSet cts(pool), ctsL(pool, dispenso::TaskCost::kLightweight);
    auto blocker = [&]() { started = true; while (!release.load()) std::this_thread::sleep_for(std::chrono::milliseconds(1)); };
    if (variant == 0) ts.schedule(blocker, dispenso::ForceQueuingTag()); else if (variant == 1) cts.schedule(blocker, dispenso::ForceQueuingTag()); else ctsL.schedule(blocker, dispenso::ForceQueuingTag());
    while (!started.load()) std::this_thread::sleep_for(std::chrono::milliseconds(1));
    bool r = variant == 0 ? ts.tryWait(budget) : variant == 1 ? cts.tryWait(budget) : ctsL.tryWait(budget);
    if (r) { std::printf("variant %d: tryWait(%zu) returned true while a task of the set was still running\n", variant, budget); bad++; }
    release = true;
    ts.wait(); cts.wait(); ctsL.wait();
  }
  for (int round = 0; round < 200 && !bad; ++round) {
    dispenso::ThreadPool pool(3);
    const int N = 64;
    std::vector<std::atomic<int>> ran(4 * N);
    for (auto& a : ran) a.store(0);
    {
      dispenso::ConcurrentTaskSet cts(pool);
      dispenso::TaskSet ts(pool);
      for (int i = 0; i < N; ++i) {
        cts.schedule([&, i]() { ran[i]++; cts.schedule([&, i]() { std::this_thread::yield(); ran[N + i]++; }); });
        ts.schedule([&, i]() { ran[2 * N + i]++; }, dispenso::ForceQueuingTag());
      }
      cts.scheduleBulk(N / 2, [&](size_t i) { return [&, i]() { ran[3 * N + i]++; }; });
      ts.scheduleBulk(N / 2, [&](size_t i) { return [&, i]() { ran[3 * N + N / 2 + i]++; }; }, dispenso::ForceQueuingTag());
      if (round & 1) { cts.wait(); ts.wait(); }   // otherwise the destructors are the barrier
      if (round & 1) for (int i = 0; i < 4 * N; ++i) if (ran[i].load() != 1) { std::printf("round %d: after wait() body %d ran %d times\n", round, i, ran[i].load()); bad++; break; }
    }
    for (int i = 0; i < 4 * N && !bad; ++i) if (ran[i].load() != 1) { std::printf("round %d: after the destructors body %d ran %d times\n", round, i, ran[i].load()); bad++; }
  }
  if (bad) { std::printf("task-set completion barrier violated on the real code\n"); return 1; }
  std::printf("tryWait(%zu) never reported completion early; wait()/destructors were completion barriers\n", budget);
  return 0;
}
