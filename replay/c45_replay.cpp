// Replay for C45 on the real dispenso::threadId(): stability within a thread, uniqueness across many concurrently created threads.
#include <dispenso/thread_id.h>
#include <cstdio>
#include <mutex>
#include <set>
#include <thread>
#include <vector>
int main() {
  std::mutex mu; std::multiset<uint64_t> ids; int unstable = 0;
  std::vector<std::thread> ts;
  for (int i = 0; i < 256; ++i) ts.emplace_back([&] { uint64_t a = dispenso::threadId(); for (int k = 0; k < 1000; ++k) if (dispenso::threadId() != a) { std::lock_guard<std::mutex> l(mu); ++unstable; break; } std::lock_guard<std::mutex> l(mu); ids.insert(a); });
  for (auto& t : ts) t.join();
  size_t dup = 0; for (auto it = ids.begin(); it != ids.end(); ++it) if (ids.count(*it) > 1) ++dup;
  printf("real threadId: %d unstable thread(s), %zu duplicate id(s) among 256 threads\n", unstable, dup);
  return (unstable || dup) ? 1 : 0;
}
