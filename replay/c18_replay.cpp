// C18 replay: on the REAL dispenso::Future.  (a) many rounds of one future shared by several threads that call get()/wait()/wait_for()
// concurrently while the pool may or may not get to it first: the functor must run exactly once and every get() must return the same
// object.  (b) many copies: 70000 copies of one Future are made, 30000 of them dropped again; the result object must stay alive and
// intact as long as any copy exists and be destroyed exactly once after the last one.  exit 1 = violated.
#include <dispenso/future.h>
#include <dispenso/thread_pool.h>
#include <atomic>
#include <chrono>
#include <cstdio>
#include <thread>
#include <vector>
static std::atomic<int> g_ctor{0}, g_dtor{0};
struct Res {
  uint64_t magic; int v;
  explicit Res(int x) : magic(0xC0FFEE1234ull), v(x) { g_ctor++; }
  Res(const Res& o) : magic(o.magic), v(o.v) { g_ctor++; }
  Res(Res&& o) noexcept : magic(o.magic), v(o.v) { g_ctor++; }
  ~Res() { magic = 0xDEAD; g_dtor++; }
};
int main() {
  int bad = 0;
  dispenso::ThreadPool pool(4);
  for (int round = 0; round < 300 && !bad; ++round) {
    std::atomic<int> runs{0};
    dispenso::Future<Res> f = dispenso::async(pool, [&]() { runs++; return Res(round); });
    std::vector<const Res*> seen(6, nullptr);
    std::vector<std::thread> th;
    for (int t = 0; t < 6; ++t)
      th.emplace_back([&, t]() {
        dispenso::Future<Res> mine = f;
        if (t % 3 == 1) mine.wait(); else if (t % 3 == 2) mine.wait_for(std::chrono::milliseconds(50));
        seen[t] = &mine.get();
        if (seen[t]->magic != 0xC0FFEE1234ull || seen[t]->v != round) bad = 1;
      });
    for (auto& t : th) t.join();
    for (int t = 1; t < 6; ++t) if (seen[t] != seen[0]) { std::printf("round %d: get() returned different result objects\n", round); bad = 1; }
    if (runs.load() != 1) { std::printf("round %d: the functor ran %d times\n", round, runs.load()); bad = 1; }
  }
  {
    int c0 = g_ctor.load(), d0 = g_dtor.load();
    {
      dispenso::Future<Res> f = dispenso::async(pool, []() { return Res(7); });
      const Res* r = &f.get();
      int live = g_ctor.load() - c0 - (g_dtor.load() - d0);
      std::vector<dispenso::Future<Res>> copies;
      copies.reserve(70000);
      for (int i = 0; i < 70000; ++i) copies.push_back(f);
      copies.erase(copies.begin(), copies.begin() + 30000);
      int liveNow = g_ctor.load() - c0 - (g_dtor.load() - d0);
      if (r->magic != 0xC0FFEE1234ull || r->v != 7 || liveNow != live) { std::printf("the result object was destroyed while %zu Future copies still refer to it\n", copies.size() + 1); bad = 1; }
      for (auto& c : copies) if (&c.get() != r) { std::printf("a copy's get() returns a different object\n"); bad = 1; break; }
    }
    if (!bad && g_ctor.load() - c0 != g_dtor.load() - d0) { std::printf("result objects constructed %d, destroyed %d\n", g_ctor.load() - c0, g_dtor.load() - d0); bad = 1; }
  }
  {  // assignment of a future to itself through an alias (v[i] = v[perm[i]] with a fixed point) must leave it valid and its result alive
    std::vector<dispenso::Future<Res>> v;
    for (int i = 0; i < 8; ++i) v.push_back(dispenso::async(pool, [i]() { return Res(1000 + i); }));
    for (auto& f : v) f.wait();
    std::this_thread::sleep_for(std::chrono::milliseconds(30));   // the pool's own reference is gone by now: each future is the last owner
    for (int i = 0; i < 8; ++i) { dispenso::Future<Res>& a = v[i]; const dispenso::Future<Res>& b = v[i]; a = b; }
    std::vector<dispenso::Future<Res>> w;
    for (int i = 0; i < 8; ++i) w.push_back(dispenso::async(pool, [i]() { return Res(2000 + i); }));
    for (auto& f : w) f.wait();
    for (int i = 0; i < 8; ++i) { const Res& r = v[i].get(); if (r.magic != 0xC0FFEE1234ull || r.v != 1000 + i) { std::printf("future %d: after self-assignment get() returned %d (expected %d)\n", i, r.v, 1000 + i); bad = 1; break; } }
  }
  if (bad) { std::printf("Future: property C18 violated on the real code\n"); return 1; }
  std::printf("functor ran once per future; every get() returned the same live object\n");
  return 0;
}
