// Replay for C24 on the real dispenso::AsyncRequest<T> (C++14 branch: detail::OpResult): two consumers race on one emplaced value.
// T's move constructor holds the first consumer inside getUpdate() until a second consumer has also started moving (or 1 s passes).
// exit 0: at most one consumer received the value; exit 1: the same value was delivered twice.
#include <dispenso/async_request.h>
#include <atomic>
#include <chrono>
#include <cstdio>
#include <thread>
static std::atomic<int> movers{0};
struct Val {
  int v;
  explicit Val(int x) : v(x) {}
  Val(const Val& o) : v(o.v) {}
  Val(Val&& o) : v(o.v) {
    ++movers;
    for (int i = 0; i < 1000 && movers.load() < 2; ++i) std::this_thread::sleep_for(std::chrono::milliseconds(1));
  }
};
int main() {
  dispenso::AsyncRequest<Val> req;
  req.requestUpdate();
  if (!req.tryEmplaceUpdate(42)) return 2;
  std::atomic<int> delivered{0};
  auto consumer = [&] { auto r = req.getUpdate(); if (r) ++delivered; };
  std::thread a(consumer), b(consumer);
  a.join(); b.join();
  printf("real AsyncRequest: one request, one emplaced value, two concurrent getUpdate() calls: value delivered %d time(s)\n", delivered.load());
  return delivered.load() > 1 ? 1 : 0;
}
