// Replay of verifier counterexamples for C17 (and the static part of C12/C13) on the REAL dispenso code.
// usage: replay <mode> [T=<IntegerT>] key=value ...
//   exit 0: property holds on the real code for this input;  exit 1: violated (details printed);
//   exit 2: input not replayable (outside the function's precondition, or too large to run natively)
#include <dispenso/parallel_for.h>
#include <dispenso/for_each.h>
#include <dispenso/platform.h>
#include <cstdio>
#include <cstdlib>
#include <cstring>
#include <map>
#include <mutex>
#include <string>
#include <vector>
#include <algorithm>

typedef __int128 i128;
static std::map<std::string, std::string> kv;
static i128 geti(const char* k, bool* found = nullptr) {
  auto it = kv.find(k);
  if (it == kv.end()) {
    if (found) { *found = false; return 0; }
    fprintf(stderr, "missing input %s\n", k);
    exit(2);
  }
  if (found) *found = true;
  const char* s = it->second.c_str();
  if (!strcmp(s, "true")) return 1;
  if (!strcmp(s, "false")) return 0;
  bool neg = *s == '-';
  if (neg) ++s;
  i128 v = 0;
  for (; *s >= '0' && *s <= '9'; ++s) v = v * 10 + (*s - '0');
  return neg ? -v : v;
}
static void pr(const char* name, i128 v) { printf("%s=%lld%s", name, (long long)v, " "); }

static int check_chunking(i128 items, i128 chunks, i128 unit, dispenso::StaticChunking c) {
  i128 T = c.transitionTaskIndex, C = c.ceilChunkSize;
  bool ok = 1 <= T && T <= chunks && C >= 0 && (T == chunks || C - unit >= 0) &&
      T * C + (chunks - T) * (C - unit) == items && (unit == 1 || C % unit == 0);
  printf("real code: items=%lld chunks=%lld unit=%lld -> transitionTaskIndex=%lld ceilChunkSize=%lld : %s\n", (long long)items,
         (long long)chunks, (long long)unit, (long long)T, (long long)C, ok ? "partition OK" : "NOT a partition into the stated sizes");
  return ok ? 0 : 1;
}

template <typename IntegerT>
static int mapperT() {
  using M = dispenso::detail::StaticChunkMapper<IntegerT>;
  using size_type = typename M::size_type;
  using U = typename std::make_unsigned<IntegerT>::type;
  M m{(size_type)geti("self.numThreads"), (IntegerT)geti("self.chunkSize"), (IntegerT)geti("self.smallChunk"),
      (size_type)geti("self.transIdx"), (IntegerT)geti("self.rangeStart"), (IntegerT)geti("self.rangeEnd")};
  size_type idx = (size_type)geti("idx");
  i128 CS = (U)m.chunkSize, SS = (U)m.smallChunk, NT = m.numThreads, TI = m.transIdx, RS = m.rangeStart, RE = m.rangeEnd;
  bool wf = NT >= 1 && 0 <= TI && TI <= NT && SS <= CS && TI >= 1 && RS + TI * CS + (NT - TI) * SS == RE && (i128)idx < NT && idx >= 0;
  if (!wf) { printf("input does not satisfy the mapper's well-formedness precondition\n"); return 2; }
  auto bound = [&](i128 k) { return RS + (k < TI ? k * CS : TI * CS + (k - TI) * SS); };
  auto r = m(idx);
  bool ok = (i128)r.first == bound(idx) && (i128)r.second == bound((i128)idx + 1);
  printf("real StaticChunkMapper(idx=%lld) = [%lld, %lld), specified [%lld, %lld): %s\n", (long long)idx, (long long)r.first,
         (long long)r.second, (long long)bound(idx), (long long)bound((i128)idx + 1), ok ? "OK" : "MISMATCH");
  return ok ? 0 : 1;
}

// run the real parallel_for with static chunking and check the chunks handed to the body
template <typename IntegerT>
static int deriveT() {
  i128 s = geti("range.start"), e = geti("range.end"), nt = geti("numThreads"), g = geti("granularity");
  if (nt > 64 || nt < 1) { printf("numThreads=%lld not replayable with a real pool\n", (long long)nt); return 2; }
  dispenso::ThreadPool pool((size_t)(nt - 1 > 0 ? nt - 1 : 1));
  dispenso::TaskSet ts(pool);
  std::mutex mu;
  std::vector<std::pair<i128, i128>> got;
  dispenso::ParForOptions opt;
  opt.maxThreads = (uint32_t)nt;
  opt.granularity = (uint32_t)g;
  opt.defaultChunking = dispenso::ParForChunking::kStatic;
  auto range = dispenso::makeChunkedRange((IntegerT)s, (IntegerT)e, dispenso::ParForChunking::kStatic);
  dispenso::parallel_for(ts, range, [&](IntegerT a, IntegerT b) {
    std::lock_guard<std::mutex> l(mu);
    got.push_back({a, b});
  }, opt);
  std::sort(got.begin(), got.end());
  bool ok = !got.empty() && got.front().first == s && got.back().second == e;
  i128 mx = 0, mn = -1;
  int nonmult = 0;
  for (size_t i = 0; i < got.size(); ++i) {
    i128 sz = got[i].second - got[i].first;
    if (sz <= 0) ok = false;
    if (i + 1 < got.size() && got[i].second != got[i + 1].first) ok = false;
    if (g > 1 && sz % g != 0) { ++nonmult; if (got[i].second != e) ok = false; }
    else { mx = std::max(mx, sz); mn = mn < 0 ? sz : std::min(mn, sz); }
  }
  if (nonmult > 1) ok = false;
  if (mn >= 0 && mx - mn > (g > 1 ? g : 1)) ok = false;
  printf("real parallel_for(static) on [%lld,%lld) maxThreads=%lld granularity=%lld produced %zu chunks:", (long long)s, (long long)e,
         (long long)nt, (long long)g, got.size());
  for (size_t i = 0; i < got.size() && i < 12; ++i) printf(" [%lld,%lld)", (long long)got[i].first, (long long)got[i].second);
  printf(" : %s\n", ok ? "exact partition, sizes differ by <= 1 unit" : "NOT an exact partition with sizes differing by <= 1 unit");
  return ok ? 0 : 1;
}

static int fe() {
  i128 n = geti("n"), nt = geti("numThreads");
  if (n > 2000000 || nt > 64 || nt < 1) { printf("n=%lld numThreads=%lld not replayable natively\n", (long long)n, (long long)nt); return 2; }
  dispenso::ThreadPool pool((size_t)(nt - 1 > 0 ? nt - 1 : 1));
  dispenso::TaskSet ts(pool);
  std::vector<int> hits((size_t)n, 0);
  dispenso::ForEachOptions opt;
  opt.maxThreads = (uint32_t)nt;
  dispenso::for_each_n(ts, hits.begin(), (size_t)n, [](int& h) { __atomic_fetch_add(&h, 1, __ATOMIC_RELAXED); }, opt);
  size_t bad = 0;
  for (int h : hits) bad += (h != 1);
  printf("real for_each_n n=%lld maxThreads=%lld: %zu elements not visited exactly once\n", (long long)n, (long long)nt, bad);
  return bad ? 1 : 0;
}

#define DISPATCH(fn)                                                     \
  do {                                                                   \
    std::string T = kv.count("T") ? kv["T"] : "int64_t";                 \
    if (T == "int8_t") return fn<int8_t>();                              \
    if (T == "uint8_t") return fn<uint8_t>();                            \
    if (T == "int16_t") return fn<int16_t>();                            \
    if (T == "uint16_t") return fn<uint16_t>();                          \
    if (T == "int32_t") return fn<int32_t>();                            \
    if (T == "uint32_t") return fn<uint32_t>();                          \
    if (T == "int64_t") return fn<int64_t>();                            \
    if (T == "uint64_t") return fn<uint64_t>();                          \
    return 2;                                                            \
  } while (0)

int main(int argc, char** argv) {
  if (argc < 2) return 2;
  std::string mode = argv[1];
  for (int i = 2; i < argc; ++i) {
    char* eq = strchr(argv[i], '=');
    if (eq) kv[std::string(argv[i], eq - argv[i])] = eq + 1;
  }
  if (mode == "scs") {
    i128 items = geti("items"), chunks = geti("chunks");
    if (chunks < 1 || items < 0) return 2;
    return check_chunking(items, chunks, 1, dispenso::detail::staticChunkSize((ssize_t)items, (ssize_t)chunks));
  }
  if (mode == "scsg") {
    i128 items = geti("items"), chunks = geti("chunks"), g = geti("granularity");
    if (chunks < 1 || items < 0 || g < 1 || items % g) return 2;
    return check_chunking(items, chunks, g, dispenso::detail::staticChunkSizeGranular((ssize_t)items, (ssize_t)chunks, (uint32_t)g));
  }
  if (mode == "mapper") DISPATCH(mapperT);
  if (mode == "derive") DISPATCH(deriveT);
  if (mode == "fe") return fe();
  return 2;
}
