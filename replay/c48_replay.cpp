// Replay for C48/C14 on the real dispenso::parallel_for: peak number of overlapping body invocations and state-object overlap.
// usage: replay skeleton T=<IntegerT> range_wrapper.start=.. range_wrapper.end=.. range_wrapper.chunk=.. options_wrapper.maxThreads=.. options_wrapper.wait=.. ...
// exit 0 within limits / 1 exceeded or state shared / 2 not replayable
#include <dispenso/parallel_for.h>
#include <atomic>
#include <chrono>
#include <cstdio>
#include <cstdlib>
#include <cstring>
#include <map>
#include <string>
#include <thread>
#include <vector>
#include <list>
static std::map<std::string, std::string> kv;
static long long geti(const std::string& k, long long dflt = 0) {
  auto it = kv.find(k);
  if (it == kv.end()) return dflt;
  const std::string& s = it->second;
  if (s == "TRUE" || s == "true" || s == "True") return 1;
  if (s == "FALSE" || s == "false" || s == "False") return 0;
  return strtoll(s.c_str(), 0, 0);
}
struct State { std::atomic<int> users{0}; State() {} State(const State&) {} };
template <typename T>
static int runT() {
  long long s = geti("range_wrapper.start"), e = geti("range_wrapper.end"), chunk = geti("range_wrapper.chunk");
  unsigned long long mt = (unsigned long long)geti("options_wrapper.maxThreads");
  bool wait = geti("options_wrapper.wait");
  int pool = (int)geti("pool", 7);
  if (e <= s) return 2;
  int worst_peak = 0, shared = 0;
  for (int rep = 0; rep < 20; ++rep) {
    dispenso::ThreadPool tp((size_t)pool);
    dispenso::TaskSet ts(tp);
    std::list<State> states;
    std::atomic<int> cur{0}, peak{0}, sharedNow{0};
    dispenso::ParForOptions opt;
    opt.maxThreads = (uint32_t)mt;
    opt.wait = wait;
    opt.minItemsPerChunk = (uint32_t)geti("options_wrapper.minItemsPerChunk", 1);
    opt.granularity = (uint32_t)geti("options_wrapper.granularity", 1);
    opt.reuseExistingState = geti("options_wrapper.reuseExistingState");
    dispenso::ChunkedRange<T> range((T)s, (T)e, (T)chunk);
    dispenso::parallel_for(ts, states, []() { return State(); }, range, [&](State& st, T, T) {
      int c = ++cur; int m = peak.load(); while (c > m && !peak.compare_exchange_weak(m, c)) {}
      if (st.users.fetch_add(1) != 0) sharedNow++;
      std::this_thread::sleep_for(std::chrono::milliseconds(3));
      st.users.fetch_sub(1);
      --cur;
    }, opt);
    ts.wait();
    if (peak.load() > worst_peak) worst_peak = peak.load();
    shared += sharedNow.load();
  }
  unsigned long long lim = mt < 1 ? 1 : mt;
  printf("real parallel_for [%lld,%lld) chunk=%lld maxThreads=%llu wait=%d g=%lld pool=%d, 20 runs: peak overlapping invocations %d (limit %llu), state objects used by two invocations at once: %d time(s)\n",
         s, e, chunk, mt, (int)wait, geti("options_wrapper.granularity", 1), pool, worst_peak, lim, shared);
  return ((unsigned long long)worst_peak > lim || shared) ? 1 : 0;
}
int main(int argc, char** argv) {
  if (argc < 2) return 2;
  for (int i = 2; i < argc; ++i) { char* eq = strchr(argv[i], '='); if (eq) kv[std::string(argv[i], eq - argv[i])] = eq + 1; }
  std::string T = kv.count("T") ? kv["T"] : "int64_t";
  if (T == "int8_t") return runT<int8_t>(); if (T == "uint8_t") return runT<uint8_t>(); if (T == "int16_t") return runT<int16_t>(); if (T == "uint16_t") return runT<uint16_t>();
  if (T == "int32_t") return runT<int32_t>(); if (T == "uint32_t") return runT<uint32_t>(); if (T == "int64_t") return runT<int64_t>(); if (T == "uint64_t") return runT<uint64_t>();
  return 2;
}
