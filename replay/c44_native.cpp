// Native comparison of the COMPILED dispenso bit-math helpers (including the inline-asm log2) against reference loops.
// argv[1] = log2 of the number of 32-bit inputs (32 = every uint32_t), argv[2] = seed.  Bounded stand-in for the bsr axiom.
#include <dispenso/detail/math.h>
#include <dispenso/platform.h>
#include <cstdio>
#include <cstdlib>
#include <cstdint>
using namespace dispenso::detail;
static uint32_t ref_log2(uint64_t v) { uint32_t r = 0; while (v >>= 1) ++r; return r; }
static uint64_t rng_state;
static uint64_t rng() { rng_state ^= rng_state << 13; rng_state ^= rng_state >> 7; rng_state ^= rng_state << 17; return rng_state; }
static unsigned long long cases = 0;
static int check64(uint64_t v) {
  ++cases;
  if (v == 0) return 0;
  uint32_t r = ref_log2(v);
  if (log2(v) != r || log2const(v) != r) { printf("log2 mismatch v=%llu got %u/%u want %u\n", (unsigned long long)v, log2(v), log2const(v), r); return 1; }
  int tz = 0; while (!((v >> tz) & 1)) ++tz;
  if (countTrailingZeros(v) != tz) { printf("ctz mismatch v=%llu\n", (unsigned long long)v); return 1; }
  int pc = 0; for (int i = 0; i < 64; ++i) pc += (v >> i) & 1;
  if (countSetBits(v) != pc) { printf("popcount mismatch v=%llu\n", (unsigned long long)v); return 1; }
  if (v <= (1ull << 63)) {
    uint64_t p = nextPow2(v);
    if (!(p && !(p & (p - 1)) && p >= v && (p >> 1) < v)) { printf("nextPow2 mismatch v=%llu got %llu\n", (unsigned long long)v, (unsigned long long)p); return 1; }
  }
  return 0;
}
int main(int argc, char** argv) {
  int lg = argc > 1 ? atoi(argv[1]) : 24;
  rng_state = 0x9E3779B97F4A7C15ull ^ (argc > 2 ? strtoull(argv[2], 0, 10) : 1);
  uint64_t n = lg >= 32 ? (1ull << 32) : (1ull << lg);
  uint64_t stride = (1ull << 32) / n;
  for (uint64_t k = 0; k < n; ++k) {
    uint32_t v = (uint32_t)(k * stride + (stride > 1 ? rng() % stride : 0));
    ++cases;
    if (v == 0) continue;
    uint32_t r = ref_log2(v);
    if (log2(v) != r || log2const(v) != r) { printf("log2(uint32) mismatch v=%u got %u/%u want %u\n", v, log2(v), log2const(v), r); return 1; }
  }
  for (int b = 0; b < 64; ++b)
    for (int d = -2; d <= 2; ++d)
      if (check64((1ull << b) + (uint64_t)d)) return 1;
  for (uint64_t k = 0; k < (1ull << 24); ++k) {
    uint64_t v = rng() >> (rng() & 63);
    if (check64(v)) return 1;
  }
  for (uintptr_t v = 0; v < 100000; ++v) {
    uintptr_t a = dispenso::detail::alignToCacheLine(v);
    ++cases;
    if (!(a >= v && a % dispenso::kCacheLineSize == 0 && a - v < dispenso::kCacheLineSize)) { printf("alignToCacheLine mismatch %lu\n", (unsigned long)v); return 1; }
  }
  for (size_t al = 1; al <= 4096; al <<= 1)
    for (size_t bytes = 0; bytes < 300; bytes += 7) {
      void* p = alignedMalloc(bytes, al);
      ++cases;
      if ((uintptr_t)p % al) { printf("alignedMalloc misaligned al=%zu\n", al); return 1; }
      alignedFree(p);
    }
  printf("all compiled helpers agree with their references\nCASES=%llu\n", cases);
  return 0;
}
