// C33 replay: on the REAL dispenso::ConcurrentVector, for every realloc strategy, buffer layout (inline / not) and element sizes that give
// first buckets of 1 .. 64 elements: threads grow one vector concurrently through push_back, emplace_back, grow_by, grow_by_generator and
// grow_to_at_least while each thread re-reads, through a reference it kept, an element it published earlier.  Every added element carries a unique tag; at the end every tag
// must be present exactly once at a distinct index and size() must equal the total growth.  A SIGSEGV handler reports a store through
// an unpublished bucket.  exit 1 = violated.
#include <dispenso/concurrent_vector.h>
#include <atomic>
#include <csignal>
#include <cstdio>
#include <cstdlib>
#include <thread>
#include <unistd.h>
#include <vector>
template <size_t PAD> struct Elem { uint64_t tag; char pad[PAD]; Elem() : tag(~0ull) {} explicit Elem(uint64_t t) : tag(t) {} };
template <dispenso::ConcurrentVectorReallocStrategy S, bool INL> struct Tr : dispenso::DefaultConcurrentVectorTraits {
  static constexpr bool kPreferBuffersInline = INL;
  static constexpr dispenso::ConcurrentVectorReallocStrategy kReallocStrategy = S;
};
static void onSegv(int) { const char m[] = "SIGSEGV: an element was constructed through a bucket pointer that had not been published\n"; (void)!write(1, m, sizeof(m) - 1); _exit(1); }

template <typename E, typename TR>
static int run(const char* what, int rounds) {
  int bad = 0;
  for (int round = 0; round < rounds && !bad; ++round) {
    dispenso::ConcurrentVector<E, TR> v;
    const int NT = 6; const uint64_t PER = 600;
    std::atomic<int> go{0}, stale{0};
    std::vector<std::thread> th;
    for (int t = 0; t < NT; ++t)
      th.emplace_back([&, t]() {
        go++; while (go.load() < NT) {}
        uint64_t base = t * PER, n = 0; unsigned rnd = 31 * t + round;
        E* first = nullptr;   // reference to this thread's first element: must stay valid and keep its value while the vector grows
        while (n < PER) {
          rnd = rnd * 1664525u + 1013904223u;
          uint64_t k = 1 + (rnd >> 20) % 5; if (n + k > PER) k = PER - n;
          switch ((rnd >> 16) % 4) {
            case 0: { auto it = v.push_back(E(base + n)); if (!first) first = &*it; k = 1; break; }
            case 1: { auto it = v.emplace_back(base + n); if (!first) first = &*it; k = 1; break; }
            case 2: { auto it = v.grow_by(k); for (uint64_t j = 0; j < k; ++j, ++it) it->tag = base + n + j; break; }
            default: { uint64_t j = 0; v.grow_by_generator(k, [&]() { return E(base + n + j++); }); }
          }
          n += k;
          if (first && first->tag / PER != (uint64_t)t) stale++;   // re-read an element this thread published earlier
        }
      });
    for (auto& t : th) t.join();
    uint64_t total = NT * PER;
    if (stale.load()) { std::printf("%s: a reference to an existing element went stale during growth (%d times)\n", what, stale.load()); bad = 1; }
    if (v.size() != total) { std::printf("%s: size() = %zu after growing by %llu\n", what, v.size(), (unsigned long long)total); bad = 1; }
    std::vector<int> seen(total, 0);
    for (size_t i = 0; i < v.size(); ++i) { uint64_t t = v[i].tag; if (t >= total) { std::printf("%s: index %zu holds no element (tag %llx)\n", what, i, (unsigned long long)t); bad = 1; break; } seen[t]++; }
    for (uint64_t t = 0; t < total && !bad; ++t) if (seen[t] != 1) { std::printf("%s: element %llu present %d times\n", what, (unsigned long long)t, seen[t]); bad = 1; }
  }
  return bad;
}
template <dispenso::ConcurrentVectorReallocStrategy S> static int strat(const char* name, int rounds) {
  int bad = 0; char b[96];
  std::snprintf(b, sizeof b, "%s/inline/8B", name);   bad |= run<Elem<8>, Tr<S, true>>(b, rounds);
  std::snprintf(b, sizeof b, "%s/heap/8B", name);     bad |= run<Elem<8>, Tr<S, false>>(b, rounds);
  std::snprintf(b, sizeof b, "%s/inline/120B", name); bad |= run<Elem<120>, Tr<S, true>>(b, rounds);
  std::snprintf(b, sizeof b, "%s/heap/1000B", name);  bad |= run<Elem<1000>, Tr<S, false>>(b, rounds);
  return bad;
}
int main(int argc, char** argv) {
  std::setvbuf(stdout, nullptr, _IONBF, 0);
  std::signal(SIGSEGV, onSegv);
  int rounds = argc > 1 ? std::atoi(argv[1]) : 30;
  int bad = 0;
  bad |= strat<dispenso::ConcurrentVectorReallocStrategy::kFullBufferAhead>("kFullBufferAhead", rounds);
  bad |= strat<dispenso::ConcurrentVectorReallocStrategy::kHalfBufferAhead>("kHalfBufferAhead", rounds);
  bad |= strat<dispenso::ConcurrentVectorReallocStrategy::kAsNeeded>("kAsNeeded", rounds);
  if (bad) { std::printf("ConcurrentVector concurrent growth lost / duplicated an element: property C33 violated on the real code\n"); return 1; }
  std::printf("every element added by concurrent growth is present exactly once; size() is exact\n");
  return 0;
}
