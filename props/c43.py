"""C43 -- CpuSet set algebra, numeric token parsing and the per-atom grouping decision (the tokenising part of the parser is not decided)."""
from driver import Unit
import extract as X

LEVEL = 'proof'
TRUSTED_BASE = ['CBMC 6.11 + cadical', 'tools/extract.py rewrite rules', "glibc's <sched.h> CPU_* macros as read by CBMC",
                'axiom stub __sched_cpucount (out-of-line glibc population count): count() is only proved to forward it']
ASSUMPTIONS = ['Linux (cpu_set_t) variant only; the portable words_[] variant for Windows/macOS is not compiled here',
               'parseIntClamped (numeric token -> id or -1) is under contract with strtol as an axiom stub; NOT decided: the tokenising part of parseLinuxCpuList/parseAndAddRange (std::string, strchr, in-place NUL writes) and buildGroupsFromCacheTopology (std::vector of structs) are outside the extractable subset - '
               'the claim covers the set-algebra sentence of the property only',
               'count() equals the number of members only modulo the __sched_cpucount axiom']
EXPLANATION = 'membership of an arbitrary ghost id before/after each operation, for every argument including negative and >= CPU_SETSIZE ids; range loops by loop contract'

F = 'dispenso/cpu_set.cpp'


def build(ctx):
    r = ctx.repo
    mem = [('R11', r'&set_\b', '&self->set_')]
    def em(name, sig, extra=(), must=()):
        p = r.function(F, sig, which=0)   # first definition = DISPENSO_CPUSET_LINUXY branch
        if 'CPU_' not in p.text:
            raise X.ExtractionError('%s: first definition is not the Linux (CPU_* macro) variant' % name)
        ctx.emit(name + '.body.inc', p, subs=mem + list(extra), must_fire=list(must))
    em('CpuSet_clear', r'void\s+CpuSet::clear\s*\(\s*\)')
    em('CpuSet_add', r'void\s+CpuSet::add\s*\(\s*int32_t\s+hardwareThread\s*\)')
    em('CpuSet_remove', r'void\s+CpuSet::remove\s*\(\s*int32_t\s+hardwareThread\s*\)')
    em('CpuSet_contains', r'bool\s+CpuSet::contains\s*\(\s*int32_t\s+hardwareThread\s*\)\s*const')
    lc = lambda: ('LC', r'(for\s*\(int32_t i = start; i < end; \+\+i\))\s*\{',
                  r'\1 __CPROVER_assigns(i, self->set_) __CPROVER_loop_invariant(0 <= start && end <= CPU_SETSIZE && (start <= end ==> (start <= i && i <= end))) '
                  r'__CPROVER_loop_invariant(LOOPINV) __CPROVER_decreases(end - i) {', 1)
    mm = [('R3', r'std::max\(start,\s*0\)', 'MAX_int32_t(start, 0)', 1), ('R3', r'std::min\(end,\s*static_cast<int32_t>\(CPU_SETSIZE\)\)', 'MIN_int32_t(end, ((int32_t)(CPU_SETSIZE)))', 1)]
    em('CpuSet_addRange', r'void\s+CpuSet::addRange\s*\(\s*int32_t\s+start\s*,\s*int32_t\s+end\s*\)', extra=mm + [lc()], must=['LC', 'R3'])
    em('CpuSet_removeRange', r'void\s+CpuSet::removeRange\s*\(\s*int32_t\s+start\s*,\s*int32_t\s+end\s*\)', extra=mm + [lc()], must=['LC', 'R3'])
    em('CpuSet_count', r'int32_t\s+CpuSet::count\s*\(\s*\)\s*const', must=['R2'])
    pic = r.function(F, r'int32_t\s+parseIntClamped\s*\(\s*const\s+char\*\s*s\s*\)')
    ctx.emit('parseIntClamped.body.inc', pic, must_fire=['R19'], subs=[('R19', r'std::strtol\(', 'G_strtol(', 1)])
    import re
    m = re.search(r'constexpr\s+long\s+kMaxReasonableCpuId\s*=\s*1\s*<<\s*(\d+)\s*;', r.text(F))
    if not m:
        raise X.ExtractionError('kMaxReasonableCpuId definition changed')
    kmax = str(1 << int(m.group(1)))
    S = 'specs/c43_cpuset.c'
    units = [Unit('MEMBER==CPU_ISSET', 'cbmc', S, 'member_matches_glibc', expect=[r'postcondition'], defines={'LOOPINV': '1', 'KMAXCPU': kmax}),
             Unit('parseIntClamped', 'cbmc', S, 'parseIntClamped', replace=['G_strtol'], expect=[r'postcondition'], defines={'LOOPINV': '1', 'KMAXCPU': kmax})]
    for fn in ('CpuSet_clear', 'CpuSet_add', 'CpuSet_remove', 'CpuSet_contains', 'CpuSet_count'):
        units.append(Unit(fn.replace('_', '::'), 'cbmc', S, fn, expect=[r'postcondition'], replace=['__sched_cpucount'] if fn == 'CpuSet_count' else [], timeout=300,
                          defines={'LOOPINV': '1', 'KMAXCPU': kmax}))
    units.append(Unit('CpuSet::addRange', 'cbmc', S, 'CpuSet_addRange', loop_contracts=True, timeout=600, expect=[r'postcondition', r'loop_invariant|loop_step'],
                      defines={'LOOPINV': 'MEMBER(self, g_k) == (g_old_member || (g_k >= start && g_k < i))', 'KMAXCPU': kmax}))
    units.append(Unit('CpuSet::removeRange', 'cbmc', S, 'CpuSet_removeRange', loop_contracts=True, timeout=600, expect=[r'postcondition', r'loop_invariant|loop_step'],
                      defines={'LOOPINV': 'MEMBER(self, g_k) == (g_old_member && !(g_k >= start && g_k < i))', 'KMAXCPU': kmax}))
    # grouping sentence: the per-atom decision of buildGroupsFromCacheTopology and the clamp in front of the loop
    bg = r.function(F, r'std::vector<ThreadGroup>\s+buildGroupsFromCacheTopology\s*\([^)]*\)')
    sl = X.slice_between(bg, r'const\s+int32_t\s+l2L3\s*=', r'pending\.insert\(pending\.end\(\),\s*l2\.cpus\.begin\(\),\s*l2\.cpus\.end\(\)\);', include_end=True)
    ctx.emit('group_step.slice.inc', sl, must_fire=['R17'],
             subs=[('R5', r'\bconst\s+', '', 'opt'),
                   ('R17', r'l3IndexForCpu\(cpuToL3,\s*l2\.cpus\[0\]\)', 'l2L3_in', 1),
                   ('R17', r'static_cast<int32_t>\(l2\.cpus\.size\(\)\)', 'l2Size_in', 1),
                   ('R17', r'static_cast<int32_t>\(pending\.size\(\)\)', 'pendingSize'),
                   ('R17', r'flushGroup\(pending,\s*result\);', '{ pendingSize = 0; known = -1; flushed++; }'),
                   ('R17', r'pending\.insert\(pending\.end\(\),\s*l2\.cpus\.begin\(\),\s*l2\.cpus\.end\(\)\);',
                    '{ pendingSize += l2Size; if (l2L3 >= 0) { if (known >= 0 && known != l2L3) mixed = 1; known = l2L3; } appended++; }', 1)])
    sl = X.slice_between(bg, r'maxGroupSize\s*=\s*std::max\(', r'const\s+std::vector<int32_t>\s+cpuToL3')
    ctx.emit('group_clamp.slice.inc', sl, must_fire=['R3'], subs=[('R3', r'std::max\(maxGroupSize,\s*largestGroupSize\(l2Groups\)\)', 'MAX_int32_t(maxGroupSize, largestL2)', 1)])
    # the loop skips empty atoms and flushes once after the loop (checked textually: these two statements frame the slice)
    if not re.search(r'if\s*\(l2\.cpus\.empty\(\)\)\s*\{\s*continue;\s*\}', bg.text) or not re.search(r'\}\s*flushGroup\(pending,\s*result\);\s*return\s+result;', bg.text):
        raise X.ExtractionError('buildGroupsFromCacheTopology: empty-atom skip or the final flush changed')
    GSPEC = 'specs/c43_groups.c'
    units.append(Unit('buildGroupsFromCacheTopology.step', 'intwp', GSPEC, 'group_step', expect=[r'postcondition\.2'], timeout=120))
    units.append(Unit('buildGroupsFromCacheTopology.clamp', 'intwp', GSPEC, 'group_clamp', expect=[r'postcondition\.1'], timeout=120))
    return units
