"""C21 -- CompletionEvent and Latch waits never miss a wakeup."""
from driver import Unit
import extract as X

LEVEL = 'proof'
TRUSTED_BASE = ['CBMC 6.11 + cadical', 'tools/extract.py rewrite rules',
                'futex axiom: FUTEX_WAIT(addr, expected) blocks only if *addr == expected, atomically with respect to FUTEX_WAKE on the same word',
                'composition argument (i)+(ii)+(iii) => no lost wake-up / no early return is the standard futex-event argument, not machine-checked']
ASSUMPTIONS = ['A-SC: atomics are sequentially consistent; only the release on the completing store and the acquire on the observing load are checked',
               'Linux/FreeBSD variant of CompletionEventImpl only (the macOS/Windows variants are not compiled here)',
               'Latch contract as std::latch: count_down(n) requires n <= current count; counts fit an int',
               'termination of wait (a blocked waiter does return) is the liveness half: it rests on the futex axiom and obligation (i), not on a proved decreases clause']
EXPLANATION = 'local protocol obligations on the word for every value of the word and every n'

L = 'dispenso/latch.h'
C = 'dispenso/detail/completion_event_impl.h'
LINUX = r'#if\s+defined\(__linux__\)\s*\|\|\s*defined\(__FreeBSD__\)\s*class\s+CompletionEventImpl\s*(?=\{)'


def build(ctx):
    r = ctx.repo
    fut = [('R7', r'status_\.store\((\w+), std::memory_order_(\w+)\)', r'A_STORE_int(&self->status_, \1, MO_\2)'),
           ]
    ctx.emit('CEI_notify.body.inc', r.function(C, r'void\s+notify\s*\(\s*int\s+completedStatus\s*\)', within=LINUX), must_fire=['R7', 'R19'],
             subs=[('R7', r'status_\.store\((\w+), std::memory_order_(\w+)\)', r'A_STORE_int(&self->status_, \1, MO_\2)', 1),
                   ('R19', r'futex\(&ftx_, FUTEX_WAKE_PRIVATE, std::numeric_limits<int>::max\(\), nullptr, nullptr, 0\)', 'G_futex_wake(&self->status_, INT_MAX)', 1)])
    ctx.emit('CEI_wait.body.inc', r.function(C, r'void\s+wait\s*\(\s*int\s+completedStatus\s*\)\s*const', within=LINUX), must_fire=['R7', 'R19', 'LC'],
             subs=[('R7', r'status_\.load\(std::memory_order_(\w+)\)', r'A_LOAD_int(&self->status_, MO_\1)', 1),
                   ('R19', r'futex\(&ftx_, FUTEX_WAIT_PRIVATE, current, nullptr, nullptr, 0\)', 'G_futex_wait(&self->status_, current)', 1),
                   ('LC', r'(while\s*\(\(current = [^{]*\)\s*!=\s*completedStatus\))\s*\{',
                    r'\1 __CPROVER_assigns(current, self->status_, g_last_loaded, g_loaded, g_waits, g_last_mo, g_errno) __CPROVER_loop_invariant(g_completed == completedStatus) {', 1)])
    lat = r'class\s+Latch\s*(?=\{)'
    st = [('R7', r'impl_\.intrusiveStatus\(\)\.fetch_sub\((\w+), std::memory_order_(\w+)\)', r'A_FETCH_SUB_int(&self->impl_.status_, \1, MO_\2)', 1)]
    ctx.emit('Latch_count_down.body.inc', r.function(L, r'void\s+count_down\s*\(\s*uint32_t\s+n\s*=\s*1\s*\)', within=lat), must_fire=['R7', 'R17'],
             subs=st + [('R17', r'impl_\.notify\(0\)', 'CEI_notify(&self->impl_, 0)', 1)])
    ctx.emit('Latch_arrive_and_wait.body.inc', r.function(L, r'void\s+arrive_and_wait\s*\(\s*\)', within=lat), must_fire=['R7', 'R17'],
             subs=st + [('R17', r'impl_\.notify\(0\)', 'CEI_notify(&self->impl_, 0)', 1), ('R17', r'impl_\.wait\(0\)', 'CEI_wait(&self->impl_, 0)', 'opt'), ('R17', r'(?<![\w.>])wait\(\);', 'Latch_wait(self);', 'opt')])
    ctx.emit('Latch_try_wait.body.inc', r.function(L, r'bool\s+try_wait\s*\(\s*\)\s*const', within=lat), must_fire=['R7'],
             subs=[('R7', r'impl_\.intrusiveStatus\(\)\.load\(std::memory_order_(\w+)\)', r'A_LOAD_int(&self->impl_.status_, MO_\1)', 1)])
    ctx.emit('CEI_waitUntilChanged.body.inc', r.function(C, r'void\s+waitUntilChanged\s*\(\s*int\s+currentValue\s*\)\s*const', within=LINUX), must_fire=['R19'],
             subs=[('R19', r'futex\(&ftx_, FUTEX_WAIT_PRIVATE, currentValue, nullptr, nullptr, 0\)', 'G_futex_wait_value(&self->status_, currentValue)', 1)])
    # Latch::wait(): either the plain impl_.wait(0), or any polling loop built from try_wait() / cpuRelax() / waitUntilChanged(v): an
    # unbounded `for (;;)` gets a partial-correctness loop contract, bounded inner loops are unwound by the driver
    wp = r.function(L, r'void\s+wait\s*\(\s*\)\s*const', within=lat)
    cw = ctx.emit('Latch_wait.body.inc', wp, must_fire=['R17'],
                  subs=[('R17', r'impl_\.wait\(0\)', 'CEI_wait((CompletionEventImpl*)&self->impl_, 0)', 'opt'),
                        ('R17', r'impl_\.waitUntilChanged\(', 'CEI_waitUntilChanged((CompletionEventImpl*)&self->impl_, ', 'opt'),
                        ('R7', r'impl_\.intrusiveStatus\(\)\.load\(std::memory_order_(\w+)\)', r'A_LOAD_int(&((Latch*)self)->impl_.status_, MO_\1)', 'opt'),
                        ('R17', r'(?<![\w.>])try_wait\(\)', 'Latch_try_wait(self)', 'opt'),
                        ('R16', r'detail::cpuRelax\(\);', '/* pause */', 'opt'),
                        ('LC', r'(for\s*\(int\s+(\w+)\s*=\s*0;\s*\2\s*<\s*[^;{}]+;\s*\+\+\2\))\s*\{', r'\1 __CPROVER_assigns(\2, ((Latch*)self)->impl_.status_, g_last_loaded, g_loaded, g_waits, g_last_mo, g_errno) __CPROVER_loop_invariant(g_completed == 0 && \2 >= 0) {', 'opt'),
                        ('LC', r'for\s*\(\s*;\s*;\s*\)\s*\{', 'for (;;) __CPROVER_assigns(((Latch*)self)->impl_.status_, g_last_loaded, g_loaded, g_waits, g_last_mo, g_errno) __CPROVER_loop_invariant(g_completed == 0) {', 'opt')]
                       + X.const_subs(r, L, wp))
    wait_loops = '__CPROVER_loop_invariant' in cw
    S = 'specs/c21_events.c'
    rp = lambda kind: dict(prog='replay/c21_replay.cpp', args=lambda ce, u, kind=kind: [kind, 'count0=' + str(ce['count0']), 'n=' + str(ce['n']).rstrip('u')])
    fl = ['--nondet-static']
    units = [
        Unit('CompletionEventImpl.notify', 'cbmc', S, 'CEI_notify', flags=fl, expect=[r'postcondition\.3', r'G_futex_wake\.assertion']),
        Unit('CompletionEventImpl.wait', 'cbmc', S, 'CEI_wait', flags=fl, loop_contracts=True,
             expect=[r'postcondition\.2', r'G_futex_wait\.assertion\.2', r'loop_invariant_step|loop_step']),
        Unit('Latch.count_down', 'cbmc', S, 'Latch_count_down', flags=fl, replace=['CEI_notify'], expect=[r'postcondition\.2'], replay=rp('count_down')),
        Unit('CompletionEventImpl.waitUntilChanged', 'cbmc', S, 'CEI_waitUntilChanged', flags=fl, expect=[r'postcondition', r'G_futex_wait_value\.assertion']),
        Unit('Latch.arrive_and_wait', 'cbmc', S, 'Latch_arrive_and_wait', flags=fl, replace=['CEI_notify', 'CEI_wait', 'Latch_wait'], expect=[r'postcondition\.2']),
        Unit('Latch.try_wait', 'cbmc', S, 'Latch_try_wait', flags=fl, expect=[r'postcondition\.1']),
        Unit('Latch.wait', 'cbmc', S, 'Latch_wait', flags=fl, replace=['CEI_wait', 'CEI_waitUntilChanged', 'Latch_try_wait'], expect=[r'postcondition\.1'], loop_contracts=wait_loops, unwind=(8 if wait_loops else None), object_bits=(12 if wait_loops else None)),
    ]
    return units
