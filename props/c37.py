"""C37 -- ConcurrentObjectArena growth and copies are exact (index arithmetic, construction ranges, copy loop domain)."""
from driver import Unit
import extract as X

LEVEL = 'proof'
TRUSTED_BASE = ['CBMC 6.11 + cadical', 'tools/extract.py rewrite rules', 'ghost heap rendering: buffers are block ids, pointer tables are id arrays of which only [0,buffersPos_) are initialised']
ASSUMPTIONS = ['Index = size_t; buffer sizes <= 2^62 elements', 'A-SC for the atomic loads/stores',
               'NOT decided: concurrent grow_by (disjoint reservations under interleaving), deleteLater_ (std::vector) bookkeeping, swap/move/assignment (std::swap of members)']
EXPLANATION = 'constructor size arithmetic, index split bijection, constructObjects range, copy-constructor read domain, getBufferSize'

F = 'dispenso/concurrent_object_arena.h'
CLS = r'struct\s+ConcurrentObjectArena\s*(?=\{)'


def build(ctx):
    r = ctx.repo
    ctx.emit('log2i.body.inc', r.function(F, r'constexpr\s+T\s+log2i\s*\(\s*const\s+T\s+v\s*\)'), typemap={'T': 'Index'},
             subs=[('R1', r'\bT\s+log2\s*=\s*0,\s*val\s*=\s*v;', 'Index log2 = 0, val = v;', 1)])
    p = r.function(F, r'explicit\s+ConcurrentObjectArena\s*\(\s*const\s+Index\s+minBuffSize\s*,\s*const\s+Index\s+initialSize\s*=\s*0\s*\)\s*(?=:)', within=CLS, ctor=True)
    sl = X.slice_between(p, r'kLog2BuffSize\s*=', r'pos_\s*=\s*0;')
    ctx.emit('Arena_ctor_sizes.body.inc', sl, must_fire=['R11', 'R2'],
             subs=[('R16', r'::detail::log2i', 'log2i'), ('R2', r'Index\{1\}', '((Index)1)'),
                   ('R11', r'(?<![\w.>])(kLog2BuffSize|kBufferSize|kMask)\b', r'self->\1')])
    # the slice is a statement list: wrap in braces
    import os
    pth = os.path.join(ctx.gen, 'Arena_ctor_sizes.body.inc')
    _t = open(pth).read()
    open(pth, 'w').write('{\n' + _t + '\n}\n')
    p = r.function(F, r'inline\s+const\s+T&\s+operator\[\]\s*\(\s*const\s+Index\s+index\s*\)\s*const', within=CLS)
    sl = X.slice_between(p, r'const\s+Index\s+bufIndex\s*=', r'return\s+buffers_\.load')
    ctx.emit('Arena_index_split.slice.inc', sl, must_fire=['R11'], subs=[('R11', r'(?<![\w.>])(kLog2BuffSize|kMask)\b', r'self->\1')])
    p = r.function(F, r'void\s+constructObjects\s*\(\s*const\s+Index\s+beginIndex\s*,\s*const\s+Index\s+endIndex\s*\)', within=CLS)
    ctx.emit('Arena_constructObjects.body.inc', p, must_fire=['R7', 'R11', 'R12', 'LC'],
             subs=[('R7', r'T\*\s+buf\s*=\s*buffers_\.load\(std::memory_order_acquire\)\[b\];', 'Index buf = G_table_entry(self->buffers_table, b);', 1),
                   ('R12', r'new\s*\(buf \+ i\)\s*T\(\);', 'G_construct(self, buf, i);', 1),
                   ('R11', r'(?<![\w.>])(kLog2BuffSize|kBufferSize|kMask)\b', r'self->\1'),
                   ('LC', r'(for\s*\(Index b = startBuffer; b <= endBuffer; \+\+b\))\s*\{',
                    r'\1 __CPROVER_assigns(b, bufStart, g_constructed_next, g_constructed_count, g_construct_bad) '
                    r'__CPROVER_loop_invariant(startBuffer <= b && b <= endBuffer + 1 && !g_construct_bad && bufStart < self->kBufferSize && (b > startBuffer ==> bufStart == 0)) '
                    r'__CPROVER_loop_invariant(b <= endBuffer ==> g_constructed_next == (b << self->kLog2BuffSize) + bufStart) '
                    r'__CPROVER_loop_invariant(b == endBuffer + 1 ==> g_constructed_next == endIndex) '
                    r'__CPROVER_loop_invariant(g_constructed_count == g_constructed_next - beginIndex && beginIndex <= g_constructed_next && g_constructed_next <= endIndex) '
                    r'__CPROVER_decreases(endBuffer + 1 - b) {', 1),
                   ('LC', r'(for\s*\(Index i = bufStart; i < bufEnd; \+\+i\))',
                    r'\1 __CPROVER_assigns(i, g_constructed_next, g_constructed_count, g_construct_bad) '
                    r'__CPROVER_loop_invariant(bufStart <= i && (bufStart <= bufEnd ==> i <= bufEnd) && !g_construct_bad && g_constructed_next == (b << self->kLog2BuffSize) + i && g_constructed_count == g_constructed_next - beginIndex) '
                    r'__CPROVER_decreases(bufEnd - i)', 1)])
    p = r.function(F, r'ConcurrentObjectArena\s*\(\s*const\s+ConcurrentObjectArena<T,\s*Index,\s*alignment>&\s*other\s*\)\s*(?=:)', within=CLS, ctor=True)
    ctx.emit('Arena_copy_ctor.body.inc', p, must_fire=['R7', 'R12', 'R19', 'LC'],
             subs=[('R5', ('call', r'static_assert\s*(?=\()'), '/* compile-time check that T is trivially copyable: dropped */', 1),
                   ('R15', r'#if\s+defined\(__cpp_exceptions\)\s*if\s*\(ptr == nullptr\)\s*throw\s+std::bad_alloc\(\);\s*#endif', '/* malloc does not fail (axiom) */', 1),
                   ('R7', r'other\.pos_\.load\(std::memory_order_(\w+)\)', r'other->pos_'),
                   ('R7', r'other\.allocatedSize_\.load\(std::memory_order_(\w+)\)', r'other->allocatedSize_'),
                   ('R7', r'T\*\*\s+otherBuffers\s*=\s*other\.buffers_\.load\(std::memory_order_acquire\);', 'Index otherBuffers = other->buffers_table;', 1),
                   ('R12', r'T\*\*\s+newBuffers\s*=\s*new\s+T\*\[(\w+)\];', r'g_new_table_len = self->\1; Index newBuffers = 1;   /* the table has as many entries as the code asks operator new[] for */', 1),
                   ('R19', r'void\*\s+ptr\s*=\s*detail::alignedMalloc\(kBufferSize \* sizeof\(T\), alignment\);', 'Index ptr = G_alignedMalloc_block();', 1),
                   ('R19', r'std::memcpy\(ptr, otherBuffers\[i\], kBufferSize \* sizeof\(T\)\);', 'G_memcpy_block(ptr, G_read_table(other, otherBuffers, i));', 1),
                   ('R19', r'newBuffers\[i\]\s*=\s*static_cast<T\*>\(ptr\);', '__CPROVER_assert(i < g_new_table_len, "write inside the freshly allocated pointer table"); g_new_table_written++;', 1),
                   ('R7', r'buffers_\.store\(newBuffers, std::memory_order_release\);', 'self->buffers_table = newBuffers; A_NOTE(MO_release);', 1),
                   ('R8', r'\bother\.(?=\w)', 'other->'),
                   ('R11', r'(?<![\w.>])(kLog2BuffSize|kBufferSize|kMask|pos_|allocatedSize_|buffersSize_|buffersPos_)(?=\s*=\s)', r'self->\1'),
                   ('R11', r'(?<![\w.>])(buffersSize_|buffersPos_)\b', r'self->\1'),
                   ('LC', r'(for\s*\(Index i = 0; i < self->buffersSize_; \+\+i\))\s*\{|(for\s*\(Index i = 0; i < self->buffersPos_; \+\+i\))\s*\{',
                    r'\1\2 __CPROVER_assigns(i, g_next_block_id, g_new_table_written) __CPROVER_loop_invariant(i <= NB && g_new_table_written == i && g_new_table_len == __CPROVER_loop_entry(g_new_table_len)) __CPROVER_decreases(NB - i) {', 1)])
    p = r.function(F, r'Index\s+getBufferSize\s*\(\s*const\s+Index\s+index\s*\)\s*const', within=CLS)
    ctx.emit('Arena_getBufferSize.body.inc', p, must_fire=['R7', 'R6'],
             subs=[('R17', r'numBuffers\(\)', 'self->buffersPos_', 1),
                   ('R7', r'pos_\.load\(std::memory_order_relaxed\)', 'self->pos_', 1),
                   ('R11', r'(?<![\w.>])kBufferSize\b', 'self->kBufferSize')])
    p = r.function(F, r'friend\s+void\s+swap\s*\([^)]*\)\s*noexcept', within=CLS)
    X.inline_helpers(r, F, p, within=CLS, exclude={'swap', 'T', 'Index'})     # a private helper that exchanges one member is inlined (R19)
    ctx.emit('Arena_swap.body.inc', p, must_fire=['R7', 'R17'],
             subs=[('R1', r'using\s+std::swap;', '', 1),
                   ('R9', r'const\s+\w+\s+tmp\s*=', 'const Index tmp =', 'opt'),
                   ('R7', r'(lhs|rhs)\.(pos_|allocatedSize_)\.load\(std::memory_order_(\w+)\)', r'A_LOADI(\1->\2, MO_\3)'),
                   ('R7', r'(lhs|rhs)\.buffers_\.load\(std::memory_order_(\w+)\)', r'A_LOADI(\1->buffers_table, MO_\2)'),
                   ('R7', r'(lhs|rhs)\.(pos_|allocatedSize_)\.store\(', r'A_STOREI(\1->\2, '),
                   ('R7', r'(lhs|rhs)\.buffers_\.store\(', r'A_STOREI(\1->buffers_table, '),
                   ('R7', r'std::memory_order_(\w+)', r'MO_\1'),
                   ('R9', r'T\*\*\s+const\s+rhs_buffers', 'const Index rhs_buffers', 'opt'),
                   ('R17', r'(?<![\w.>])swap\((lhs)\.(\w+),\s*(rhs)\.(\w+)\);', r'SWAP_Index(&lhs->\2, &rhs->\4);'),
                   ('R8', r'\b(lhs|rhs)\.(?=\w)', r'\1->', 'opt')])
    # the data members of the class must be exactly the ones the rendering knows (a new member would need a new SAME() clause)
    import re
    cls = r.function(F, CLS)
    members = re.findall(r'^\s*(?:std::mutex|Index|std::atomic<[^;]*>|std::vector<[^;]*>)\s+(\w+_|k\w+);', cls.text, re.M)
    if sorted(members) != sorted(['resizeMutex_', 'kLog2BuffSize', 'kBufferSize', 'kMask', 'pos_', 'allocatedSize_', 'buffers_', 'buffersSize_', 'buffersPos_', 'deleteLater_']):
        raise X.ExtractionError('ConcurrentObjectArena data members changed: %r' % members)
    S = 'specs/c37_arena.c'
    units = [
        Unit('log2i', 'cbmc', S, 'log2i', unwind=66, expect=[r'postcondition'], assumptions=['log2i loop bounded by the constant 64 (bit width): unwound completely']),
        Unit('ctor.sizes', 'cbmc', S, 'Arena_ctor_sizes', replace=['log2i'], expect=[r'postcondition\.2']),
        Unit('operator[].split', 'cbmc', S, 'Arena_index_split', expect=[r'postcondition\.2']),
        Unit('constructObjects', 'cbmc', S, 'Arena_constructObjects', loop_contracts=True, expect=[r'postcondition', r'loop_invariant|loop_step'], timeout=600),
        Unit('copy_ctor', 'cbmc', S, 'Arena_copy_ctor', loop_contracts=True, expect=[r'postcondition\.3', r'G_read_table\.assertion'], timeout=300,
             replay=dict(prog='replay/c37_replay.cpp', args=lambda ce, u: ['copy'], cxxflags=['-fsanitize=address'], no_rlimit=True)),
        Unit('getBufferSize', 'cbmc', S, 'Arena_getBufferSize', expect=[r'postcondition\.2', r'assertion']),
        Unit('swap', 'cbmc', S, 'Arena_swap', expect=[r'postcondition\.1']),
    ]
    return units
