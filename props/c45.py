"""C45 -- threadId is stable per thread and unique across threads."""
from driver import Unit
import extract as X
import subprocess, os

LEVEL = 'proof'
TRUSTED_BASE = ['CBMC 6.11 + cadical', 'tools/extract.py rewrite rules',
                'atomic RMW axiom: concurrent fetch_add calls each return a distinct value of the counter (uniqueness across threads = this axiom + the proved "+1, never reused" discipline)',
                'thread_local storage: each thread has its own currentThread, initialised to kInvalidThread']
ASSUMPTIONS = ['fewer than 2^64-1 ids issued (the counter has not wrapped onto the invalid marker)']
EXPLANATION = 'single function contract over all values of the counter and the thread-local cache'


def build(ctx):
    r = ctx.repo
    p = r.function('dispenso/thread_id.cpp', r'uint64_t\s+threadId\s*\(\s*\)')
    ctx.emit('threadId.body.inc', p, must_fire=['R7', 'R2'],
             subs=[('R7', r'nextThread(?:\.\w+)?\.fetch_add\((.*?), std::memory_order_(\w+)\)', r'A_FETCH_ADD_u64(&nextThread, \1, MO_\2)', 1)])
    # kInvalidThread from the real source text
    full = r.text('dispenso/thread_id.cpp')
    import re
    # R4: the value of kInvalidThread is computed by compiling a probe against the real translation unit
    src = os.path.join(ctx.scratch, 'tid_probe.cpp')
    open(src, 'w').write('#include "%s"\n#include <cstdio>\nint main(){ std::printf("%%llu", (unsigned long long)dispenso::kInvalidThread); }\n' % os.path.join(r.root, 'dispenso/thread_id.cpp'))
    exe = src[:-4] + '.out'
    pr = subprocess.run(['g++', '-std=c++14', '-I', r.root, '-I', os.path.join(r.root, 'dispenso/third-party'), src, '-o', exe, '-lpthread'], capture_output=True, text=True)
    if pr.returncode != 0:
        raise X.ExtractionError('kInvalidThread probe failed: ' + pr.stderr[-300:])
    kinvalid = subprocess.run([exe], capture_output=True, text=True).stdout.strip()
    if not re.fullmatch(r'\d+', kinvalid):
        raise X.ExtractionError('kInvalidThread probe printed %r' % kinvalid)
    m2 = re.search(r'DISPENSO_THREAD_LOCAL\s+uint64_t\s+currentThread\s*=\s*kInvalidThread\s*;', full)
    m3 = True   # the counter's initialisation (constant vs dynamic) is checked on the real translation unit by the native unit below
    if not m2 or not m3:
        raise X.ExtractionError('currentThread / nextThread declarations changed (thread_local, initial values)')
    return [Unit('threadId', 'cbmc', 'specs/c45_threadid.c', 'threadId', defines={'KINVALID': kinvalid + 'ul'}, expect=[r'postcondition\.3'],
                 replay=dict(prog='replay/c45_replay.cpp', args=lambda ce, u: [])),
            Unit('thread_id.cpp static initialisation + 513-thread run', 'native', 'specs/c45_threadid.c', 'threadId', native=dict(src='replay/c45_native.cpp', args=[]), timeout=300,
                 bounded='native run of the real translation unit: an id taken during static initialisation must not be reissued (the counter is constant-initialised); 513 threads; supporting fact, not counted as proved')]
