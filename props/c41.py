"""C41 -- SmallBufferAllocator hands out exclusive aligned blocks (size classes, thread-local stack discipline, backing-store lock)."""
from driver import Unit, REPO
import extract as X
import re, subprocess, os

LEVEL = 'proof'
TRUSTED_BASE = ['CBMC 6.11 + cadical', 'tools/extract.py rewrite rules', 'log2const contract (proved under C44)',
                'moodycamel::ConcurrentQueue is third-party: the central store is an axiom (a multiset of free blocks; try_dequeue_bulk / enqueue_bulk move blocks between it and the thread-local stack)',
                'rely of the lock unit (what other threads do to backingStoreLock) is written in specs/c41_sba.c others_act_lock()']
ASSUMPTIONS = ['requests are powers of two <= 256 (callers use nextPow2; allocSmallBuffer<N> aligned to N only makes sense then)', 'A-SC',
               'block ids are a ghost universe of 64 ids; thread-local stack verified at the kIdeal/kMax constants of SmallBufferAllocator<64> (probe), count symbolic',
               'NOT decided: thread-exit return of blocks, cross-thread exclusivity through the queue (axiom)']
EXPLANATION = 'size-class arithmetic for all requests; stack discipline with ghost block states; lock exclusivity under interference'

H = 'dispenso/small_buffer_allocator.h'
C = 'dispenso/small_buffer_allocator.cpp'
I = 'dispenso/detail/small_buffer_allocator_impl.h'
CLS = r'class\s+SmallBufferAllocator\s*(?=\{)'


def table(r, fn_sig, call):
    body = r.function(C, fn_sig).text
    cases = re.findall(r'case\s+(\d+)\s*:\s*(?:return\s+)?detail::SmallBufferAllocator<(\d+)>::' + call, body)
    if len(cases) != 7:
        raise X.ExtractionError('ordinal switch of %s: expected 7 cases, found %d' % (call, len(cases)))
    return ' '.join('case %s: return %s;' % c for c in cases)


def build(ctx):
    r = ctx.repo
    ctx.emit('getOrdinal.body.inc', r.function(H, r'constexpr\s+size_t\s+getOrdinal\s*\(\s*size_t\s+blockSize\s*\)'), must_fire=['R3', 'R2'])
    big = r.function(H, r'inline\s+std::enable_if_t<\(kBlockSize\s*>\s*kMaxSmallBufferSize\),\s*char\*>\s+allocSmallOrLarge\s*\(\s*\)')
    ctx.emit('allocSmallOrLarge_large.body.inc', big, must_fire=['R19'],
             subs=[('R19', r'reinterpret_cast<char\*>\(alignedMalloc\(([^,()]+),\s*([^,()]+)\)\)', r'G_alignedMalloc2(\1, \2)', 'opt'),
                   ('R19', r'reinterpret_cast<char\*>\(alignedMalloc\(([^,()]+)\)\)', r'G_alignedMalloc1(\1)', 'opt')])
    import re as _re
    mk = _re.search(r'constexpr\s+size_t\s+kMaxSmallBufferSize\s*=\s*(\d+)\s*;', r.text('dispenso/platform.h') + r.text(H))
    ta = table(r, r'char\*\s+allocSmallBufferImpl\s*\(\s*size_t\s+ordinal\s*\)', r'alloc\(\)')
    td = table(r, r'void\s+deallocSmallBufferImpl\s*\(\s*size_t\s+ordinal\s*,\s*void\*\s*buf\s*\)', r'dealloc\(')
    tb = table(r, r'size_t\s+approxBytesAllocatedSmallBufferImpl\s*\(\s*size_t\s+ordinal\s*\)', r'bytesAllocated\(\)')
    tl = [('R9', r'auto\s+bnc\s*=\s*buffersAndCount\(\);\s*char\*\*\s+tlBuffers\s*=\s*std::get<0>\(bnc\);\s*size_t&\s+tlCount\s*=\s*std::get<1>\(bnc\);', '/* tlBuffers, tlCount: the thread-local stack */', 1)]
    ctx.emit('SBA_alloc.body.inc', r.function(I, r'static\s+char\*\s+alloc\s*\(\s*\)', within=CLS), must_fire=['R9', 'R12'],
             subs=tl + [('R12', r'return\s+tlBuffers\[--tlCount\];', 'return G_pop_block(tlBuffers[--tlCount]);', 1)])
    ctx.emit('SBA_dealloc.body.inc', r.function(I, r'static\s+void\s+dealloc\s*\(\s*char\*\s*buffer\s*\)', within=CLS), must_fire=['R9', 'R12'],
             subs=tl + [('R12', r'tlBuffers\[tlCount\+\+\]\s*=\s*buffer;', 'tlBuffers[tlCount++] = buffer; g_state[buffer] = ST_TL;', 1)])
    ctx.emit('SBA_bytesAllocated.body.inc', r.function(I, r'static\s+size_t\s+bytesAllocated\s*\(\s*\)', within=CLS), must_fire=['R7', 'R8'],
             subs=[('R8', r'auto&\s+globals\s*=\s*getSmallBufferGlobals<kChunkSize>\(\);\s*auto&\s+lock\s*=\s*globals\.backingStoreLock;', '/* lock = globals.backingStoreLock */', 1),
                   ('R7', r'lock\.compare_exchange_weak\(allocId,\s*1,\s*std::memory_order_(\w+)\)', r'A_CAS_weak_lock(&g_lock, &allocId, 1, MO_\1)', 1),
                   ('R7', r'lock\.store\(0,\s*std::memory_order_(\w+)\);', r'A_STORE_lock(&g_lock, 0, MO_\1);', 1),
                   ('R17', r'kMallocBytes\s*\*\s*globals\.backingStore\.size\(\)', '((size_t)KMALLOC) * G_backingStore_size()', 1),
                   ('LC', r'(while\s*\(!A_CAS_weak_lock\(&g_lock, &allocId, 1, MO_\w+\)\))\s*\{',
                    r'\1 __CPROVER_assigns(allocId, g_lock, g_own_lock, g_touched_unlocked, g_bad_transfer, g_other_holds, g_last_mo) __CPROVER_loop_invariant(allocId == 0 && !g_own_lock && !g_bad_transfer && !g_touched_unlocked && (g_other_holds ==> g_lock >= 1) && (!g_other_holds ==> g_lock == 0)) {', 1)])
    ASG = '__CPROVER_assigns(allocId, grabbed, buffer, i, g_slot_valid, __CPROVER_object_whole(buffers), g_lock, g_own_lock, g_touched_unlocked, g_bad_transfer, g_other_holds, g_last_mo, g_slab_base, g_slab_fresh, g_pushed_central, g_bad_block) '
    LI = '!g_own_lock && !g_touched_unlocked && !g_bad_transfer && !g_bad_block && (g_other_holds ==> g_lock >= 1) && (!g_other_holds ==> g_lock == 0) && !g_slot_valid[g_k]'
    ctx.emit('SBA_grabFromCentralStore.body.inc', r.function(I, r'static\s+size_t\s+grabFromCentralStore\s*\(\s*char\*\*\s*buffers\s*\)', within=CLS), must_fire=['R7', 'R8', 'R19', 'LC'],
             subs=[('R8', r'auto&\s+queue\s*=\s*getThreadQueuingData\(\);\s*auto&\s+globals\s*=\s*getSmallBufferGlobals<kChunkSize>\(\);\s*auto&\s+lock\s*=\s*globals\.backingStoreLock;\s*auto&\s+backingStore\s*=\s*globals\.backingStore;', '/* queue, globals, lock, backingStore: ghost stubs */', 1),
                   ('R17', r'queue\.try_dequeue_bulk\(buffers,\s*kIdealNumTLBuffers\)', 'G_try_dequeue_bulk(buffers, kIdealNumTLBuffers)', 1),
                   ('R7', r'lock\.fetch_add\(1,\s*std::memory_order_(\w+)\)', r'A_FETCH_ADD_lock(&g_lock, 1, MO_\1)', 1),
                   ('R19', r'char\*\s+buffer\s*=\s*reinterpret_cast<char\*>\(detail::alignedMalloc\(kMallocBytes,\s*kChunkSize\)\);', 'size_t buffer = G_alignedMalloc_slab(kMallocBytes, kChunkSize);', 1),
                   ('R12', r'backingStore\.push_back\(buffer\);', 'G_backingStore_push(buffer);', 1),
                   ('R5', r'constexpr\s+size_t\s+kNumToPush\s*=\s*kBuffersPerMalloc\s*-\s*kIdealNumTLBuffers;', '/* kNumToPush: macro of the spec, same expression */', 1),
                   ('R12', r'char\*\s+topush\[kNumToPush\];', '', 1),
                   ('R12', r'topush\[i\]\s*=\s*buffer;', 'G_topush_put(i, buffer);', 1),
                   ('R17', r'queue\.enqueue_bulk\(topush,\s*kNumToPush\);', 'G_enqueue_bulk(kNumToPush);', 1),
                   ('R7', r'lock\.store\(0,\s*std::memory_order_(\w+)\);', r'A_STORE_lock(&g_lock, 0, MO_\1);', 1),
                   ('R12', r'buffers\[i\]\s*=\s*buffer;', 'G_buffers_put(buffers, i, buffer);', 1),
                   ('R7', r'lock\.load\(std::memory_order_(\w+)\)', r'A_LOAD_lock(&g_lock, MO_\1)', 1),
                   ('R16', r'std::this_thread::yield\(\);', 'G_this_thread_yield();', 1),
                   ('LC', r'while\s*\(true\)\s*\{', 'while (true) __CPROVER_assigns(g_slot_valid, __CPROVER_object_whole(buffers), g_lock, g_own_lock, g_touched_unlocked, g_bad_transfer, g_other_holds, g_last_mo, g_slab_base, g_slab_fresh, g_pushed_central, g_bad_block) __CPROVER_loop_invariant(' + LI + ') {', 1),
                   ('LC', r'(for\s*\(size_t i = 0; i < kNumToPush; \+\+i, buffer \+= kChunkSize\))\s*\{',
                    r'\1 __CPROVER_assigns(i, buffer, g_bad_block) __CPROVER_loop_invariant(i <= kNumToPush && buffer == g_slab_base + i * kChunkSize && !g_bad_block) __CPROVER_decreases(kNumToPush - i) {', 1),
                   ('LC', r'(for\s*\(size_t i = 0; i < kIdealNumTLBuffers; \+\+i, buffer \+= kChunkSize\))\s*\{',
                    r'\1 __CPROVER_assigns(i, buffer, g_bad_block, g_slot_valid, __CPROVER_object_whole(buffers)) __CPROVER_loop_invariant(i <= kIdealNumTLBuffers && buffer == g_slab_base + (kNumToPush + i) * kChunkSize && !g_bad_block && (g_k < i ==> g_slot_valid[g_k])) __CPROVER_decreases(kIdealNumTLBuffers - i) {', 1),
                   ('LC', r'while\s*\(A_LOAD_lock\(&g_lock, MO_relaxed\)\)\s*\{', 'while (A_LOAD_lock(&g_lock, MO_relaxed)) __CPROVER_assigns(g_lock, g_other_holds, g_last_mo) __CPROVER_loop_invariant(' + LI + ') {', 1)])
    # constants of SmallBufferAllocator<64> from the real header
    src = os.path.join(ctx.scratch, 'sba_probe.cpp')
    open(src, 'w').write('#define private public\n#include <dispenso/detail/small_buffer_allocator_impl.h>\n#include <cstdio>\nint main(){using A=dispenso::detail::SmallBufferAllocator<64>;printf("%zu %zu %zu %zu", A::kIdealNumTLBuffers, A::kMaxNumTLBuffers, A::kMallocBytes, A::kBuffersPerMalloc);}\n')
    exe = src[:-4] + '.out'
    p = subprocess.run(['g++', '-std=c++14', '-I', REPO, '-I', os.path.join(REPO, 'dispenso/third-party'), src, '-o', exe], capture_output=True, text=True)
    if p.returncode != 0:
        raise X.ExtractionError('SBA probe failed: ' + p.stderr[-400:])
    kideal, kmax, kmalloc, kper = subprocess.run([exe], capture_output=True, text=True).stdout.split()
    d = {'ORD_TABLE_ALLOC': ta, 'ORD_TABLE_DEALLOC': td, 'ORD_TABLE_BYTES': tb, 'KIDEAL': kideal, 'KMAXTL': kmax, 'KMALLOC': kmalloc, 'KPERMALLOC': kper, 'KCHUNK': '64', 'KCACHELINE': '64'}
    S = 'specs/c41_sba.c'
    units = [
        Unit('getOrdinal', 'cbmc', S, 'getOrdinal', defines=d, replace=['log2const64'], expect=[r'postcondition']),
        Unit('allocSmallOrLarge(N>256)', 'cbmc', S, 'allocSmallOrLarge_large', defines=d, replace=['G_alignedMalloc2', 'G_alignedMalloc1'], expect=[r'postcondition']),
        Unit('size_class(N)', 'cbmc', S, 'c41_size_class', defines=d, replace=['log2const64'], expect=[r'postcondition\.2']),
        Unit('SmallBufferAllocator::alloc', 'cbmc', S, 'SBA_alloc', defines=d, replace=['grabFromCentralStore'], expect=[r'postcondition\.2'], timeout=300, flags=['--nondet-static']),
        Unit('SmallBufferAllocator::dealloc', 'cbmc', S, 'SBA_dealloc', defines=d, replace=['recycleToCentralStore'], expect=[r'postcondition\.1'], timeout=300, flags=['--nondet-static']),
        Unit('SmallBufferAllocator::grabFromCentralStore', 'cbmc', S, 'SBA_grabFromCentralStore', defines=d, replace=['G_try_dequeue_bulk'], loop_contracts=True, expect=[r'postcondition\.2', r'loop_invariant|loop_step'], timeout=600),
        Unit('SmallBufferAllocator::bytesAllocated', 'cbmc', S, 'SBA_bytesAllocated', defines=d, loop_contracts=True, expect=[r'postcondition\.1', r'loop_invariant|loop_step'], timeout=300,
             replay=dict(prog='replay/c41_replay.cpp', args=lambda ce, u: [], cxxflags=['-std=c++14'])),
    ]
    return units
