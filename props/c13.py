"""C13 -- parallel_for honours the granularity contract."""
from driver import Unit
import extract as X
import importlib.util, os
def _load(n):
    sp = importlib.util.spec_from_file_location(n + 'mod', os.path.join(os.path.dirname(__file__), n + '.py'))
    m = importlib.util.module_from_spec(sp)
    sp.loader.exec_module(m)
    return m
c17 = _load('c17')
c12 = _load('c12')

LEVEL = 'proof'
TRUSTED_BASE = c12.TRUSTED_BASE
ASSUMPTIONS = c12.ASSUMPTIONS + ['granularity in [1, 64] for the stripe units (the property quantifies g in 2..64)',
                                 'which invocation runs the tail and when is C48/C14; here: the tail is [trimmedEnd, end), smaller than g and ending at end']
EXPLANATION = 'every range produced by the static mapper, the dynamic chunk rule and the stripe claims is a multiple of g given the trimmed range; the single tail is < g and ends at the range end'


def build(ctx):
    insts = c17.INSTS if ctx.tier == 'thorough' else c17.QUICK_INSTS
    c12.sizing_pieces(ctx)
    units = c12.sizing_units(ctx, insts, prop='C13')
    c12.stripe_pieces(ctx)
    units += c12.stripe_units(ctx, insts, prop='C13')
    for t, uu, sg in insts:
        bits = int(t.replace('uint', '').replace('int', '').replace('_t', ''))
        d = {'IntegerT': t, 'Wide': 'int64_t' if sg else 'uint64_t', 'IS_SIGNED': str(sg), 'NW_MAX': '4096',
             'IT_MAX': str((1 << (bits - (1 if sg else 0))) - 1) + ('' if sg else 'u'), 'IT_MIN': ('(-%d - 1)' % ((1 << (bits - 1)) - 1)) if sg else '0',
             'WIDE_MAX': '9223372036854775807' if sg else '18446744073709551615u', 'C13_INV_K': '', 'C13_INV_C': '',
             'WIDE_MIN': '(-9223372036854775807 - 1)' if sg else '0'}
        units.append(Unit('c13_stripe_granular', 'intwp', 'specs/c12_stripe.c', 'c13_stripe_granular', defines=d, inst=t, timeout=400, signed_wrap=True,
                          nonprop_cls=['overflow', 'conversion'], expect=[r'assertion\.2', r'precondition']))
    c17.chunking_pieces(ctx)
    c17.mapper_pieces(ctx)
    units.append(Unit('staticChunkSizeGranular', 'intwp', 'specs/c17_chunking.c', 'staticChunkSizeGranular', timeout=60,
                      expect=[r'postcondition\.6'], replay=c17.replay_args('scsg')))
    for t, uu, sg in insts:
        d = c17.inst_defines(t, uu, sg)
        common = dict(defines=d, inst=t, timeout=400, signed_wrap=True, nonprop_cls=['overflow', 'conversion'])
        units.append(Unit('StaticChunkMapper.call', 'intwp', 'specs/c17_mapper.c', 'StaticChunkMapper_call', expect=[r'postcondition\.2'], replay=c17.replay_args('mapper'), **common))
        units.append(Unit('parallel_for_staticImpl.derive', 'intwp', 'specs/c17_mapper.c', 'psi_derive', expect=[r'postcondition\.4'], replay=c17.replay_args('derive'), **common))
        units.append(Unit('c13_static_granular', 'intwp', 'specs/c17_mapper.c', 'c13_static_granular', expect=[r'assertion\.1', r'precondition'], **common))
    return units
