"""C17 -- static chunking arithmetic partitions ranges exactly."""
from driver import Unit
import extract as X

LEVEL = 'proof'
TRUSTED_BASE = [
    'tools/intwp.py: C integer semantics (promotions, conversions, wrap) encoded over Int; cross-checked by CBMC on the 8-bit instantiations and by tools/intwp_selftest.py',
    'z3-new 5.1.0 / cvc5 1.0 (NIA)', 'CBMC 6.11 + cadical for the narrow instantiations',
    'tools/extract.py rewrite rules (DESIGN 2.2); guarded by per-run native translation validation',
]
ASSUMPTIONS = [
    'items + chunks - 1 is representable in ssize_t (precondition of staticChunkSize; callers pass thread counts)',
]
EXPLANATION = 'contracts on the extracted bodies of staticChunkSize/staticChunkSizeGranular/StaticChunkMapper and the derivation slices'


def chunking_pieces(ctx):
    r = ctx.repo
    p = r.function('dispenso/platform.h', r'struct\s+StaticChunking\s*(?=\{)')
    ctx.emit('StaticChunking.fields.inc', p)
    p = r.function('dispenso/platform.h', r'inline\s+StaticChunking\s+staticChunkSize\s*\(\s*ssize_t\s+items\s*,\s*ssize_t\s+chunks\s*\)')
    ctx.emit('staticChunkSize.body.inc', p, must_fire=['R6'])
    p = r.function('dispenso/platform.h', r'inline\s+StaticChunking\s+staticChunkSizeGranular\s*\(\s*ssize_t\s+items\s*,\s*ssize_t\s+chunks\s*,\s*uint32_t\s+granularity\s*\)')
    ctx.emit('staticChunkSizeGranular.body.inc', p, must_fire=['R2', 'R6'])


INSTS = [('int8_t', 'uint8_t', 1), ('uint8_t', 'uint8_t', 0), ('int16_t', 'uint16_t', 1), ('uint16_t', 'uint16_t', 0),
         ('int32_t', 'uint32_t', 1), ('uint32_t', 'uint32_t', 0), ('int64_t', 'uint64_t', 1), ('uint64_t', 'uint64_t', 0)]


# quick tier: a narrow signed, a mid signed and the wide unsigned index type; thorough: all eight
QUICK_INSTS = [INSTS[0], INSTS[4], INSTS[7]]


def inst_defines(t, u, signed):
    return {'IntegerT': t, 'U': u, 'size_type': 'int64_t' if signed else 'uint64_t', 'IS_SIGNED': str(signed)}


MAPPER_MEMBERS = r'(?<![\w.>])(numThreads|chunkSize|smallChunk|transIdx|rangeStart|rangeEnd)\b'


def mapper_pieces(ctx):
    r = ctx.repo
    pf, ps = 'dispenso/parallel_for.h', 'dispenso/detail/par_for_static.h'
    # ChunkedRange fields and size()
    cr = r.function(pf, r'struct\s+ChunkedRange\s*(?=\{)')
    f = X.slice_between(cr, r'IntegerT\s+start\s*;', r'IntegerT\s+chunk\s*;', include_end=True)
    ctx.emit('ChunkedRange.fields.inc', f)
    p = r.function(pf, r'size_type\s+size\s*\(\s*\)\s*const', within=r'struct\s+ChunkedRange\s*(?=\{)')
    ctx.emit('ChunkedRange_size.body.inc', p, must_fire=['R2', 'R11'],
             subs=[('R11', r'(?<![\w.>])(start|end)\b', r'self->\1')])
    # StaticChunkMapper fields and operator()
    sm = r.function(ps, r'struct\s+StaticChunkMapper\s*(?=\{)')
    f = X.slice_between(sm, r'size_type\s+numThreads\s*;', r'IntegerT\s+rangeEnd\s*;', include_end=True)
    ctx.emit('StaticChunkMapper.fields.inc', f)
    p = r.function(ps, r'std::pair<IntegerT,\s*IntegerT>\s+operator\(\)\s*\(\s*size_type\s+idx\s*\)\s*const')
    ctx.emit('StaticChunkMapper_call.body.inc', p, must_fire=['R2', 'R10', 'R11'],
             subs=[('R11', MAPPER_MEMBERS, r'self->\1'),
                   ('R10', r'return\s*\{\s*start\s*,\s*end\s*\}\s*;', 'return (PairII){start, end};', 1)])
    # derivation slice of parallel_for_staticImpl
    impl = r.function(ps, r'void\s+parallel_for_staticImpl\s*\([^)]*\)')
    sl = X.slice_between(impl, r'auto\s+chunking\s*=', r'StaticChunkMapper<IntegerT>\s+chunkRange\s*\{[^}]*\}\s*;', include_end=True)
    ctx.emit('psi_derive.slice.inc', sl, must_fire=['R2', 'R9', 'R10', 'R17', 'R16'],
             subs=[('R9', r'auto\s+chunking\s*=', 'StaticChunking chunking =', 1),
                   ('R17', r'range\.size\(\)', 'ChunkedRange_size(&range)'),
                   ('R10', r'StaticChunkMapper<IntegerT>\s+chunkRange\s*\{', 'StaticChunkMapper chunkRange = {', 1)])


def foreach_pieces(ctx):
    r = ctx.repo
    fe = 'dispenso/for_each.h'
    fn = r.function(fe, r'void\s+for_each_n\s*\(\s*TaskSetT&\s*tasks\s*,\s*Iter\s+start\s*,\s*size_t\s+n\s*,[^)]*\)')
    sl = X.slice_between(fn, r'auto\s+chunking\s*=', r'size_t\s+smallChunkSize\s*=[^;]*;', include_end=True)
    ctx.emit('fe_derive.slice.inc', sl, must_fire=['R9', 'R16'],
             subs=[('R9', r'auto\s+chunking\s*=', 'StaticChunking chunking =', 1)])
    sch = r.function(fe, r'void\s+for_each_n_schedule\s*\([^)]*std::random_access_iterator_tag\s*\)')
    sl = X.slice_between(sch, r'ssize_t\s+sidx\s*=', r'Iter\s+s\s*=\s*start\s*\+\s*offset\s*;')
    ctx.emit('fe_offset_sched.slice.inc', sl, must_fire=['R2'])
    sl = X.slice_between(sch, r'ssize_t\s+lastIdx\s*=', r'Iter\s+lastStart\s*=\s*start\s*\+\s*offset\s*;')
    ctx.emit('fe_offset_tail.slice.inc', sl, must_fire=['R2'])


def replay_args(kind):
    def f(ce, u):
        return [kind] + (['T=' + u.inst] if u.inst else []) + ['%s=%s' % (k, v) for k, v in sorted(ce.items()) if v is not None]
    return dict(prog='replay/c17_replay.cpp', args=f, with_lib=kind in ('derive', 'fe'))


def build(ctx):
    chunking_pieces(ctx)
    units = []
    units.append(Unit('staticChunkSize', 'intwp', 'specs/c17_chunking.c', 'staticChunkSize', timeout=60,
                      expect=[r'postcondition\.5', r'overflow', r'division-by-zero', r'assertion'], replay=replay_args('scs')))
    units.append(Unit('staticChunkSizeGranular', 'intwp', 'specs/c17_chunking.c', 'staticChunkSizeGranular', timeout=60,
                      expect=[r'postcondition\.6', r'overflow', r'division-by-zero', r'assertion', r'precondition'], replay=replay_args('scsg')))
    foreach_pieces(ctx)
    for fn, exp in (('fe_derive', [r'postcondition\.2', r'precondition']), ('fe_offset_sched', [r'postcondition\.3']),
                    ('fe_offset_tail', [r'postcondition\.3']), ('c17_foreach_partition', [r'assertion\.5', r'precondition\.3'])):
        units.append(Unit('for_each_n.' + fn, 'intwp', 'specs/c17_foreach.c', fn, timeout=300, expect=exp,
                          replay=replay_args('fe') if fn == 'fe_derive' else None))
    mapper_pieces(ctx)
    insts = INSTS if ctx.tier == 'thorough' else QUICK_INSTS
    for t, uu, sg in insts:
        d = inst_defines(t, uu, sg)
        common = dict(defines=d, inst=t, timeout=300, signed_wrap=True, nonprop_cls=['overflow', 'conversion'])
        units.append(Unit('ChunkedRange.size', 'intwp', 'specs/c17_mapper.c', 'ChunkedRange_size', expect=[r'postcondition\.1'], **common))
        units.append(Unit('StaticChunkMapper.call', 'intwp', 'specs/c17_mapper.c', 'StaticChunkMapper_call',
                          expect=[r'postcondition\.1', r'postcondition\.2'], replay=replay_args('mapper'), **common))
        units.append(Unit('c17_mapper_partition', 'intwp', 'specs/c17_mapper.c', 'c17_mapper_partition',
                          expect=[r'assertion\.5', r'precondition'], **common))
        units.append(Unit('parallel_for_staticImpl.derive', 'intwp', 'specs/c17_mapper.c', 'psi_derive',
                          expect=[r'postcondition\.5', r'precondition'], replay=replay_args('derive'), **common))
    return units
