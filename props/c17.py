"""C17 -- static chunking arithmetic partitions ranges exactly."""
from driver import Unit
import extract as X

LEVEL = 'proof'
TRUSTED_BASE = [
    'tools/intwp.py: C integer semantics (promotions, conversions, wrap) encoded over Int; cross-checked by CBMC on the 8-bit instantiations and by tools/intwp_selftest.py',
    'z3-new 5.1.0 / cvc5 1.0 (NIA)', 'CBMC 6.11 + cadical for the narrow instantiations',
    'tools/extract.py rewrite rules (DESIGN 2.2); guarded by per-run native translation validation',
]
ASSUMPTIONS = [
    'items + chunks - 1 is representable in ssize_t (precondition of staticChunkSize; callers pass thread counts)',
]
EXPLANATION = 'contracts on the extracted bodies of staticChunkSize/staticChunkSizeGranular/StaticChunkMapper and the derivation slices'


def chunking_pieces(ctx):
    r = ctx.repo
    p = r.function('dispenso/platform.h', r'struct\s+StaticChunking\s*(?=\{)')
    ctx.emit('StaticChunking.fields.inc', p)
    p = r.function('dispenso/platform.h', r'inline\s+StaticChunking\s+staticChunkSize\s*\(\s*ssize_t\s+items\s*,\s*ssize_t\s+chunks\s*\)')
    ctx.emit('staticChunkSize.body.inc', p, must_fire=['R6'])
    p = r.function('dispenso/platform.h', r'inline\s+StaticChunking\s+staticChunkSizeGranular\s*\(\s*ssize_t\s+items\s*,\s*ssize_t\s+chunks\s*,\s*uint32_t\s+granularity\s*\)')
    ctx.emit('staticChunkSizeGranular.body.inc', p, must_fire=['R2', 'R6'])


def replay_args(kind):
    def f(ce, u):
        return [kind] + ['%s=%s' % (k, v) for k, v in sorted(ce.items()) if v is not None]
    return dict(prog='replay/c17_replay.cpp', args=f)


def build(ctx):
    chunking_pieces(ctx)
    units = []
    units.append(Unit('staticChunkSize', 'intwp', 'specs/c17_chunking.c', 'staticChunkSize', timeout=60,
                      expect=[r'postcondition\.5', r'overflow', r'division-by-zero', r'assertion'], replay=replay_args('scs')))
    units.append(Unit('staticChunkSizeGranular', 'intwp', 'specs/c17_chunking.c', 'staticChunkSizeGranular', timeout=60,
                      expect=[r'postcondition\.6', r'overflow', r'division-by-zero', r'assertion', r'precondition'], replay=replay_args('scsg')))
    return units
