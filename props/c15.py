"""C15 -- for_each applies the function once per element."""
from driver import Unit
import extract as X
import importlib.util, os
_spec = importlib.util.spec_from_file_location('c17mod', os.path.join(os.path.dirname(__file__), 'c17.py'))
c17 = importlib.util.module_from_spec(_spec)
_spec.loader.exec_module(c17)

LEVEL = 'proof'
TRUSTED_BASE = c17.TRUSTED_BASE + ['CBMC 6.11 loop contracts for the serial loop']
ASSUMPTIONS = ['completion at wait() and exactly-once execution of each scheduled chunk are C02/C01 (assumed)',
               'iterators are rendered as positions; the per-chunk application loops `for (it = s; it != e; ++it) f(*it)` are the same shape as the serial loop unit',
               'n <= INT64_MAX - 2^31; pool size <= 2^31-1; boundary table verified for up to 4096 threads (array bound of the rendering)']
EXPLANATION = 'sizing (path + thread count), static chunk derivation and offsets (C17 units), serial loop, boundary table'

FE = 'dispenso/for_each.h'


def pieces(ctx):
    r = ctx.repo
    fn = r.function(FE, r'void\s+for_each_n\s*\(\s*TaskSetT&\s*tasks\s*,\s*Iter\s+start\s*,\s*size_t\s+n\s*,[^)]*\)')
    sl = X.slice_between(fn, r'if\s*\(!n \|\|', r'auto\s+chunking\s*=')
    ctx.emit('fe_sizing.slice.inc', sl, must_fire=['R3', 'R13', 'R17'],
             subs=[('R13', ('block', r'for\s*\(size_t i = 0; i < n; \+\+i\)\s*\{'), '/* serial loop: unit fe_serial_loop */', 1),
                   ('R13', r'if\s*\(options\.wait\)\s*\{\s*tasks\.wait\(\);\s*\}\s*return;', 'return (FeSizing){1, 0};', 1),
                   ('R17', r'PerPoolPerThreadInfo::isParForRecursive\(&tasks\.pool\(\)\)', 'isRecursive', 1),
                   ('R17', r'tasks\.numPoolThreads\(\)', 'numPoolThreads'),
                   ('R11', r'options\.maxThreads', 'opt_maxThreads'),
                   ('R11', r'options\.wait', 'opt_wait')])
    sl = X.slice_between(fn, r'for\s*\(size_t i = 0; i < n; \+\+i\)\s*\{', r'\+\+start;\s*\}', include_end=True)
    ctx.emit('fe_serial_loop.slice.inc', sl, must_fire=['R13', 'LC'],
             subs=[('R13', r'f\(\*start\);', 'G_apply(start);', 1),
                   ('LC', r'for\s*\(size_t i = 0; i < n; \+\+i\)\s*\{',
                    'for (size_t i = 0; i < n; ++i) __CPROVER_assigns(i, start, g_next_expected, g_applied, g_out_of_order) '
                    '__CPROVER_loop_invariant(i <= n && g_applied == i && !g_out_of_order && g_next_expected == start && start == __CPROVER_loop_entry(start) + i) '
                    '__CPROVER_decreases(n - i) {', 1)])
    sch = r.function(FE, r'void\s+for_each_n_schedule\s*\([^)]*IterCategory\s*\)')
    sl = X.slice_between(sch, r'boundaries\.push_back\(start\);', r'ssize_t\s+numToSchedule\s*=')
    ctx.emit('fe_boundaries.slice.inc', sl, must_fire=['R12', 'R2', 'LC'],
             subs=[('R12', r'boundaries\.push_back\(start\);', 'boundaries[blen++] = start;', 1),
                   ('R9', r'Iter\s+next\s*=\s*boundaries\[t\];', 'size_t next = boundaries[t];', 1),
                   ('R12', r'std::advance\(next, (static_cast<ptrdiff_t>\(cs\))\);', r'next += \1;', 1),
                   ('R12', r'boundaries\.push_back\(next\);', 'boundaries[blen++] = next;', 1),
                   ('LC', r'for\s*\(ssize_t t = 0; t < numThreads; \+\+t\)\s*\{',
                    'for (ssize_t t = 0; t < numThreads; ++t) '
                    '__CPROVER_loop_invariant(0 <= t && t <= numThreads && blen == t + 1 && boundaries[0] == start) '
                    '__CPROVER_loop_invariant((mathint)boundaries[t] == (mathint)start + (t < transitionIdx ? (mathint)t * (mathint)chunkSize : (mathint)transitionIdx * (mathint)chunkSize + ((mathint)t - (mathint)transitionIdx) * (mathint)smallChunkSize)) '
                    '__CPROVER_loop_invariant(k < t ==> ((mathint)boundaries[k + 1] - (mathint)boundaries[k] == (k < transitionIdx ? (mathint)chunkSize : (mathint)smallChunkSize))) '
                    '__CPROVER_decreases(numThreads - t) {', 1)])


def build(ctx):
    pieces(ctx)
    c17.chunking_pieces(ctx)
    c17.foreach_pieces(ctx)
    S = 'specs/c15_foreach.c'
    rp = dict(prog='replay/c15_replay.cpp', args=lambda ce, u: ['sizing'] + ['%s=%s' % (k, v) for k, v in sorted(ce.items()) if v is not None], hang_is_violation=True)
    units = [
        Unit('for_each_n.sizing', 'intwp', S, 'fe_sizing', expect=[r'postcondition\.4'], replay=rp, timeout=120),
        Unit('for_each_n.boundaries', 'intwp', S, 'fe_boundaries', expect=[r'postcondition\.3', r'loop_invariant_step', r'bounds'], timeout=150),
        Unit('for_each_n.serial_loop', 'cbmc', S, 'fe_serial_loop', loop_contracts=True, expect=[r'postcondition', r'loop_invariant|loop_step'], timeout=300),
    ]
    for fn, exp in (('fe_derive', [r'postcondition\.2', r'precondition']), ('fe_offset_sched', [r'postcondition\.3']),
                    ('fe_offset_tail', [r'postcondition\.3']), ('c17_foreach_partition', [r'assertion\.5', r'precondition\.3'])):
        units.append(Unit('for_each_n.' + fn, 'intwp', 'specs/c17_foreach.c', fn, timeout=300, expect=exp,
                          replay=c17.replay_args('fe') if fn == 'fe_derive' else None))
    units.append(Unit('staticChunkSize', 'intwp', 'specs/c17_chunking.c', 'staticChunkSize', timeout=60, expect=[r'postcondition\.5'], replay=c17.replay_args('scs')))
    return units
