"""C14 -- parallel_for never uses one state object concurrently."""
from driver import Unit
import extract as X
import importlib.util, os, re
def _load(n):
    sp = importlib.util.spec_from_file_location(n + 'mod', os.path.join(os.path.dirname(__file__), n + '.py'))
    m = importlib.util.module_from_spec(sp)
    sp.loader.exec_module(m)
    return m
c17 = _load('c17')
c48 = _load('c48')

LEVEL = 'proof'
TRUSTED_BASE = c48.TRUSTED_BASE
ASSUMPTIONS = c48.ASSUMPTIONS + ['dynamic/adaptive paths bind worker i to states[i] and the caller to states[numToLaunch] (read off std::advance(stateIt, idx) in their generator lambdas; inside the stubs)',
                                 'the states container is rendered by its size']
EXPLANATION = 'ghost state-ownership ledger over the extracted parallel_for control flow + initStates + static index->state remap'

PF = 'dispenso/parallel_for.h'
PS = 'dispenso/detail/par_for_static.h'


def static_pieces(ctx):
    """parallel_for_staticImpl: scheduler index -> chunk index remap, caller chunk selection, the caller's own run; initStates"""
    r = ctx.repo
    p = r.function(PF, r'void\s+initStates\s*\([^)]*\)')
    ctx.emit('initStates.body.inc', p, must_fire=['R12', 'LC'],
             subs=[('R12', r'states\.clear\(\);', 'states_size = 0;', 1),
                   ('R12', r'size_t\s+i\s*=\s*states\.size\(\)', 'size_t i = states_size', 1),
                   ('R12', r'states\.emplace_back\(defaultState\(\)\);', 'states_size++;', 1),
                   ('LC', r'(for\s*\(size_t i = states_size; i < numNeeded; \+\+i\))\s*\{',
                    r'\1 __CPROVER_loop_invariant(i == states_size || (i >= numNeeded && states_size >= numNeeded && i >= states_size)) __CPROVER_loop_invariant(reuseExistingState ==> states_size >= __CPROVER_loop_entry(states_size)) __CPROVER_loop_invariant(!reuseExistingState ==> (states_size <= numNeeded)) __CPROVER_decreases(numNeeded > i ? numNeeded - i : 0) {', 1),
                   ('R10', r'\}\s*$', '  return states_size;\n}', 1)])
    impl = r.function(PS, r'void\s+parallel_for_staticImpl\s*\([^)]*\)')
    sl = X.slice_between(impl, r'size_type\s+chunkIdx\s*=\s*static_cast<size_type>\(idx\);', r'return\s*\[it = stateIt, start, end, f\]')
    aliases = re.findall(r'auto\s+(\w+)\s*=\s*states\.begin\(\)\s*;', impl.text)
    begin_alias = '|'.join(a for a in aliases if a != 'stateIt') or 'states\\.begin\\(\\)'
    ctx.emit('psi_remap.slice.inc', sl, must_fire=['R2', 'R12'],
             subs=[('R13', r'auto\s+chunkBounds\s*=\s*chunkRange\(chunkIdx\);\s*IntegerT\s+start\s*=\s*chunkBounds\.first;\s*IntegerT\s+end\s*=\s*chunkBounds\.second;', '/* chunk bounds: C17 units */', 1),
                   # the state iterator starts at states.begin() (directly, or through a local initialised from it) and is advanced by
                   # whatever expression the code passes to std::advance: that expression is what the contract constrains
                   ('R12', r'auto\s+stateIt\s*=\s*(states\.begin\(\)|%s)\s*;' % begin_alias, '/* stateIt = states.begin() */', 1),
                   ('R12', r'std::advance\(stateIt,\s*static_cast<ptrdiff_t>\(([^();]+)\)\);', r'size_type stateAdvance = ((size_type)(((ptrdiff_t)(\1))));', 1)])
    sl = X.slice_between(impl, r'size_type\s+callerChunk\s*=\s*numThreads\s*-\s*1;', r'size_type\s+numToSchedule\s*=')
    ctx.emit('psi_callerChunk.slice.inc', sl, must_fire=['R2'])
    # the calling thread's own chunk (wait == true): which chunk bounds and which state object it uses
    sl = X.slice_between(impl, r'auto\s+stateIt\s*=\s*[\w.()]+;\s*std::advance\(stateIt,\s*static_cast<ptrdiff_t>\(\w+\)\);\s*auto\s+callerBounds', r'\{\s*auto\s+recurseInfo')
    ctx.emit('psi_callerRun.slice.inc', sl, must_fire=['R12', 'R13'],
             subs=[('R12', r'auto\s+stateIt\s*=\s*[\w.()]+;', '/* stateIt = states.begin() */', 1),
                   ('R12', r'std::advance\(stateIt,\s*static_cast<ptrdiff_t>\(([^();]+)\)\);', r'size_type stateAdvance = ((size_type)(((ptrdiff_t)(\1))));', 1),
                   ('R13', r'auto\s+callerBounds\s*=\s*chunkRange\(([^();]+)\);', r'size_type callerBoundsArg = (\1);', 1)])


def static_units(ctx, insts):
    units = []
    for t, uu, sg in insts:
        d = c17.inst_defines(t, uu, sg)
        bits = int(t.replace('uint', '').replace('int', '').replace('_t', ''))
        d['IT_MAX'] = str((1 << (bits - (1 if sg else 0))) - 1) + ('u' if not sg else '')
        common = dict(defines=d, inst=t, timeout=150, signed_wrap=True, nonprop_cls=['overflow', 'conversion'])
        units.append(Unit('parallel_for_staticImpl.remap', 'intwp', 'specs/c14_states.c', 'psi_remap', expect=[r'postcondition\.4'], **common))
        units.append(Unit('parallel_for_staticImpl.callerChunk', 'intwp', 'specs/c14_states.c', 'psi_callerChunk', expect=[r'postcondition\.1'], **common))
        units.append(Unit('parallel_for_staticImpl.callerRun', 'intwp', 'specs/c14_states.c', 'psi_callerRun', expect=[r'postcondition\.1'], **common))
        units.append(Unit('c14_static_states_distinct', 'intwp', 'specs/c14_states.c', 'c14_static_states_distinct', expect=[r'assertion\.2', r'precondition'], **common))
        units.append(Unit('c12_static_chunks_cover', 'intwp', 'specs/c14_states.c', 'c12_static_chunks_cover', expect=[r'assertion\.2', r'precondition'], **common))
    return units


def build(ctx):
    c48.skeleton_pieces(ctx)
    static_pieces(ctx)
    units = []
    for t, uu, sg in ([c17.INSTS[4], c17.INSTS[7]] if ctx.tier == 'quick' else c17.INSTS):
        d = c17.inst_defines(t, uu, sg)
        bits = int(t.replace('uint', '').replace('int', '').replace('_t', ''))
        d['IT_MAX'] = str((1 << (bits - (1 if sg else 0))) - 1) + ('u' if not sg else '')
        units.append(Unit('parallel_for.skeleton', 'cbmc', 'specs/c48_skeleton.c', 'parallel_for_skeleton', defines=d, inst=t, timeout=600,
                          replace=['computeGranularity', 'adjustChunkSizing', 'ChunkedRange_calcChunkSize', 'G_staticImpl', 'G_adaptiveWaitDispatch', 'G_dynamicImpl', 'G_dynamicNoWaitDispatch'],
                          expect=[r'postcondition\.5', r'precondition'], flags=['--unwind', '9'],
                          replay=dict(prog='replay/c48_replay.cpp', args=lambda ce, u: ['skeleton', 'T=' + u.inst] + ['%s=%s' % (k, str(v).rstrip('ulUL')) for k, v in sorted(ce.items())])))
    units += static_units(ctx, [c17.INSTS[4], c17.INSTS[7]] if ctx.tier == 'quick' else c17.INSTS)
    units.append(Unit('initStates', 'intwp', 'specs/c14_states.c', 'initStates_size', defines=c17.inst_defines('int64_t', 'uint64_t', 1), expect=[r'postcondition\.3', r'loop_invariant_step', r'decreases'], timeout=120))
    return units
