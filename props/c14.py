"""C14 -- parallel_for never uses one state object concurrently."""
from driver import Unit
import extract as X
import importlib.util, os, re
def _load(n):
    sp = importlib.util.spec_from_file_location(n + 'mod', os.path.join(os.path.dirname(__file__), n + '.py'))
    m = importlib.util.module_from_spec(sp)
    sp.loader.exec_module(m)
    return m
c17 = _load('c17')
c48 = _load('c48')
c04 = _load('c04')

LEVEL = 'proof'
TRUSTED_BASE = c48.TRUSTED_BASE
ASSUMPTIONS = c48.ASSUMPTIONS + ['dynamic / adaptive paths: worker i uses states[i] and the caller states[numToLaunch] (state-binding units: the std::advance arguments are extracted and proved); that the workers of the adaptive path (runStripeWorker) touch only the state they are given is C12/C13 territory',
                                 'dynamic path, no-wait tail: proved per worker (exit ticket only after the last claimed chunk; exit action with that ticket; tail only for the last exit ticket); that the last exit ticket is drawn after all others is the counting argument over fetch_add stated in specs/c14_dynamic.c (atomic RMW axiom), and `c * chunkSize` is an uninterpreted injective function of the chunk number there',
                                 'dynamic/adaptive paths bind worker i to states[i] and the caller to states[numToLaunch] (read off std::advance(stateIt, idx) in their generator lambdas; inside the stubs)',
                                 'the states container is rendered by its size']
EXPLANATION = 'ghost state-ownership ledger over the extracted parallel_for control flow + initStates + static index->state remap'

PF = 'dispenso/parallel_for.h'
PS = 'dispenso/detail/par_for_static.h'


def static_pieces(ctx):
    """parallel_for_staticImpl: scheduler index -> chunk index remap, caller chunk selection, the caller's own run; initStates"""
    r = ctx.repo
    p = r.function(PF, r'void\s+initStates\s*\([^)]*\)')
    ctx.emit('initStates.body.inc', p, must_fire=['R12', 'LC'],
             subs=[('R12', r'states\.clear\(\);', 'states_size = 0;', 1),
                   ('R12', r'size_t\s+i\s*=\s*states\.size\(\)', 'size_t i = states_size', 1),
                   ('R12', r'states\.emplace_back\(defaultState\(\)\);', 'states_size++;', 1),
                   ('LC', r'(for\s*\(size_t i = states_size; i < numNeeded; \+\+i\))\s*\{',
                    r'\1 __CPROVER_loop_invariant(i == states_size || (i >= numNeeded && states_size >= numNeeded && i >= states_size)) __CPROVER_loop_invariant(reuseExistingState ==> states_size >= __CPROVER_loop_entry(states_size)) __CPROVER_loop_invariant(!reuseExistingState ==> (states_size <= numNeeded)) __CPROVER_decreases(numNeeded > i ? numNeeded - i : 0) {', 1),
                   ('R10', r'\}\s*$', '  return states_size;\n}', 1)])
    impl = r.function(PS, r'void\s+parallel_for_staticImpl\s*\([^)]*\)')
    sl = X.slice_between(impl, r'size_type\s+chunkIdx\s*=\s*static_cast<size_type>\(idx\);', r'return\s*\[it = stateIt, start, end, f\]')
    aliases = re.findall(r'auto\s+(\w+)\s*=\s*states\.begin\(\)\s*;', impl.text)
    begin_alias = '|'.join(a for a in aliases if a != 'stateIt') or 'states\\.begin\\(\\)'
    ctx.emit('psi_remap.slice.inc', sl, must_fire=['R2', 'R12'],
             subs=[('R13', r'auto\s+chunkBounds\s*=\s*chunkRange\(chunkIdx\);\s*IntegerT\s+start\s*=\s*chunkBounds\.first;\s*IntegerT\s+end\s*=\s*chunkBounds\.second;', '/* chunk bounds: C17 units */', 1),
                   # the state iterator starts at states.begin() (directly, or through a local initialised from it) and is advanced by
                   # whatever expression the code passes to std::advance: that expression is what the contract constrains
                   ('R12', r'auto\s+stateIt\s*=\s*(states\.begin\(\)|%s)\s*;' % begin_alias, '/* stateIt = states.begin() */', 1),
                   ('R12', r'std::advance\(stateIt,\s*static_cast<ptrdiff_t>\(([^();]+)\)\);', r'size_type stateAdvance = ((size_type)(((ptrdiff_t)(\1))));', 1)])
    sl = X.slice_between(impl, r'size_type\s+callerChunk\s*=\s*numThreads\s*-\s*1;', r'size_type\s+numToSchedule\s*=')
    ctx.emit('psi_callerChunk.slice.inc', sl, must_fire=['R2'])
    # the calling thread's own chunk (wait == true): which chunk bounds and which state object it uses
    sl = X.slice_between(impl, r'auto\s+stateIt\s*=\s*[\w.()]+;\s*std::advance\(stateIt,\s*static_cast<ptrdiff_t>\(\w+\)\);\s*auto\s+callerBounds', r'\{\s*auto\s+recurseInfo')
    ctx.emit('psi_callerRun.slice.inc', sl, must_fire=['R12', 'R13'],
             subs=[('R12', r'auto\s+stateIt\s*=\s*[\w.()]+;', '/* stateIt = states.begin() */', 1),
                   ('R12', r'std::advance\(stateIt,\s*static_cast<ptrdiff_t>\(([^();]+)\)\);', r'size_type stateAdvance = ((size_type)(((ptrdiff_t)(\1))));', 1),
                   ('R13', r'auto\s+callerBounds\s*=\s*chunkRange\(([^();]+)\);', r'size_type callerBoundsArg = (\1);', 1)])


PD = 'dispenso/detail/par_for_dynamic.h'


def dynamic_pieces(ctx):
    """the single-group worker lambda of parallel_for_dynamicImpl, the exit action of the no-wait dispatch and its lastExit"""
    r = ctx.repo
    impl = r.function(PD, r'void\s+parallel_for_dynamicImpl\s*\([^)]*\)')
    w = c04.lambda_body(impl, r'auto\s+worker\s*=\s*\[[^\]]*&index[^\]]*\]\s*\(auto&\s+s\)\s*\{', 'parallel_for_dynamicImpl worker')
    # the loop contract is only written for the shape `while (true) { draw; ... }` (no loop-carried locals); any other shape is unwound
    # (bounded, numChunks < DYN_MAXCHUNKS small) so that a restructured but correct loop is not judged by an invariant that does not fit it
    lc = ('LC', r'while\s*\(true\)\s*\{', 'while (1) __CPROVER_assigns(DYN_FRAME) __CPROVER_loop_invariant(g_exit_tickets == 0 && g_exit_calls == 0 && !g_claim_valid[0] && !g_claim_valid[1]) {', 'opt')
    c = ctx.emit('DYN_worker_single.body.inc', w, must_fire=['R7', 'R13'], typemap={'IntegerT': 'IntegerT'},
                 subs=[lc,
                       ('R17', r'auto\s+recurseInfo\s*=\s*detail::PerPoolPerThreadInfo::parForRecurse\(\);', '/* recursion marker (C46) */', 'opt'),
                       ('R7', r'auto\s+(\w+)\s*=\s*index\.fetch_add\((\w+),\s*std::memory_order_(\w+)\);', r'size_type \1 = A_FETCH_ADD_index(\2, MO_\3);'),
                       ('R7', r'(?<![\w.>])(\w+)\s*=\s*index\.fetch_add\((\w+),\s*std::memory_order_(\w+)\);', r'\1 = A_FETCH_ADD_index(\2, MO_\3);', 'opt'),
                       ('R3u', r'(?<![\w.>])(\w+)\s*\*\s*chunkSize\b', r'CHUNK_OFF(\1)'),
                       ('R9', r'auto\s+sidx\s*=', 'IntegerT sidx =', 'opt'),
                       ('R13', r'(?<![\w.>])f\(s,\s*([^;]*?),\s*([^;,]*?)\);', r'G_f(\1, \2);'),
                       ('R13', r'(?<![\w.>])exitAction\(([^;]*?)\);', r'G_exitAction(\1);'),
                       ('R2', r'\btrue\b', '1', 'opt'), ('R2', r'\bfalse\b', '0', 'opt')])
    shape_ok = '__CPROVER_loop_invariant' in c
    mimpl = r.function(PD, r'void\s+parallel_for_dynamicMultiGroupImpl\s*\([^)]*\)')
    mw = c04.lambda_body(mimpl, r'auto\s+worker\s*=\s*\[[^\]]*\bblock\b[^\]]*\]\s*\(auto&\s+s,\s*size_t\s+groupIdx\)\s*\{', 'multi-group worker')
    lcm = ('LC', r'while\s*\(true\)\s*\{', 'while (1) __CPROVER_assigns(DYN_FRAME, g_block_read_late) __CPROVER_loop_invariant(!g_exit_counted && !g_block_read_late && !g_block_freed && g_exit_calls_m == 0 && !g_claim_valid[0] && !g_claim_valid[1]) {', 'opt')
    cm = ctx.emit('DYN_worker_multi.body.inc', mw, must_fire=['R7', 'R13', 'R17'], typemap={'IntegerT': 'IntegerT', 'decltype(numChunks)': 'size_type', 'typename ChunkedRange<IntegerT>::size_type': 'size_type', 'ChunkedRange<IntegerT>::size_type': 'size_type'},
                  subs=[lcm,
                        ('R17', r'auto\s+recurseInfo\s*=\s*detail::PerPoolPerThreadInfo::parForRecurse\(\);', '/* recursion marker (C46) */', 'opt'),
                        ('R17', r'auto&\s+gr\s*=\s*block->ranges\(\)\[groupIdx\];', '/* gr = block->ranges()[groupIdx]: this worker\'s group */'),
                        ('R17', r'const\s+size_t\s+totalWorkersLocal\s*=\s*block->totalWorkers;', 'const size_t totalWorkersLocal = B_totalWorkers();', 'opt'),
                        ('R17', r'const\s+bool\s+owned\s*=\s*block->heapOwned;', 'const bool owned = B_heapOwned();', 'opt'),
                        ('R7', r'auto\s+(\w+)\s*=\s*gr\.index\.fetch_add\((\w+),\s*std::memory_order_(\w+)\);', r'size_type \1 = A_FETCH_ADD_gindex(\2, MO_\3);'),
                        ('R7', r'(?<![\w.>])(\w+)\s*=\s*gr\.index\.fetch_add\((\w+),\s*std::memory_order_(\w+)\);', r'\1 = A_FETCH_ADD_gindex(\2, MO_\3);', 'opt'),
                        ('R7', r'auto\s+(\w+)\s*=\s*block->exitCounter\.fetch_add\((\w+),\s*std::memory_order_(\w+)\);', r'size_t \1 = A_FETCH_ADD_exitCounter(\2, MO_\3);'),
                        ('R17', r'gr\.numGroupChunks', 'B_numGroupChunks()'), ('R17', r'gr\.startChunk', 'B_startChunk()'),
                        ('R17', r'block->totalWorkers', 'B_totalWorkers()', 'opt'), ('R17', r'block->heapOwned', 'B_heapOwned()', 'opt'),
                        ('R9', r'auto\s+globalChunk\s*=', 'size_type globalChunk =', 'opt'),
                        ('R3u', r'(?<![\w.>])(\w+)\s*\*\s*chunkSize\b', r'CHUNK_OFF(\1)'),
                        ('R9', r'auto\s+sidx\s*=', 'IntegerT sidx =', 'opt'),
                        ('R13', r'(?<![\w.>])f\(s,\s*([^;]*?),\s*([^;,]*?)\);', r'G_f(\1, \2);'),
                        ('R13', r'(?<![\w.>])exitAction\(([^;]*?)\);', r'G_exitAction_m(\1);'),
                        ('R17', r'detail::alignedFree\(block\);', 'G_free_block();'),
                        ('R2', r'\btrue\b', '1', 'opt'), ('R2', r'\bfalse\b', '0', 'opt')])
    shape_ok = (shape_ok, '__CPROVER_loop_invariant' in cm)
    disp = r.function(PD, r'void\s+parallel_for_dynamicNoWaitDispatch\s*\([^)]*\)')
    if not re.search(r'auto&\s+tailState\s*=\s*\*states\.begin\(\);', disp.text):
        raise X.ExtractionError('parallel_for_dynamicNoWaitDispatch: the tail no longer uses *states.begin()')
    ea = c04.lambda_body(disp, r'\[ci,\s*lastExit,[^\]]*\]\s*\(\s*auto\s+cur\)\s*\{', 'no-wait exit action')
    ctx.emit('DYN_exitAction.body.inc', ea, must_fire=['R13', 'R17'],
             subs=[('R13', r'tailFunc\(tailState,\s*tailStart,\s*tailEnd\);', 'G_tailFunc();'),
                   ('R17', r'deallocSmallBuffer<kCacheLineSize>\(ci\);', 'G_dealloc_ci();')])
    sl = X.slice_between(disp, r'SizeType\s+lastExit\s*=', r'IntegerT\s+tailStart', include_end=False)
    ctx.emit('DYN_lastExit.slice.inc', sl, must_fire=['R9'], typemap={'SizeType': 'size_type'},
             subs=[('R9', r'SizeType\s+lastExit\s*=', 'size_type lastExit_local =')])
    return shape_ok


def state_sites(ctx):
    """R12: the state object each invocation of the dynamic / adaptive paths dereferences, as the argument of std::advance on an iterator that
    starts at states.begin() (directly or through a copy captured by the generator lambda)"""
    r = ctx.repo
    for tag, path, sig in (('dyn1', PD, r'void\s+parallel_for_dynamicImpl\s*\([^)]*\)'), ('dynM', PD, r'void\s+parallel_for_dynamicMultiGroupImpl\s*\([^)]*\)'),
                           ('adapt', PF, r'void\s+parallel_for_adaptiveWaitDispatch\s*\([^)]*\)')):
        fn = r.function(path, sig)
        t = fn.text
        mb = re.search(r'auto\s+(\w+)\s*=\s*states\.begin\(\);\s*(?:auto\s+worker\s*=|taskSet\.scheduleBulk|if\s*\(numToLaunch\s*>\s*0\))', t) or re.search(r'auto\s+(stateBegin)\s*=\s*states\.begin\(\);', t)
        if not mb:
            raise X.ExtractionError('%s: no iterator initialised from states.begin() in front of the bulk generator' % tag)
        begin = mb.group(1)
        mg = re.search(r'taskSet\.scheduleBulk\(\s*(?:static_cast<size_t>\(numToLaunch\)|numToLaunch)\s*,\s*\[([^\]]*)\]\s*\(size_t\s+(\w+)\)\s*\{', t)
        if not mg or not re.search(r'\b' + begin + r'\b', mg.group(1)):
            raise X.ExtractionError('%s: bulk generator lambda over numToLaunch capturing %s not found' % (tag, begin))
        b = t.index('{', mg.end() - 1)
        body = t[b:X.match_balanced(t, b, '{', '}')]
        ma = re.findall(r'auto\s+(\w+)\s*=\s*' + begin + r';\s*std::advance\(\1,\s*static_cast<ptrdiff_t>\(([^();]+)\)\);', body)
        if len(ma) != 1 or not re.search(r'\[&\w+\s*=\s*\*' + ma[0][0] + r'\b', body):
            raise X.ExtractionError('%s: generator does not bind its state through one std::advance on a copy of %s' % (tag, begin))
        ln = fn.line_start + t.count('\n', 0, b)
        pc = X.Piece.__new__(X.Piece); pc.relpath, pc.text, pc.line_start, pc.line_end, pc.rules = path, body, ln, ln + body.count('\n'), [('R12', 1)]
        pc.sha = __import__('hashlib').sha256(body.encode()).hexdigest()[:16]
        X.write_piece(ctx.gen, 'SITE_%s_worker.body.inc' % tag, '{ %sreturn (size_t)((ptrdiff_t)(%s)); }   /* std::advance(%s, ...) in the generator lambda */' % ('' if mg.group(2) == 'i' else 'size_t %s = i; ' % mg.group(2), ma[0][1], ma[0][0]), pc, ctx.extract_log)
        rest = t[X.match_balanced(t, b, '{', '}'):]
        mc = re.findall(r'auto\s+(\w+)\s*=\s*states\.begin\(\);\s*std::advance\(\1,\s*static_cast<ptrdiff_t>\(([^();]+)\)\);(?:(?!std::advance)[\s\S])*?worker\(\*\1\b', rest)
        if len(mc) != 1:
            raise X.ExtractionError('%s: the calling thread does not bind its state through one std::advance from states.begin()' % tag)
        pc2 = X.Piece.__new__(X.Piece); pc2.relpath, pc2.text, pc2.line_start, pc2.line_end, pc2.rules = path, rest, fn.line_start + t.count('\n', 0, len(t) - len(rest)), fn.line_end, [('R12', 1)]
        pc2.sha = __import__('hashlib').sha256(rest.encode()).hexdigest()[:16]
        X.write_piece(ctx.gen, 'SITE_%s_caller.body.inc' % tag, '{ return (size_t)((ptrdiff_t)(%s)); }   /* std::advance(%s, ...) of the calling thread */' % (mc[0][1], mc[0][0]), pc2, ctx.extract_log)


def site_units():
    return [Unit('state binding: %s %s' % (nm, who), 'cbmc', 'specs/c14_dynamic.c', 'SITE_%s_%s' % (tag, who), defines={'DYN_SIZE_T': 'uint64_t', 'DYN_INT_T': 'int64_t', 'DYN_MAXCHUNKS': '4'},
                 expect=[r'postcondition'], timeout=120)
            for tag, nm in (('dyn1', 'parallel_for_dynamicImpl'), ('dynM', 'parallel_for_dynamicMultiGroupImpl'), ('adapt', 'parallel_for_adaptiveWaitDispatch')) for who in ('worker', 'caller')]


def dynamic_units(ctx, shapes):
    shape_ok, mshape_ok = shapes
    units = []
    for st, it in (('uint32_t', 'int32_t'), ('uint64_t', 'int64_t')):
        d = {'DYN_SIZE_T': st, 'DYN_INT_T': it, 'DYN_MAXCHUNKS': '(((size_type)-1) / 2)' if shape_ok else '4'}
        common = dict(defines=d, inst='size_type=%s,IntegerT=%s' % (st, it), timeout=600)
        if shape_ok:
            units.append(Unit('parallel_for_dynamicImpl.worker (single group)', 'cbmc', 'specs/c14_dynamic.c', 'DYN_worker_single', loop_contracts=True,
                              expect=[r'postcondition', r'A_FETCH_ADD_index\.assertion', r'G_f\.assertion', r'G_exitAction\.assertion'], **common))
        else:
            units.append(Unit('parallel_for_dynamicImpl.worker (single group)', 'cbmc', 'specs/c14_dynamic.c', 'DYN_worker_single', unwind=7,
                              bounded='loop shape not `while (true)`: unwound, fewer than 4 chunks per range', expect=[r'postcondition', r'A_FETCH_ADD_index\.assertion'], **common))
        dm = dict(d); dm['DYN_MAXCHUNKS'] = '(((size_type)-1) / 2)' if mshape_ok else '4'
        cm = dict(common, defines=dm)
        if mshape_ok:
            units.append(Unit('parallel_for_dynamicMultiGroupImpl.worker', 'cbmc', 'specs/c14_dynamic.c', 'DYN_worker_multi', loop_contracts=True,
                              expect=[r'postcondition', r'A_FETCH_ADD_exitCounter\.assertion', r'G_f\.assertion', r'G_exitAction_m\.assertion'], **cm))
        else:
            units.append(Unit('parallel_for_dynamicMultiGroupImpl.worker', 'cbmc', 'specs/c14_dynamic.c', 'DYN_worker_multi', unwind=7,
                              bounded='loop shape not `while (true)`: unwound, fewer than 4 chunks per range', expect=[r'postcondition', r'A_FETCH_ADD_exitCounter\.assertion'], **cm))
        units.append(Unit('parallel_for_dynamicNoWaitDispatch.exitAction', 'cbmc', 'specs/c14_dynamic.c', 'DYN_exitAction', expect=[r'postcondition'], **common))
        units.append(Unit('parallel_for_dynamicNoWaitDispatch.lastExit', 'cbmc', 'specs/c14_dynamic.c', 'DYN_lastExit', expect=[r'postcondition'], **common))
    return units


def static_units(ctx, insts):
    units = []
    for t, uu, sg in insts:
        d = c17.inst_defines(t, uu, sg)
        bits = int(t.replace('uint', '').replace('int', '').replace('_t', ''))
        d['IT_MAX'] = str((1 << (bits - (1 if sg else 0))) - 1) + ('u' if not sg else '')
        common = dict(defines=d, inst=t, timeout=400, signed_wrap=True, nonprop_cls=['overflow', 'conversion'])
        units.append(Unit('parallel_for_staticImpl.remap', 'intwp', 'specs/c14_states.c', 'psi_remap', expect=[r'postcondition\.4'], **common))
        units.append(Unit('parallel_for_staticImpl.callerChunk', 'intwp', 'specs/c14_states.c', 'psi_callerChunk', expect=[r'postcondition\.1'], **common))
        units.append(Unit('parallel_for_staticImpl.callerRun', 'intwp', 'specs/c14_states.c', 'psi_callerRun', expect=[r'postcondition\.1'], **common))
        units.append(Unit('c14_static_states_distinct', 'intwp', 'specs/c14_states.c', 'c14_static_states_distinct', expect=[r'assertion\.2', r'precondition'], **common))
        units.append(Unit('c12_static_chunks_cover', 'intwp', 'specs/c14_states.c', 'c12_static_chunks_cover', expect=[r'assertion\.2', r'precondition'], **common))
    return units


def build(ctx):
    c48.skeleton_pieces(ctx)
    static_pieces(ctx)
    units = []
    for t, uu, sg in ([c17.INSTS[4], c17.INSTS[7]] if ctx.tier == 'quick' else c17.INSTS):
        d = c17.inst_defines(t, uu, sg)
        bits = int(t.replace('uint', '').replace('int', '').replace('_t', ''))
        d['IT_MAX'] = str((1 << (bits - (1 if sg else 0))) - 1) + ('u' if not sg else '')
        units.append(Unit('parallel_for.skeleton', 'cbmc', 'specs/c48_skeleton.c', 'parallel_for_skeleton', defines=d, inst=t, timeout=600,
                          replace=['computeGranularity', 'adjustChunkSizing', 'ChunkedRange_calcChunkSize', 'G_staticImpl', 'G_adaptiveWaitDispatch', 'G_dynamicImpl', 'G_dynamicNoWaitDispatch'],
                          expect=[r'postcondition\.5', r'precondition'], flags=['--unwind', '9'],
                          replay=dict(prog='replay/c48_replay.cpp', args=lambda ce, u: ['skeleton', 'T=' + u.inst] + ['%s=%s' % (k, str(v).rstrip('ulUL')) for k, v in sorted(ce.items())])))
    units += static_units(ctx, [c17.INSTS[4], c17.INSTS[7]] if ctx.tier == 'quick' else c17.INSTS)
    shapes = dynamic_pieces(ctx)
    state_sites(ctx)
    units += dynamic_units(ctx, shapes) + site_units()
    units.append(Unit('initStates', 'intwp', 'specs/c14_states.c', 'initStates_size', defines=c17.inst_defines('int64_t', 'uint64_t', 1), expect=[r'postcondition\.3', r'loop_invariant_step', r'decreases'], timeout=120))
    return units
