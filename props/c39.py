"""C39 -- OnceFunction invokes and destroys its callable exactly once."""
from driver import Unit
import extract as X
import re

LEVEL = 'proof'
TRUSTED_BASE = ['CBMC 6.11 + cadical (+ z3 for the quantified bytewise-copy postcondition)', 'tools/extract.py rewrite rules',
                'nextPow2 contract (proved under C44)', 'allocSmallBuffer<N>: block of N bytes aligned to N: size classes and the large-block path are re-verified here (C41 units); the pooled allocator behind them is C41']
ASSUMPTIONS = ['the functor type is abstract: symbolic sizeof/alignof (alignment a power of two <= 256 dividing the size); functor body = ghost invocation event',
               'non-DISPENSO_DEBUG build (the #if defined DISPENSO_DEBUG branches are dropped)',
               'double invocation / use after move are documented misuse and not specified',
               'the link from the selected overload to the trampoline stored in invoke_ is template dispatch (std::true_type/false_type) and is read, not proved']
EXPLANATION = 'storage selection predicate, spill size class, both trampolines, bytewise move, operator() / cleanupNotRun dispatch'

OC = 'dispenso/detail/once_callable_impl.h'
OF = 'dispenso/once_function.h'
CLS = r'class\s+OnceFunction\s*(?=\{)'


def build(ctx):
    r = ctx.repo
    m = re.search(r'constexpr\s+size_t\s+kOnceFunctionInlineSize\s*=\s*(\d+)\s*;', r.text(OC))
    if not m:
        raise X.ExtractionError('kOnceFunctionInlineSize changed')
    kinline = m.group(1)
    if not re.search(r'alignas\(64\)\s+mutable\s+char\s+buf_\[detail::kOnceFunctionInlineSize\];', r.text(OF)):
        raise X.ExtractionError('OnceFunction::buf_ declaration (alignas(64), kOnceFunctionInlineSize bytes) changed')
    sz = [('R4', r'sizeof\(FNoRef\)', 'SIZEOF_F'), ('R4', r'alignof\(FNoRef\)', 'ALIGNOF_F')]
    coc = r.function(OC, r'inline\s+OnceCallableData\s+createOnceCallable\s*\(\s*F&&\s*f\s*,\s*void\*\s*inlineBuf\s*\)')
    sl = X.slice_between(coc, r'\(sizeof\(FNoRef\)\s*<=', r'>\{\}\);', include_start=True)
    ctx.emit('once_select.expr.inc', sl, must_fire=['R4'], subs=sz)
    spill = r.function(OC, r'inline\s+OnceCallableData\s+createOnceCallableImpl\s*\(\s*F&&\s*f\s*,\s*void\*\s*inlineBuf\s*,\s*std::false_type[^)]*\)')
    sl = X.slice_between(spill, r'constexpr\s+size_t\s+kAllocSize\s*=', r'void\*\s+ptr\s*=\s*allocSmallBuffer<kAllocSize>\(\);')
    ctx.emit('once_spill_size.slice.inc', sl, must_fire=['R4', 'R2', 'R3'], subs=sz + [('R3', r'std::max\(SIZEOF_F,\s*ALIGNOF_F\)', 'MAX_size_t(SIZEOF_F, ALIGNOF_F)', 1)])
    ctx.emit('invokeInline.body.inc', r.function(OC, r'void\s+invokeInline\s*\(\s*void\*\s*buf\s*,\s*bool\s+run\s*\)'), must_fire=['R12', 'R13', 'R5'],
             subs=[('R9', r'F\*\s+f\s*=\s*static_cast<F\*>\(buf\);', 'T_cell* f = buf;', 1),
                   ('R13', r'\(\*f\)\(\);', 'G_invoke_functor(f);', 1), ('R12', r'f->~F\(\);', 'T_destroy_at(f);', 1)])
    ctx.emit('invokeSpill.body.inc', r.function(OC, r'void\s+invokeSpill\s*\(\s*void\*\s*buf\s*,\s*bool\s+run\s*\)'), must_fire=['R12', 'R13', 'R17'],
             subs=[('R9', r'void\*\s+ptr\s*=\s*\*static_cast<void\*\*>\(buf\);', 'T_cell* ptr = buf->ptr;', 1),
                   ('R9', r'F\*\s+f\s*=\s*static_cast<F\*>\(ptr\);', 'T_cell* f = ptr;', 1),
                   ('R13', r'\(\*f\)\(\);', 'G_invoke_functor(f);', 1), ('R12', r'f->~F\(\);', 'T_destroy_at(f);', 1),
                   ('R17', r'deallocSmallBuffer<kBufferSize>\(ptr\);', 'G_deallocSmallBuffer(KSPILLSIZE /* template argument kBufferSize */, ptr);', 1)])
    # the spill overload instantiates invokeSpill<kAllocSize, FNoRef>: same constant for allocation and release
    if not re.search(r'return\s*\{\s*&invokeSpill<kAllocSize,\s*FNoRef>\s*\}\s*;', spill.text) or not re.search(r'allocSmallBuffer<kAllocSize>\(\)', spill.text):
        raise X.ExtractionError('spill overload no longer allocates and releases with the same kAllocSize')
    dbg = [('R5', r'#if\s+defined\s+DISPENSO_DEBUG[\s\S]*?#else', '', 'opt'), ('R5', r'#if\s+defined\s+DISPENSO_DEBUG[\s\S]*?#endif', '', 'opt'), ('R5', r'#endif', '', 'opt')]
    ctx.emit('OnceFunction_move_ctor.body.inc', r.function(OF, r'OnceFunction\s*\(\s*OnceFunction&&\s*other\s*\)\s*noexcept', within=CLS), must_fire=['R19'],
             subs=dbg + [('R19', r'std::memcpy\(static_cast<void\*>\(this\),\s*&other,\s*sizeof\(OnceFunction\)\);', '*self = *other;   /* memcpy of the whole object */', 1)], keep_this=True)
    ctx.emit('OnceFunction_call.body.inc', r.function(OF, r'void\s+operator\(\)\s*\(\s*\)\s*const', within=CLS), must_fire=['R13'],
             subs=dbg + [('R13', r'invoke_\(buf_,\s*true\);', 'G_dispatch(self->invoke_, (unsigned char*)self->buf_, 1);', 1)])
    ctx.emit('OnceFunction_cleanupNotRun.body.inc', r.function(OF, r'void\s+cleanupNotRun\s*\(\s*\)', within=CLS), must_fire=['R13'],
             subs=dbg + [('R13', r'invoke_\(buf_,\s*false\);', 'G_dispatch(self->invoke_, self->buf_, 0);', 1)])
    S = 'specs/c39_once.c'
    d = {'KINLINE': kinline, 'KSPILLSIZE': '128'}
    units = [
        Unit('createOnceCallable.select', 'cbmc', S, 'once_select_inline', defines=d, expect=[r'postcondition\.2']),
        Unit('createOnceCallableImpl(spill).kAllocSize', 'cbmc', S, 'once_spill_alloc_size', defines=d, replace=['nextPow2'], expect=[r'postcondition']),
        Unit('invokeInline', 'cbmc', S, 'invokeInline', defines=d, expect=[r'postcondition', r'T_destroy_at\.assertion']),
        Unit('invokeSpill', 'cbmc', S, 'invokeSpill', defines=d, expect=[r'postcondition', r'G_deallocSmallBuffer\.assertion\.2']),
        Unit('OnceFunction(OnceFunction&&)', 'cbmc', S, 'OnceFunction_move_ctor', defines=d, expect=[r'postcondition'], solver=['--z3'], timeout=300),
        Unit('OnceFunction::operator()', 'cbmc', S, 'OnceFunction_call', defines=d, expect=[r'postcondition']),
        Unit('OnceFunction::cleanupNotRun', 'cbmc', S, 'OnceFunction_cleanupNotRun', defines=d, expect=[r'postcondition']),
    ]
    # the spill path relies on allocSmallBuffer<N> handing out a block aligned to N: the size-class / large-block units of C41 are part of
    # this check too (same spec file as C41), so a change that weakens that alignment is reported under C39 as well
    import importlib.util, os
    sp = importlib.util.spec_from_file_location('c41mod', os.path.join(os.path.dirname(__file__), 'c41.py'))
    c41 = importlib.util.module_from_spec(sp)
    sp.loader.exec_module(c41)
    units += [u for u in c41.build(ctx) if u.name in ('getOrdinal', 'allocSmallOrLarge(N>256)', 'size_class(N)')]
    return units
