"""C04 -- cancelled task sets start no further task bodies."""
from driver import Unit
import extract as X
import re, hashlib

LEVEL = 'proof'
TRUSTED_BASE = ['CBMC 6.11 + cadical', 'tools/extract.py rewrite rules',
                'tagged pool entry points only enqueue (C47); untagged ones either enqueue or run the packaged task at once (stub TP_may_run_packaged)',
                'the thread pool eventually runs every queued packaged task exactly once (C01, not decided)']
ASSUMPTIONS = ['canceled_ is monotone during an operation (it is set by cancel(), a throwing task or a cancelled parent and cleared by nothing verified here)',
               'the load / placement predicates (task-set load factor, pool load, isPoolRecursive, canInlineSchedule, TaskCost) are arbitrary booleans',
               'exceptions: the variant of the packaged body the source provides for builds without exceptions is the one rendered (the try/catch wrapper is C05)',
               'the intrusive child list of cancelChildren is rendered as indices 0..n-1 (head_ = 0, next_ = +1, nullptr = n), n symbolic: loop contract, no bound',
               'TaskSet::schedule(F, ForceQueuingTag) and friends never invoke (C47); Future/when_all continuations registered with a set are not under contract']
EXPLANATION = 'invocation-log ghost: with canceled_ set before the call no schedule path, inline or packaged, starts the body; cancel() cascades to every child whatever the previous state'

TS = 'dispenso/task_set.h'
TI = 'dispenso/detail/task_set_impl.h'
TC = 'dispenso/task_set.cpp'
PKG = r'packageTask\(std::forward<F>\(f\)\)'
COMMON = [
    ('R15', r'(?s)#if defined\(__cpp_exceptions\)(?:(?!#endif).)*?#else(.*?)#endif[^\n]*', r'\1'),
    ('R15', r'(?s)#if defined\(__cpp_exceptions\)(?:(?!#else|#endif).)*?#endif[^\n]*', ''),
    ('R13', r'(?<![\w.>])f\(\);', 'G_invoke_f();'),
    ('R7', r'canceled_\.load\(std::memory_order_(\w+)\)', r'A_LOAD_canceled(MO_\1)'),
    ('R7', r'canceled_\.store\((\w+),\s*std::memory_order_(\w+)\);', r'A_STORE_canceled(\1, MO_\2);'),
    ('R7', r'canceled_\.exchange\((\w+),\s*std::memory_order_(\w+)\)', r'A_XCHG_canceled(\1, MO_\2)'),
    ('R17', r'(?<![\w.>])canceled\(\)', 'A_LOAD_canceled(MO_acquire)   /* canceled(): acquire load (checked textually) */'),
    ('R7', r'outstandingTaskCount_\.load\(std::memory_order_(\w+)\)', r'A_LOAD_outstanding(MO_\1)'),
    ('R7', r'outstandingTaskCount_\.fetch_add\(([^;]*?),\s*std::memory_order_(\w+)\);', r'G_outstanding_add(\1, MO_\2);'),
    ('R7', r'outstandingTaskCount_\.fetch_sub\(1,\s*std::memory_order_(\w+)\);', r'G_counter_dec(MO_\1);'),
    ('R17', r'pool_\.schedule(?:Placed)?\(\s*(?:token_\s*,\s*)?' + PKG + r'\s*,\s*ForceQueuingTag\(\)\s*\);', '{ G_make_package(); TP_enqueue_packaged(); }'),
    ('R17', r'pool_\.schedule(?:Placed)?\(\s*(?:token_\s*,\s*)?' + PKG + r'\s*\);', '{ G_make_package(); TP_may_run_packaged(); }'),
    ('R17', r'detail::InlineDepthGuard\s+depthGuard;', '/* InlineDepthGuard (C46) */'),
    ('R17', r'detail::PerPoolPerThreadInfo::canInlineSchedule\(\)', 'g_can_inline'),
    ('R17', r'detail::PerPoolPerThreadInfo::isPoolRecursive\(&pool_\)', 'g_recursive'),
    ('R4', r'cost_\s*==\s*TaskCost::kHeavy', 'g_cost_heavy'),
    ('R2', r'\btrue\b', '1'), ('R2', r'\bfalse\b', '0'), ('R2', r'\bnullptr\b', '0'),
]


def opt(subs):
    return [x + ('opt',) if len(x) == 3 else x for x in subs]


def lambda_body(piece, start_regex, name):
    """the brace body of the lambda introduced by start_regex (must match once) inside piece"""
    ms = list(re.finditer(start_regex, piece.text))
    if len(ms) != 1:
        raise X.ExtractionError('%s: lambda introducer %r matched %d times' % (name, start_regex, len(ms)))
    b = piece.text.index('{', ms[0].end() - 1)
    e = X.match_balanced(piece.text, b, '{', '}')
    p = X.Piece.__new__(X.Piece)
    p.relpath, p.text = piece.relpath, piece.text[b:e]
    p.line_start = piece.line_start + piece.text.count('\n', 0, b)
    p.line_end = piece.line_start + piece.text.count('\n', 0, e)
    p.sha = hashlib.sha256(p.text.encode()).hexdigest()[:16]
    p.rules = []
    return p


WAIT = [('R7', r'outstandingTaskCount_\.load\(std::memory_order_(\w+)\)', r'A_LOAD_counter(MO_\1)'),
        ('R17', r'pool_\.tryExecuteNext(?:FromRings|FromProducerToken)?\([^()]*\)', 'G_tryExecute()'),
        ('R16', r'std::this_thread::yield\(\);', 'G_yield();'),
        ('R17', r'(?<![\w.>])testAndResetException\(\)', 'WAIT_testAndResetException()'),
        # every loop of the wait functions spins on the count or on "was there something to run": partial-correctness loop contracts
        # (the loop condition may be any expression over those; the assigns clause lists the ghosts and whichever budget variable exists)
        ('LC', r'(while\s*\((?:[^(){}]|\((?:[^(){}]|\([^(){}]*\))*\))*\))\s*\{', lambda m: m.group(1) + ' __CPROVER_assigns(g_counter, g_last_load_zero_acq, g_last_mo' +
            ''.join(', ' + v for v in ('maxToExecute', 'maxToExe') if re.search(r'\b' + v + r'\b', m.group(1))) +
            ''.join(', ' + v for v in sorted(set(re.findall(r'(?<![\w.>])([A-Za-z_]\w*)\s*=(?!=)', m.group(1))))) + ') __CPROVER_loop_invariant(' + ('maxToExe >= 0' if re.search(r'\bmaxToExe\b', m.group(1)) else '1') + ') {')]


def wait_pieces(ctx):
    r = ctx.repo
    for name, sig in (('CTS_wait', r'bool\s+ConcurrentTaskSet::wait\s*\(\s*\)'), ('TS_wait', r'bool\s+TaskSet::wait\s*\(\s*\)'),
                      ('CTS_tryWait', r'bool\s+ConcurrentTaskSet::tryWait\s*\(\s*size_t\s+maxToExecute\s*\)'), ('TS_tryWait', r'bool\s+TaskSet::tryWait\s*\(\s*size_t\s+maxToExecute\s*\)')):
        ctx.emit(name + '.body.inc', r.function(TC, sig), subs=opt(WAIT), must_fire=['R7', 'LC'], typemap={'ssize_t': 'ssize_t'})


def wait_units():
    S = 'specs/c04_cancel.c'
    return [Unit(n, 'cbmc', S, fn, loop_contracts=True, expect=[r'postcondition'], timeout=300) for n, fn in
            (('ConcurrentTaskSet::wait', 'CTS_wait'), ('TaskSet::wait', 'TS_wait'), ('ConcurrentTaskSet::tryWait', 'CTS_tryWait'), ('TaskSet::tryWait', 'TS_tryWait'))] + \
           [Unit('packageTask (count raised before the package exists)', 'cbmc', S, 'PKG_make', expect=[r'postcondition'], timeout=300)]


def build(ctx):
    r = ctx.repo
    if not re.search(r'bool\s+canceled\(\)\s*const\s*\{\s*return\s+canceled_\.load\(std::memory_order_acquire\);\s*\}', r.text(TI)):
        raise X.ExtractionError('TaskSetBase::canceled() is no longer an acquire load of canceled_')
    pk = [('R17', r'bool\s+pushed\s*=\s*\(parentTaskSet\(\)\s*!=\s*this\);', 'bool pushed = G_not_current_parent();', 1),
          ('R17', r'detail::pushThreadTaskSet\(this\);', 'G_pushThreadTaskSet();', 1), ('R17', r'detail::popThreadTaskSet\(\);', 'G_popThreadTaskSet();', 1)]
    for name, sig in (('PKG_body', r'auto\s+packageTask\s*\(\s*F&&\s+f\s*\)'), ('PKG_body_noinc', r'auto\s+packageTaskNoIncrement\s*\(\s*F&&\s+f\s*\)')):
        fn = r.function(TI, sig)
        ctx.emit(name + '.body.inc', lambda_body(fn, r'return\s*\[this,\s*f\s*=\s*std::move\(f\)\]\s*\(\)\s*mutable\s*\{', name), subs=pk + opt(COMMON), must_fire=['R13', 'R7', 'R15'])
    fn = r.function(TI, r'auto\s+packageTask\s*\(\s*F&&\s+f\s*\)')
    ctx.emit('PKG_make.slice.inc', X.slice_between(fn, r'^\{', r'return\s*\[this,', include_start=False), subs=opt(COMMON), must_fire=['R7'])
    wait_pieces(ctx)
    TSC = r'class\s+TaskSet\s*:\s*public\s+TaskSetBase\s*(?=\{)'
    CTC = r'class\s+ConcurrentTaskSet\s*:\s*public\s+TaskSetBase\s*(?=\{)'
    load = [('R17', r'taskSetLoadFactor_\s*/\s*2', 'nondet_long()', 'opt'), ('R17', r'taskSetLoadFactor_', 'nondet_long()', 'opt'),
            ('R17', r'ssize_t\s+placedThreshold\s*=\s*std::max\([^;]*\);', 'ssize_t placedThreshold = nondet_long();', 'opt'),
            ('R17', r'ssize_t\s+curWork\s*=\s*pool_\.workRemaining_\.load\(std::memory_order_\w+\);', 'ssize_t curWork = nondet_long();', 'opt'),
            ('R17', r'ssize_t\s+quickFactor\s*=\s*static_cast<ssize_t>\(static_cast<float>\(pool_\.numThreads\(\)\)\s*\*\s*poolRecursiveLoadFactor\);', 'ssize_t quickFactor = nondet_long();', 'opt'),
            ('R17', r'pool_\.poolLoadFactor_\.load\(std::memory_order_\w+\)', 'nondet_long()', 'opt'),
            ('R17', r'schedulePlaced\(std::forward<F>\(f\),\s*skipRecheck,\s*poolRecursiveLoadFactor\);', 'CTS_schedulePlaced(skipRecheck);', 'opt')]
    TM = {'ssize_t': 'ssize_t', 'float': 'float'}
    ctx.emit('TS_schedule.body.inc', r.function(TS, r'void\s+schedule\s*\(\s*F&&\s+f\s*\)', within=TSC), subs=load + opt(COMMON), must_fire=['R13', 'R17'], typemap=TM)
    ctx.emit('CTS_schedule.body.inc', r.function(TS, r'void\s+schedule\s*\(\s*F&&\s+f\s*,\s*bool\s+skipRecheck\s*=\s*false\s*,\s*float\s+poolRecursiveLoadFactor\s*=\s*kDefaultPoolRecursiveLoadFactor\s*\)', within=CTC),
             subs=load + opt(COMMON), must_fire=['R13', 'R17'], typemap=TM)
    ctx.emit('CTS_schedulePlaced.body.inc', r.function(TS, r'void\s+schedulePlaced\s*\(\s*F&&\s+f\s*,\s*bool\s+skipRecheck\s*=\s*false\s*,\s*float\s+poolRecursiveLoadFactor\s*=\s*kDefaultPoolRecursiveLoadFactor\s*\)', within=CTC),
             subs=load + opt(COMMON), must_fire=['R13', 'R17'], typemap=TM)
    bulk = [('R17', r'ssize_t\s+numPool\s*=\s*pool_\.numThreads\(\);', 'ssize_t numPool = nondet_long(); __CPROVER_assume(numPool >= 0 && numPool <= 100000);', 1),
            ('R17', r'pool_\.numRings_\.load\(std::memory_order_\w+\)', '((size_t)nondet_long())', 'opt'),
            ('R17', r'ssize_t\s+curWork\s*=\s*pool_\.workRemaining_\.load\(std::memory_order_\w+\);', 'ssize_t curWork = nondet_long();', 1),
            ('R17', r'ssize_t\s+room\s*=\s*taskSetLoadFactor_\s*-\s*outstanding;', 'ssize_t room = nondet_long();', 1),
            ('R17', r'taskSetLoadFactor_', 'nondet_long()', 'opt'),
            ('R17', r'shouldInlineBulk\(curWork,\s*numPool,\s*poolRecursiveLoadFactor\)', 'g_overloaded', 1),
            ('R13', r'invokeInline\(gen,\s*i\);', 'G_invokeInline();', 1),
            ('R17', ('call', r'pool_\.scheduleBulkToRings\s*(?=\()'), 'G_bulk_enqueue(count);', 'opt'),
            ('R17', ('call', r'pool_\.scheduleBulkEnqueue\s*(?=\()'), 'G_bulk_enqueue(toEnqueue);', 'opt'),
            ('R17', ('call', r'pool_\.scheduleBulkPlaced\s*(?=\()'), 'G_bulk_enqueue(toEnqueue);', 'opt'),
            ('R3', r'std::min\(chunkSize,\s*static_cast<size_t>\(room\)\)', '(chunkSize < ((size_t)room) ? chunkSize : ((size_t)room))', 1),
            ('R3', r'std::min\(count - i,\s*enqueueLimit\)', '((count - i) < enqueueLimit ? (count - i) : enqueueLimit)', 1),
            ('LC', r'while\s*\(i < count\)\s*\{', 'while (i < count) __CPROVER_assigns(i, g_invoked, g_bad_order, g_last_mo, g_credit, g_uncredited_handover, g_canceled, g_fresh) __CPROVER_loop_invariant(i <= count && !g_bad_order && chunkSize >= 1 && g_credit == 0 && !g_uncredited_handover && (g_canceled0 ==> (g_canceled && g_invoked == 0)) && g_invoked >= 0 && g_invoked <= (int)i) __CPROVER_decreases(count - i) {', 1)]
    # tolerance for restructured loops: any other std::min is rendered generically, integer class constants are read from the class
    # (R4), `invokeInline` may occur any number of times, and loops without a contract (inner batches) are unwound (UNW) with
    # unwinding assertions -- a bound that is too small is reported as undecided, never as a violation
    gen_min = ('R3', r'std::min\(((?:[^(),]|\([^()]*\))+),\s*((?:[^(),]|\([^()]*\))+)\)', r'MIN_size(\1, \2)', 'opt')
    bulk = [b if 'invokeInline' not in str(b[1]) else (b[0], b[1], b[2]) for b in bulk]
    for nm, sig in (('TSB_scheduleBulkImpl', r'void\s+scheduleBulkImpl\s*\(\s*size_t\s+count\s*,\s*Generator&&\s+gen\s*,\s*moodycamel::ProducerToken\*\s+token\s*,[^)]*\)'),
                    ('TSB_scheduleBulkImplPlaced', r'void\s+scheduleBulkImplPlaced\s*\(\s*size_t\s+count\s*,\s*Generator&&\s+gen\s*,[^)]*\)')):
        pc = r.function(TI, sig)
        ctx.emit(nm + '.body.inc', pc, subs=bulk + [gen_min] + X.const_subs(r, TI, pc) + opt(COMMON), must_fire=['R13', 'LC'], typemap=TM)
    fqb = [b for b in bulk if b[0] != 'LC' and 'invokeInline' not in b[1] and 'shouldInlineBulk' not in b[1] and 'room' not in str(b[1]) and 'curWork' not in str(b[1]) and 'enqueueLimit' not in str(b[1])]
    fqb = [(b[0], b[1], b[2], 'opt') for b in fqb] + [
        ('R3', r'std::min\(count - i,\s*chunkSize\)', '((count - i) < chunkSize ? (count - i) : chunkSize)', 'opt'),
        # any loop shape over i: the credit ledger must be balanced at every iteration boundary
        ('LC', r'while\s*\(i < count\)\s*\{', 'while (i < count) __CPROVER_assigns(i, g_invoked, g_bad_order, g_last_mo, g_credit, g_uncredited_handover, g_canceled, g_fresh) __CPROVER_loop_invariant(i <= count && !g_bad_order && chunkSize >= 1 && g_credit == 0 && !g_uncredited_handover && g_invoked == 0 && (g_canceled0 ==> g_canceled)) __CPROVER_decreases(count - i) {', 1)]
    ctx.emit('TSB_scheduleBulkImplForceQueue_ledger.body.inc', r.function(TI, r'void\s+scheduleBulkImplForceQueue\s*\(\s*size_t\s+count\s*,\s*Generator&&\s+gen\s*,\s*moodycamel::ProducerToken\*\s+token\s*\)'), subs=fqb + opt(COMMON), must_fire=['LC', 'R17'], typemap=TM)
    ctx.emit('TSB_cancelChildren.body.inc', r.function(TI, r'void\s+cancelChildren\s*\(\s*\)'), must_fire=['R8', 'LC'],
             subs=[('R17', r'std::lock_guard<std::mutex>\s+lk\(mtx_\);', 'G_lock();   /* held to the end of the function */', 1),
                   ('R8', r'auto\*\s+node\s*=\s*head_;', 'size_t node = 0;   /* head_ */', 1),
                   ('LC', r'while\s*\(node\)\s*\{', 'while (node < g_nchildren) __CPROVER_assigns(node, g_children_cancelled, g_child_order_bad) __CPROVER_loop_invariant(node <= g_nchildren && g_children_cancelled == node && !g_child_order_bad && g_locked) __CPROVER_decreases(g_nchildren - node) {', 1),
                   ('R8', r'node->cancel\(\);', 'G_child_cancel(node);', 1), ('R8', r'node\s*=\s*node->next_;', 'node = node + 1;   /* next_ */', 1)])
    ctx.emit('TSB_cancel.body.inc', r.function(TI, r'void\s+cancel\s*\(\s*\)', within=r'class\s+TaskSetBase\s*(?=\{)'), must_fire=['R7'],
             subs=[('R17', r'(?<![\w.>])cancelChildren\(\);', 'TSB_cancelChildren();', 'opt')] + opt(COMMON))
    ctor = r.function(TI, r'TaskSetBase\s*\(\s*ThreadPool&\s*p\s*,[^)]*\)', ctor=True)
    sl = X.slice_between(ctor, r'if\s*\(parent_\)\s*\{', r'\}\s*\}\s*$', include_end=False)
    ctx.emit('TSB_ctor_parent.slice.inc', sl, must_fire=['R17'],
             subs=[('R17', r'if\s*\(parent_\)', 'if (g_has_parent)', 1), ('R17', r'parent_->registerChild\(this\);', 'G_registerChild();', 1),
                   ('R17', r'parent_->canceled\(\)', 'G_parent_canceled()', 1), ('R10', r'$', ' }', 1)] + opt(COMMON))
    ctx.emit('TSB_testAndResetException.body.inc', r.function(TC, r'inline\s+bool\s+TaskSetBase::testAndResetException\s*\(\s*\)'), must_fire=['R7'], subs=opt(COMMON))
    S = 'specs/c04_cancel.c'
    mk = lambda n, fn, **kw: Unit(n, 'cbmc', S, fn, expect=[r'postcondition'], timeout=300, **kw)
    rp = dict(prog='replay/c04_replay.cpp', args=lambda ce, u: [])
    units = [mk('packageTask (packaged body)', 'PKG_body'), mk('packageTaskNoIncrement (packaged body)', 'PKG_body_noinc'),
             mk('TaskSet::schedule', 'TS_schedule', replace=['PKG_body'], replay=rp),
             mk('ConcurrentTaskSet::schedule', 'CTS_schedule', replace=['PKG_body', 'CTS_schedulePlaced'], replay=rp),
             mk('ConcurrentTaskSet::schedulePlaced', 'CTS_schedulePlaced', replace=['PKG_body'], replay=rp),
             mk('TaskSetBase::scheduleBulkImpl', 'TSB_scheduleBulkImpl', loop_contracts=True, replay=rp, unwind=10),
             mk('TaskSetBase::scheduleBulkImplPlaced', 'TSB_scheduleBulkImplPlaced', loop_contracts=True, replay=rp, unwind=10),
             mk('TaskSetBase::scheduleBulkImplForceQueue', 'TSB_scheduleBulkImplForceQueue', loop_contracts=True, replay=rp),
             mk('TaskSetBase::cancelChildren', 'TSB_cancelChildren', loop_contracts=True),
             mk('TaskSetBase::cancel', 'TSB_cancel', replace=['TSB_cancelChildren'], replay=rp),
             mk('TaskSetBase::TaskSetBase (parent check)', 'TSB_ctor_parent'),
             mk('TaskSetBase::testAndResetException', 'TSB_testAndResetException')]
    return units
