"""C05 -- task exceptions are captured and rethrown exactly once."""
from driver import Unit
import extract as X
import importlib.util, os, re
sp = importlib.util.spec_from_file_location('c04mod', os.path.join(os.path.dirname(__file__), 'c04.py'))
c04 = importlib.util.module_from_spec(sp)
sp.loader.exec_module(c04)

LEVEL = 'proof'
TRUSTED_BASE = ['CBMC 6.11 + cadical', 'tools/extract.py rewrite rules', 'rely/guarantee meta-theorem; the rely is specs/c05_exceptions.c others_act()',
                'C++ exception semantics rendered by a throw flag (rule R15): exact for try { single invocation } catch (...) { handler }']
ASSUMPTIONS = ['A-SC; checked discipline: the claiming CAS carries acquire, kSet / kUnset are published with release, the guard is examined with acquire',
               'single waiter: only one thread at a time calls wait()/tryWait() on a task set (two concurrent waiters could both observe kSet with a plain load and both move exception_ out; concurrent wait() on one set is not a documented use)',
               'exceptions build (__cpp_exceptions): the exceptions branch of every #if is the one rendered here',
               'a functor run inline by schedule() propagates its exception to the caller (documented; not under contract)',
               'that wait() examines the exception only after completion is the C02 wait units (same loops)']
EXPLANATION = 'guard-word protocol of trySetCurrentException / testAndResetException under interference; packaged bodies with a throwing user functor'

TI = 'dispenso/detail/task_set_impl.h'
TC = 'dispenso/task_set.cpp'
EXC = [('R15', r'(?s)#if defined\(__cpp_exceptions\)((?:(?!#else|#endif).)*?)#else(?:(?!#endif).)*?#endif[^\n]*', r'\1'),
       ('R15', r'(?s)#if defined\(__cpp_exceptions\)((?:(?!#else|#endif).)*?)#endif[^\n]*', r'\1'),
       ('R15', r'(?s)try\s*\{\s*([^{}]*?)\s*\}\s*catch\s*\(\.\.\.\)\s*\{\s*([^{}]*?)\s*\}', r'{ \1 if (g_thrown) { g_thrown = 0; \2 } }'),
       ('R15', r'(?<![\w.])throw\s*;', '{ g_thrown = 1; return; }   /* rethrow: leaves the (void) function with the exception in flight */'),
       ('R13', r'(?<![\w.>])f\(\);', 'G_invoke_f();'),
       ('R13', r'(?<![\w.>])gen\(i\)\(\);', 'G_invoke_f();'),
       ('R17', r'(?<![\w.>])trySetCurrentException\(\);', 'G_capture();'),
       ('R7', r'canceled_\.load\(std::memory_order_(\w+)\)', r'A_LOAD_canceled(MO_\1)'),
       ('R7', r'canceled_\.store\((\w+),\s*std::memory_order_(\w+)\);', r'A_STORE_canceled(\1, MO_\2);'),
       ('R7', r'outstandingTaskCount_\.fetch_sub\(1,\s*std::memory_order_(\w+)\);', r'G_counter_dec(MO_\1);'),
       ('R7', r'guardException_\.compare_exchange_strong\((\w+),\s*(\w+),\s*std::memory_order_(\w+)\)', r'A_CAS_guard(&\1, \2, MO_\3)'),
       ('R7', r'guardException_\.exchange\((\w+),\s*std::memory_order_(\w+)\)', r'A_XCHG_guard(\1, MO_\2)'),
       ('R7', r'guardException_\.store\((\w+),\s*std::memory_order_(\w+)\);', r'A_STORE_guard(\1, MO_\2);'),
       ('R7', r'guardException_\.load\(std::memory_order_(\w+)\)', r'A_LOAD_guard(MO_\1)'),
       ('R9', r'auto\s+status\s*=\s*kUnset;', 'int status = kUnset;'),
       ('R12', r'exception_\s*=\s*std::current_exception\(\);', 'G_store_current_exception();'),
       ('R12', r'auto\s+exception\s*=\s*std::move\(exception_\);', 'G_take_exception();'),
       ('R15', r'std::rethrow_exception\(exception\);', '{ g_rethrown++; return 1; }   /* leaves the function by throwing */'),
       ('R17', r'detail::InlineDepthGuard\s+depthGuard;', '/* InlineDepthGuard (C46) */'),
       ('R2', r'\btrue\b', '1'), ('R2', r'\bfalse\b', '0')]


def opt(subs):
    return [x + ('opt',) if len(x) == 3 else x for x in subs]


def build(ctx):
    r = ctx.repo
    pk = [('R17', r'bool\s+pushed\s*=\s*\(parentTaskSet\(\)\s*!=\s*this\);', 'bool pushed = G_not_current_parent();', 1),
          ('R17', r'detail::pushThreadTaskSet\(this\);', 'G_pushThreadTaskSet();', 1), ('R17', r'detail::popThreadTaskSet\(\);', 'G_popThreadTaskSet();', 1)]
    for name, sig in (('PKG_body_exc', r'auto\s+packageTask\s*\(\s*F&&\s+f\s*\)'), ('PKG_body_noinc_exc', r'auto\s+packageTaskNoIncrement\s*\(\s*F&&\s+f\s*\)')):
        fn = r.function(TI, sig)
        ctx.emit(name + '.body.inc', c04.lambda_body(fn, r'return\s*\[this,\s*f\s*=\s*std::move\(f\)\]\s*\(\)\s*mutable\s*\{', name), subs=pk + opt(EXC), must_fire=['R13', 'R7', 'R15', 'R17'])
    ctx.emit('TSB_invokeInline_exc.body.inc', r.function(TI, r'void\s+invokeInline\s*\(\s*Generator&&\s+gen\s*,\s*size_t\s+i\s*\)'), subs=opt(EXC), must_fire=['R13', 'R15', 'R17'])
    ctx.emit('TSB_trySetCurrentException.body.inc', r.function(TC, r'void\s+TaskSetBase::trySetCurrentException\s*\(\s*\)'), subs=opt(EXC), must_fire=['R7', 'R12', 'R15'])
    ctx.emit('TSB_testAndResetException.body.inc', r.function(TC, r'inline\s+bool\s+TaskSetBase::testAndResetException\s*\(\s*\)'), subs=opt(EXC), must_fire=['R7', 'R12', 'R15'])
    txt = r.text(TI) + r.text('dispenso/task_set.h')
    if not re.search(r'enum\s+ExceptionState\s*\{\s*kUnset\s*,\s*kSetting\s*,\s*kSet\s*\}', txt):
        raise X.ExtractionError('ExceptionState enum changed')
    S = 'specs/c05_exceptions.c'
    rp = dict(prog='replay/c05_replay.cpp', args=lambda ce, u: [], no_rlimit=True)
    return [Unit('TaskSetBase::trySetCurrentException', 'cbmc', S, 'TSB_trySetCurrentException', replay=rp, expect=[r'postcondition', r'A_STORE_guard\.assertion', r'G_store_current_exception\.assertion'], timeout=300),
            Unit('TaskSetBase::testAndResetException', 'cbmc', S, 'TSB_testAndResetException', replay=rp, expect=[r'postcondition', r'G_take_exception\.assertion'], timeout=300),
            Unit('packageTask (packaged body, throwing functor)', 'cbmc', S, 'PKG_body_exc', expect=[r'postcondition', r'G_counter_dec\.assertion'], timeout=300),
            Unit('packageTaskNoIncrement (packaged body, throwing functor)', 'cbmc', S, 'PKG_body_noinc_exc', expect=[r'postcondition', r'G_counter_dec\.assertion'], timeout=300),
            Unit('TaskSetBase::invokeInline (throwing generated functor)', 'cbmc', S, 'TSB_invokeInline_exc', expect=[r'postcondition'], timeout=300)]
