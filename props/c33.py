"""C33 -- ConcurrentVector concurrent growth is exact: index -> (bucket, offset) arithmetic and allocation responsibility."""
from driver import Unit
import extract as X
import re

LEVEL = 'proof'
TRUSTED_BASE = ['CBMC 6.11 + cadical', 'tools/extract.py rewrite rules', 'detail::log2 = floor(log2) (C44: bsr axiom R18 + wrapper proved)',
                'atomic RMW axiom: size_.fetch_add hands out disjoint index ranges, so every trigger index is reserved by exactly one growth']
ASSUMPTIONS = ['indices below 2^24 in the quick tier and below 2^47 (Traits::kMaxVectorSize bound) in the thorough tier; firstBucketShift_ <= 20',
               'the buffers_ table is rendered by probes whose null-test answers are arbitrary; the spin-wait for a peer\'s allocation at the end of allocAsNecessaryImpl is dropped (progress, not decided)',
               'NOT decided: element construction, iterator/reference validity, the cached-pointer table, shrink/clear, the sequential API (C32)',
               'bucket loops are bounded by the constant 64 (table size): unwound completely',
               'non-MSVC / non-ARM build: bucketAndSubIndexForIndex forwards to bucketAndSubIndex']
EXPLANATION = 'index split is the bijection onto (bucket, offset); a growth prepares bucket k iff it reserved the trigger index of bucket k-1, for all three realloc strategies'

CVH = 'dispenso/concurrent_vector.h'
CVI = 'dispenso/detail/concurrent_vector_impl.h'
LOADNULL = r'!this->buffers_\[([^\]]+)\]\.load\(std::memory_order_acquire\)'


# the empty spin `while (!buffers_[b].load(acquire)) {}`: on exit bucket b has been seen published (partial correctness; the bucket
# expression is captured as written).  Strategy tests anywhere in these functions are rendered against the STRATEGY instantiation.
SPIN = lambda m: 'G_wait_published(%s);   /* spin until published (progress: not decided) */' % re.search(LOADNULL, m.group(0)).group(1)
STRAT = [('R4', r'kStrategy\s*(==|!=)\s*ConcurrentVectorReallocStrategy::kFullBufferAhead', r'(STRATEGY \1 0)', 'opt'),
         ('R4', r'kStrategy\s*(==|!=)\s*ConcurrentVectorReallocStrategy::kHalfBufferAhead', r'(STRATEGY \1 1)', 'opt'),
         ('R4', r'kStrategy\s*(==|!=)\s*ConcurrentVectorReallocStrategy::kAsNeeded', r'(STRATEGY \1 2)', 'opt')]


def build(ctx):
    r = ctx.repo
    ctx.emit('CV_bucketAndSubIndex.body.inc', r.function(CVH, r'DISPENSO_INLINE\s+cv::BucketInfo\s+bucketAndSubIndex\s*\(\s*size_t\s+index\s*\)\s*const'), must_fire=['R17', 'R10', 'R11'],
             ret_struct='BucketInfo', typemap={'size_t': 'size_t'},
             subs=[('R17', r'detail::log2\(', 'AX_log2('), ('R11', r'(?<![\w.>])(firstBucketShift_|firstBucketLen_)\b', r'self->\1')])
    aci = r.function(CVI, r'DISPENSO_INLINE\s+static\s+size_t\s+allocCheckIndex\s*\(\s*size_t\s+bucketCapacity\s*\)')
    ctx.emit('CV_allocCheckIndex.body.inc', aci, must_fire=['R4'],
             subs=[('R4', r'kStrategy\s*==\s*ConcurrentVectorReallocStrategy::kFullBufferAhead', '(STRATEGY == 0)', 1),
                   ('R4', r'kStrategy\s*==\s*ConcurrentVectorReallocStrategy::kHalfBufferAhead', '(STRATEGY == 1)', 1)])
    one = r.function(CVI, r'void\s+allocAsNecessaryImpl\s*\(\s*const\s+BucketInfo&\s+binfo\s*,\s*CacheUpdate&&\s+cacheUpdate\s*\)')
    ctx.emit('CV_allocAsNecessary_one.body.inc', one, must_fire=['R17', 'R12'],
             subs=[('R17', r'(?<![\w.>])allocCheckIndex\(', 'CV_allocCheckIndex('),
                   ('R17', r'if\s*\(' + LOADNULL + r'\)\s*\{', r'if (G_is_null(\1) ? 1 : (g_saw_nonnull = 1, 0)) {', 1),
                   ('R12', r'T\*\s+newBuf\s*=\s*cv::alloc<T>\(([^;]*)\);', r'size_t newBuf_cap = (\1);', 1),
                   ('R12', r'cacheUpdate\(binfo\.bucket \+ 1,\s*newBuf\);', '', 1),
                   ('R12', r'this->buffers_\[([^\]]+)\]\.store\(newBuf,\s*std::memory_order_release\);', r'G_single_alloc(\1, newBuf_cap);', 1),
                   ('R12', r'shouldDealloc_\[[^\]]+\]\s*=\s*true;', '', 1),
                   ('R16', ('block', r'while\s*\(DISPENSO_EXPECT\(' + LOADNULL + r',\s*0\)\)\s*(?=\{)'), SPIN, 1)] + STRAT)
    rng = r.function(CVI, r'void\s+allocAsNecessaryImpl\s*\(\s*const\s+BucketInfo&\s+binfo\s*,\s*ssize_t\s+rangeLen\s*,\s*const\s+BucketInfo&\s+bend\s*,\s*CacheUpdate&&\s+cacheUpdate\s*\)')
    ctx.emit('CV_allocAsNecessary_range.body.inc', rng, must_fire=['R17', 'R12', 'R6'], typemap={'bool': 'bool'},
             subs=[('R5', r'\bconst\s+(?=size_t|bool)', '', 'opt'),
                   ('R17', r'(?<![\w.>])allocCheckIndex\(', 'CV_allocCheckIndex('),
                   ('R17', r'if\s*\(' + LOADNULL + r'\)\s*\{\s*sizeToAlloc\s*\+=\s*cap;\s*\}', r'if (G_size_probe(\1, cap)) { sizeToAlloc += cap; }'),
                   ('R12', r'T\*\s+allocBufs\s*=\s*nullptr;', 'size_t allocBufs = 0;', 1),
                   ('R12', r'allocBufs\s*=\s*cv::alloc<T>\(sizeToAlloc\);', 'allocBufs = G_alloc(sizeToAlloc);', 1),
                   ('R17', r'tryAssignBuffer\((\w+),\s*allocBufs,\s*(\w+),\s*firstAccounted,\s*cacheUpdate\)', r'G_assign(\1, \2)'),
                   ('R2', r'\(bool\)binfo\.bucket', '(binfo.bucket != 0)', 'opt'),
                   ('R16', ('block', r'while\s*\(DISPENSO_EXPECT\(' + LOADNULL + r',\s*0\)\)\s*(?=\{)'), SPIN, 1)] + STRAT)
    S = 'specs/c33_convec.c'
    # quick: every index below 2^24 (bucket loops <= 26 iterations); thorough: the full Traits::kMaxVectorSize bound 2^47
    IDXBITS, UNW = (24, 28) if ctx.tier == 'quick' else (47, 52)
    units = [Unit('detail::log2 (reference loop)', 'cbmc', S, 'AX_log2', defines={'STRATEGY': '0', 'IDXBITS': '47'}, unwind=66, expect=[r'postcondition'], timeout=300,
                  assumptions=['reference loop for floor(log2) bounded by the bit width 64: unwound completely'])]
    for st, nm in ((0, 'kFullBufferAhead'), (1, 'kHalfBufferAhead'), (2, 'kAsNeeded')):
        d = {'STRATEGY': str(st), 'IDXBITS': str(IDXBITS)}
        common = dict(defines=d, inst=nm, timeout=900, object_bits=10, replay=dict(prog='replay/c33_replay.cpp', args=lambda ce, u: ['40'], no_rlimit=True))
        if st == 0:
            units.append(Unit('ConcurrentVector::bucketAndSubIndex', 'cbmc', S, 'CV_bucketAndSubIndex', replace=['AX_log2'], expect=[r'postcondition'], **common))
        units.append(Unit('ConVecBuffer::allocCheckIndex', 'cbmc', S, 'CV_allocCheckIndex', expect=[r'postcondition'], **common))
        units.append(Unit('ConVecBuffer::allocAsNecessaryImpl(index)', 'cbmc', S, 'CV_allocAsNecessary_one', replace=['CV_allocCheckIndex', 'CV_bucketAndSubIndex'], expect=[r'postcondition\.2'], **common))
        units.append(Unit('ConVecBuffer::allocAsNecessaryImpl(range)', 'cbmc', S, 'CV_allocAsNecessary_range', replace=['CV_allocCheckIndex', 'CV_bucketAndSubIndex'], unwind=UNW,
                          expect=[r'postcondition\.2', r'repo-assert|assertion'], assumptions=['bucket loops bounded by the number of buckets an index below the stated bound can reach: unwound completely'], **common))
    return units
