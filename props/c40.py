"""C40 -- OpResult has optional semantics with balanced lifetimes."""
from driver import Unit
import extract as X

LEVEL = 'proof'
TRUSTED_BASE = ['CBMC 6.11 + cadical', 'tools/extract.py rewrite rules (incl. constructor member-initialisers -> assignments)',
                'ghost lifetime library ghost/lifetime.h: T is an int tag; copy/move are value copies']
ASSUMPTIONS = ['element types with throwing or self-referential copy/move are outside the proof (T is a value tag)',
               'the forwarding constructor and emplace are verified at a single argument of type T (the variadic/perfect-forwarding machinery is dropped by extraction)']
EXPLANATION = 'class invariant (engaged <=> ptr_==buf_ <=> storage holds a live object) is established by every constructor and preserved by every operation for both operands; std::optional engagement/value semantics as postconditions'

F = 'dispenso/detail/op_result.h'
CLS = r'class\s+OpResult\s*(?=\{)'
COMMON = [('R11', r'&oth\s*==\s*this', 'oth == self'),
          ('R17', r'(?<![\w.>])emplace\(std::move\(\*oth\.ptr_\)\)', 'OpResult_emplace(self, T_move_from(oth->ptr_))'),
          ('R17', r'(?<![\w.>])emplace\(\*oth\.ptr_\)', 'OpResult_emplace(self, T_read(oth->ptr_))'),
          ('R11', r'return\s+\*this\s*;', 'return self;'),
          ('R17', r'(?<![\w.>])oth\s*\?', 'OpResult_has(oth) ?'),
          ('R17', r'\bif\s*\(oth\)', 'if (OpResult_has(oth))'),
          ('R12', r'new\s*\(buf_\)\s*T\(std::move\(\*oth\.ptr_\)\)', 'T_construct_at(&self->buf_, T_move_from(oth->ptr_))'),
          ('R12', r'new\s*\(buf_\)\s*T\(\*oth\.ptr_\)', 'T_construct_at(&self->buf_, T_read(oth->ptr_))'),
          ('R12', r'\both\.ptr_->~T\(\)', 'T_destroy_at(oth->ptr_)'),
          ('R12', r'(?<![\w.>])ptr_->~T\(\)', 'T_destroy_at(self->ptr_)'),
          ('R8', r'\both\.ptr_', 'oth->ptr_', 'opt'),
          ('R11', r'(?<![\w.>])ptr_\b', 'self->ptr_', 'opt')]


def subs_for(text, extra=()):
    import re
    out = []
    for s in list(extra) + COMMON:
        if re.search(s[1], text):
            out.append(s)
    return out


def build(ctx):
    r = ctx.repo
    def emit(name, sig, extra=(), ctor=False, must=()):
        p = r.function(F, sig, within=CLS, ctor=ctor)
        ctx.emit(name + '.body.inc', p, subs=subs_for(p.text, extra), must_fire=list(must))
    emit('OpResult_ctor_default', r'OpResult\(\)\s*(?=:)', ctor=True, must=['R11'])
    emit('OpResult_ctor_value', r'OpResult\(U&&\s*u\)\s*(?=:)', ctor=True, must=['R12'],
         extra=[('R12', r'new\s*\(buf_\)\s*T\(std::forward<U>\(u\)\)', 'T_construct_at(&self->buf_, u)', 1)])
    emit('OpResult_ctor_copy', r'OpResult\(const\s+OpResult<T>&\s*oth\)\s*(?=:)', ctor=True, must=['R12', 'R17'])
    emit('OpResult_ctor_move', r'OpResult\(OpResult<T>&&\s*oth\)\s*(?=:)', ctor=True, must=['R12', 'R17', 'R8'])
    emit('OpResult_assign_copy', r'OpResult&\s+operator=\(const\s+OpResult&\s*oth\)', must=['R17', 'R11'])
    emit('OpResult_assign_move', r'OpResult&\s+operator=\(OpResult&&\s*oth\)', must=['R17', 'R11'])
    emit('OpResult_dtor', r'~OpResult\(\)', must=['R12'])
    emit('OpResult_emplace', r'T&\s+emplace\(Args&&\.\.\.\s*args\)', must=['R12'],
         extra=[('R12', r'new\s*\(buf_\)\s*T\(std::forward<Args>\(args\)\.\.\.\)', 'T_construct_at(&self->buf_, args)', 1),
                ('R8', r'return\s+\*ptr_\s*;', 'return self->ptr_;', 1)])
    emit('OpResult_has_value', r'bool\s+has_value\(\)\s*const', must=['R11'])
    emit('OpResult_bool', r'operator\s+bool\(\)\s*const', must=['R11'])
    emit('OpResult_value', r'T&\s+value\(\)', extra=[('R8', r'return\s+\*ptr_\s*;', 'return self->ptr_;', 1)])
    S = 'specs/c40_opresult.c'
    rp = lambda kind: dict(prog='replay/c40_replay.cpp', args=lambda ce, u, kind=kind: [kind])
    units = []
    for fn, kind in (('OpResult_ctor_default', None), ('OpResult_ctor_value', None), ('OpResult_ctor_copy', 'copy_ctor'), ('OpResult_ctor_move', 'move_ctor'),
                     ('OpResult_assign_copy', 'copy_assign'), ('OpResult_assign_move', 'move_assign'), ('OpResult_dtor', 'dtor'), ('OpResult_emplace', 'emplace'),
                     ('OpResult_has_value', None), ('OpResult_bool', None), ('OpResult_value', None)):
        units.append(Unit(fn.replace('OpResult_', 'OpResult::'), 'cbmc', S, fn, expect=[r'postcondition'], replay=rp(kind) if kind else None, timeout=120,
                          replace=['OpResult_emplace'] if 'assign' in fn else []))
    return units
