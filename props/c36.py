"""C36 -- ChaseLevDeque delivers each element exactly once (rely/guarantee under A-SC, one owner + any number of thieves)."""
from driver import Unit
import extract as X
import re

LEVEL = 'proof'
TRUSTED_BASE = ['CBMC 6.11 + cadical', 'tools/extract.py rewrite rules',
                'rely/guarantee meta-theorem; the relies of the two roles are specs/c36_chaselev.c thieves_act()/owner_acts(); the closure obligation (a CAS on top_ is justified by a bottom_ value published since top_ took its value) is asserted at every CAS',
                'atomic RMW axiom: a position is taken through top_ by exactly one successful compare_exchange']
ASSUMPTIONS = ['A-SC: atomics sequentially consistent; the proof does not decide orderings weaker than SC beyond the checked discipline (seq_cst fence between the owner\'s lowering store of bottom_ and its load of top_, and between a thief\'s loads of top_ and bottom_; release on the publishing store; seq_cst CASes; acquire on the thief\'s loads)',
               'positions below 2^60 (no wrap of the 64-bit counters); capacities 2 and 4 (quick), 2, 4, 16 (thorough): slot loops of the interference step are bounded by the constant Capacity and unwound completely',
               'the element type is an int (the class requires a trivially copyable T; memcpy of sizeof(T) bytes is a value copy)',
               'single owner as documented: push/pop are never called concurrently with each other']
EXPLANATION = 'owner and thief operations under interference; the CAS-free owner pop is justified by the history ghost g_bsince; quiescent success conditions exact'

F = 'dispenso/chase_lev_deque.h'
CLS = r'class\s+ChaseLevDeque\s*(?=\{)'
COMMON = [('R5', r'\bconst\s+(?=int64_t)', ''),
          ('R7', r'top_\.load\(std::memory_order_(\w+)\)', r'A_LOAD_top(self, MO_\1)'),
          ('R7', r'bottom_\.load\(std::memory_order_(\w+)\)', r'A_LOAD_bottom(self, MO_\1)'),
          ('R7', r'std::atomic_thread_fence\(std::memory_order_(\w+)\);', r'A_FENCE(MO_\1);'),
          ('R7', r'top_\.compare_exchange_strong\(\s*(\w+),\s*([^,]+?),\s*std::memory_order_(\w+),\s*std::memory_order_(\w+)\)', r'A_CAS_top(self, &\1, \2, MO_\3, MO_\4)'),
          ('R12', r'alignas\(T\)\s+char\s+tmp\[sizeof\(T\)\];', 'T_tag tmp;'),
          ('R12', r'std::memcpy\(tmp,\s*slotPtr\((\w+)\),\s*sizeof\(T\)\);', r'tmp = *slotPtr(self, \1);'),
          ('R12', r'std::memcpy\(storage,\s*tmp,\s*sizeof\(T\)\);', '*storage = tmp;'),
          ('R12', r'std::memcpy\(storage,\s*slotPtr\((\w+)\),\s*sizeof\(T\)\);', r'*storage = *slotPtr(self, \1);'),
          ('R17', r'(?<![\w.>])slotPtr\((\w+)\)', r'slotPtr(self, \1)'),
          ('R8', r'(?<![\w.>*&])out\s*=\s*\*', '*out = *'),
          ('R2', r'\btrue\b', '1'), ('R2', r'\bfalse\b', '0')]


def opt(subs):
    return [x + ('opt',) if len(x) == 3 else x for x in subs]


def build(ctx):
    r = ctx.repo
    txt = r.text(F)
    if not re.search(r'static_assert\(\(Capacity & \(Capacity - 1\)\) == 0', txt) or not re.search(r'static\s+constexpr\s+size_t\s+kMask\s*=\s*Capacity\s*-\s*1\s*;', txt):
        raise X.ExtractionError('ChaseLevDeque: power-of-two static_assert / kMask changed')
    sp = r.function(F, r'T\*\s+slotPtr\s*\(\s*int64_t\s+index\s*\)', within=CLS)
    ctx.emit('CL_slotIndex.body.inc', sp, must_fire=['R17'],
             subs=[('R17', r'return\s+reinterpret_cast<T\*>\(&storage_\[\((.*?)\)\s*\*\s*sizeof\(T\)\]\);', r'return (\1);   /* element index: byte offset / sizeof(T) */', 1)], typemap={'size_t': 'size_t'})
    def em(name, sig, extra, must=('R7',)):
        pc = r.function(F, sig, within=CLS)
        X.inline_helpers(r, F, pc, within=CLS, exclude={'slotPtr', 'T'})
        ctx.emit(name + '.body.inc', pc, subs=list(extra) + opt(COMMON), must_fire=list(must), typemap={'int64_t': 'int64_t', 'size_type': 'size_t'})
    push_st = [('R7', r'bottom_\.store\(([^;]*?),\s*std::memory_order_(\w+)\);', r'A_STORE_bottom(self, \1, MO_\2, 1, 0);')]
    pop_st = [('R7', r'bottom_\.store\(b,\s*std::memory_order_(\w+)\);', r'A_STORE_bottom(self, b, MO_\1, 0, 1);   /* the lowering store */', 1),
              ('R7', r'bottom_\.store\(([^;]*?),\s*std::memory_order_(\w+)\);', r'A_STORE_bottom(self, \1, MO_\2, 0, 0);')]
    em('CL_try_push', r'bool\s+try_push\s*\(\s*const\s+T&\s+item\s*\)', push_st, must=('R7', 'R17'))
    em('CL_try_pop', r'bool\s+try_pop\s*\(\s*T&\s+out\s*\)', pop_st, must=('R7', 'R17'))
    em('CL_try_pop_into', r'bool\s+try_pop_into\s*\(\s*T\*\s+storage\s*\)', pop_st, must=('R7', 'R12'))
    em('CL_try_steal', r'bool\s+try_steal\s*\(\s*T&\s+out\s*\)', [], must=('R7', 'R17'))
    em('CL_try_steal_into', r'bool\s+try_steal_into\s*\(\s*T\*\s+storage\s*\)', [], must=('R7', 'R12'))
    em('CL_empty', r'bool\s+empty\s*\(\s*\)\s*const', [])
    em('CL_size', r'size_type\s+size\s*\(\s*\)\s*const', [], must=('R7', 'R2'))
    S = 'specs/c36_chaselev.c'
    units = []
    for cap in ([2, 4] if ctx.tier == 'quick' else [2, 4, 16]):
        d = {'KCAP': str(cap)}
        common = dict(defines=d, inst='Capacity=%d' % cap, timeout=1500, unwind=cap + 2, replace=['slotIndex'],
                      replay=dict(prog='replay/c36_replay.cpp', args=lambda ce, u: ['6'], no_rlimit=True))
        units.append(Unit('ChaseLevDeque::slotPtr (index)', 'cbmc', S, 'slotIndex', defines=d, inst='Capacity=%d' % cap, expect=[r'postcondition']))
        for fn in ('CL_try_push', 'CL_try_pop', 'CL_try_pop_into', 'CL_try_steal', 'CL_try_steal_into'):
            units.append(Unit('ChaseLevDeque::' + fn[3:], 'cbmc', S, fn, expect=[r'postcondition\.6'] + ([r'A_CAS_top\.assertion'] if fn != 'CL_try_push' else []), **common))
        for fn in ('CL_empty', 'CL_size'):
            units.append(Unit('ChaseLevDeque::' + fn[3:], 'cbmc', S, fn, expect=[r'postcondition'], **common))
    return units
