"""C35 -- SPSCRingBuffer is an exactly-once bounded FIFO (rely/guarantee, one producer + one consumer)."""
from driver import Unit, REPO
import extract as X
import subprocess, os, re

LEVEL = 'proof'
TRUSTED_BASE = ['CBMC 6.11 + cadical', 'tools/extract.py rewrite rules', 'rely/guarantee meta-theorem; the rely of each role is written in specs/c35_spsc.c others_act()',
                'ghost lifetime library (T is an int tag)']
ASSUMPTIONS = ['A-SC; checked memory-order discipline: loads of the other role\'s index are acquire, index publications are release',
               'verified at the buffer sizes of SPSCRingBuffer<int,1|2|3|15,true> and <int,2|5,false> (kBufferSize in {2,4,16} power-of-two and {3,6} exact); head_/tail_ fully symbolic',
               'storage_ bytes are rendered as a slot array (elementAt(i) = &slots[i]); alignment of storage_ is alignas(T) in the source and not re-verified',
               'FIFO order and exactly-once follow from the slot-lifetime invariant + index discipline proved here; the abstract sequence itself is not carried as ghost state',
               'batch iterators are rendered as indices into arrays; the OpResult returned by try_pop() is rendered as storage + engaged flag (its own protocol is C40)']
EXPLANATION = 'slot k is live <=> k in cyclic [head,tail) is preserved by every operation under arbitrary interference of the other role'

F = 'dispenso/spsc_ring_buffer.h'
CLS = r'class\s+SPSCRingBuffer\s*(?=\{)'
LH = ('R7', r'head_\.load\(std::memory_order_(\w+)\)', r'LOAD_HEAD(MO_\1)')
LT = ('R7', r'tail_\.load\(std::memory_order_(\w+)\)', r'LOAD_TAIL(MO_\1)')
SH = ('R7', r'head_\.store\((.*?),\s*std::memory_order_(\w+)\);', r'A_STORE_idx(&self->head_, \1, MO_\2);')
ST = ('R7', r'tail_\.store\((.*?),\s*std::memory_order_(\w+)\);', r'A_STORE_idx(&self->tail_, \1, MO_\2);')


def probe(ctx, cap, roundup):
    src = os.path.join(ctx.scratch, 'spsc_probe_%d_%d.cpp' % (cap, roundup))
    open(src, 'w').write('#include <dispenso/spsc_ring_buffer.h>\n#include <cstdio>\nint main(){printf("%%zu", dispenso::SPSCRingBuffer<int,%d,%s>::capacity()+1);}\n' % (cap, 'true' if roundup else 'false'))
    exe = src[:-4] + '.out'
    p = subprocess.run(['g++', '-std=c++14', '-I', REPO, '-I', os.path.join(REPO, 'dispenso/third-party'), src, '-o', exe], capture_output=True, text=True)
    if p.returncode != 0:
        raise X.ExtractionError('SPSC probe failed: ' + p.stderr[-300:])
    return int(subprocess.run([exe], capture_output=True, text=True).stdout)


# element accesses: every placement-new / move-out / destructor on ring storage is rendered through S_* accessors that assert, at
# the access itself, that the slot belongs to this role right now (consumer: published and not yet released; producer: free)
ELEM = [('R9', r'T\*\s+elem\s*=\s*elementAt\((\w+)\);', r'T_cell* elem = elementAt(self, \1);'),
        ('R12', r'new\s*\(elementAt\((\w+)\)\)\s*T\(std::move\(item\)\);', r'S_construct_at(self, elementAt(self, \1), T_move_from(item));'),
        ('R12', r'new\s*\(elementAt\((\w+)\)\)\s*T\(item\);', r'S_construct_at(self, elementAt(self, \1), T_read(item));'),
        ('R12', r'new\s*\(elementAt\((\w+)\)\)\s*T\(std::forward<Args>\(args\)\.\.\.\);', r'S_construct_at(self, elementAt(self, \1), args);'),
        ('R12', r'new\s*\(elementAt\((\w+)\)\)\s*T\(std::move\(\*first\)\);', r'S_construct_at(self, elementAt(self, \1), T_move_from(&src[first]));'),
        ('R12', r'new\s*\(storage\)\s*T\(std::move\(\*elementAt\((\w+)\)\)\);', r'T_construct_at(storage, S_move_from(self, elementAt(self, \1)));'),
        ('R12', r'new\s*\(storage\)\s*T\(std::move\(\*elem\)\);', 'T_construct_at(storage, S_move_from(self, elem));'),
        ('R12', r'\*dest\s*=\s*std::move\(\*elementAt\((\w+)\)\);', r'dst[dest].value = S_move_from(self, elementAt(self, \1));'),
        ('R12', r'\*dest\s*=\s*std::move\(\*elem\);', 'dst[dest].value = S_move_from(self, elem);'),
        ('R12', r'(?<![\w.>*])item\s*=\s*std::move\(\*elementAt\((\w+)\)\);', r'item->value = S_move_from(self, elementAt(self, \1));'),
        ('R12', r'(?<![\w.>*])item\s*=\s*std::move\(\*elem\);', 'item->value = S_move_from(self, elem);'),
        ('R12', r'elementAt\((\w+)\)->~T\(\);', r'S_destroy_at(self, elementAt(self, \1));'),
        ('R12', r'elem->~T\(\);', 'S_destroy_at(self, elem);'),
        ('R3', r'std::min\(available,\s*maxCount\)', 'MIN_auto(available, maxCount)')]


def opt(subs):
    return [x + ('opt',) if len(x) == 3 else x for x in subs]


def build(ctx):
    r = ctx.repo
    ctx.emit('increment.body.inc', r.function(F, r'static\s+constexpr\s+size_t\s+increment\s*\(\s*size_t\s+index\s*\)\s*noexcept', within=CLS))
    def em(name, sig, must=('R7', 'R12')):
        pc = r.function(F, sig, within=CLS)
        X.inline_helpers(r, F, pc, within=CLS, exclude={'elementAt', 'increment', 'T'})
        ctx.emit(name + '.body.inc', pc, must_fire=list(must), subs=opt([LH, LT, SH, ST]) + opt(ELEM) + [('R1', r'(?<![\w.>:])Capacity\b', '((size_t)KCAPACITY)', 'opt')])
    em('Ring_try_push_move', r'bool\s+try_push\s*\(\s*T&&\s*item\s*\)')
    em('Ring_try_push_copy', r'bool\s+try_push\s*\(\s*const\s+T&\s*item\s*\)')
    em('Ring_try_emplace', r'bool\s+try_emplace\s*\(\s*Args&&\.\.\.\s*args\s*\)')
    em('Ring_try_pop_ref', r'bool\s+try_pop\s*\(\s*T&\s*item\s*\)')
    pc = r.function(F, r'OpResult<T>\s+try_pop\s*\(\s*\)', within=CLS)
    X.inline_helpers(r, F, pc, within=CLS, exclude={'elementAt', 'increment', 'T'})
    ctx.emit('Ring_try_pop_opt.body.inc', pc, must_fire=['R7', 'R12'], subs=[('R12', r'OpResult<T>\s+result\(std::move\(\*elem\)\);', 'OpResult result = OpResult_from(S_move_from(self, elem));', 'opt'),
        ('R12', r'OpResult<T>\s+result\(std::move\(\*elementAt\((\w+)\)\)\);', r'OpResult result = OpResult_from(S_move_from(self, elementAt(self, \1)));', 'opt'),
        ('R10', r'return\s*\{\s*\};', 'return OpResult_empty();', 'opt')] + opt([LH, LT, SH, ST]) + opt(ELEM))
    em('Ring_try_pop_into', r'bool\s+try_pop_into\s*\(\s*T\*\s*storage\s*\)')
    em('Ring_try_push_batch', r'size_type\s+try_push_batch\s*\(\s*InputIt\s+first\s*,\s*InputIt\s+last\s*\)')
    em('Ring_try_pop_batch', r'size_type\s+try_pop_batch\s*\(\s*OutputIt\s+dest\s*,\s*size_type\s+maxCount\s*\)', must=('R7', 'R12', 'R3'))
    em('Ring_empty', r'bool\s+empty\s*\(\s*\)\s*const', must=('R7',))
    em('Ring_full', r'bool\s+full\s*\(\s*\)\s*const', must=('R7',))
    em('Ring_size', r'size_type\s+size\s*\(\s*\)\s*const', must=('R7',))
    em('Ring_dtor', r'~SPSCRingBuffer\s*\(\s*\)')
    S = 'specs/c35_spsc.c'
    units = []
    insts = [(1, True), (2, False), (3, True)] if ctx.tier == 'quick' else [(1, True), (2, False), (3, True), (5, False), (15, True)]
    for cap, ru in insts:
        kb = probe(ctx, cap, ru)
        d = {'KBUF': str(kb), 'KPOW2': '1' if (kb & (kb - 1)) == 0 else '0', 'KCAPACITY': str(cap)}
        inst = 'Capacity=%d,RoundUp=%s,kBufferSize=%d' % (cap, ru, kb)
        common = dict(defines=d, inst=inst, timeout=600, unwind=kb + 4, replay=dict(prog='replay/c35_replay.cpp', args=lambda ce, u: ['5'], no_rlimit=True),
                      assumptions=['slot loops of the interference step, harness and destructor are bounded by the constant kBufferSize: unwound completely'])
        units.append(Unit('increment', 'cbmc', S, 'increment', expect=[r'postcondition'], defines=d, inst=inst))
        for fn in ('Ring_try_push_move', 'Ring_try_push_copy', 'Ring_try_emplace', 'Ring_try_pop_ref', 'Ring_try_pop_opt', 'Ring_try_pop_into', 'Ring_try_push_batch', 'Ring_try_pop_batch'):
            units.append(Unit(fn.replace('Ring_', 'SPSC.'), 'cbmc', S, fn, expect=[r'postcondition\.3', r'own_check\.assertion'], **common))   # (a dropped construction/destruction must fail the count postcondition, not the vacuity guard)
        for fn in ('Ring_empty', 'Ring_full', 'Ring_size', 'Ring_dtor'):
            units.append(Unit(fn.replace('Ring_', 'SPSC.'), 'cbmc', S, fn, expect=[r'postcondition'], **common))
    return units
