"""C22 -- RWLock mutual exclusion (rely/guarantee on the lock word)."""
from driver import Unit
import extract as X
import re

LEVEL = 'proof'
TRUSTED_BASE = ['CBMC 6.11 + cadical', 'tools/extract.py rewrite rules', 'rely/guarantee meta-theorem; the rely is specs/c22_rwlock.c others_act()',
                'CompletionEventImpl::wait returns only after an acquire load of the completed value (proved under C21)']
ASSUMPTIONS = ['A-SC; checked discipline: the claiming fetch_or / registering fetch_add carry acquire, the releasing fetch_and / fetch_sub carry release',
               'fewer than 1000 concurrent readers/transient increments (no overflow of the 31-bit count)',
               'single upgrader, as documented for lock_upgrade',
               'progress ("a blocked locker always proceeds") is NOT decided beyond the local wake obligation: the reader release that drops the count to zero under a set writer bit calls tryNotify']
EXPLANATION = 'every RWLockImpl method verified under arbitrary protocol-conforming interference; ghost decomposition of the lock word'

F = 'dispenso/detail/rw_lock_impl.h'
W = [('R7', r'lockWord\(\)\.fetch_or\((\w+),\s*std::memory_order_(\w+)\)', r'A_FETCH_OR(&self->word, \1, MO_\2)'),
     ('R7', r'lockWord\(\)\.fetch_and\((\w+),\s*std::memory_order_(\w+)\)', r'A_FETCH_AND(&self->word, \1, MO_\2)'),
     ('R7', r'lockWord\(\)\.fetch_add\((\w+),\s*std::memory_order_(\w+)\)', r'A_FETCH_ADD(&self->word, \1, MO_\2)'),
     ('R7', r'lockWord\(\)\.fetch_sub\((\w+),\s*std::memory_order_(\w+)\)', r'A_FETCH_SUB(&self->word, \1, MO_\2)'),
     ('R7', r'lockWord\(\)\.load\(std::memory_order_(\w+)\)', r'A_LOAD(&self->word, MO_\1)'),
     ('R7', r'lockWord\(\)\.store\((\w+),\s*std::memory_order_(\w+)\)', r'A_STORE(&self->word, \1, MO_\2)'),
     ('R16', r'std::this_thread::yield\(\);', 'G_yield();'),
     ('R16', r'(?<![\w.])cpuRelax\(\);', 'G_cpuRelax();'),
     ('R17', r'event_\.wait\(kWriteBit\);', 'G_event_wait(self, kWriteBit);'),
     ('R17', r'event_\.tryNotify\(\);', 'G_event_tryNotify(self);'),
     ('R17', r'(?<![\w.>])(setWriteBit|waitForReaderDrain|readerRelease|unlock)\(\);', r'RW_\1(self);')]
LC_SPIN = ' __CPROVER_assigns(val, spin, *self, g_viol, g_bad_order, g_wakes, g_need_wake, g_last_mo) '


def opt(subs):
    return [s + ('opt',) if len(s) == 3 else s for s in subs]


def emit_all(ctx):
    r = ctx.repo
    consts = r.text(F)
    m1 = re.search(r'static\s+constexpr\s+int\s+kTryLockDrainSpins\s*=\s*(\d+)\s*;', consts)
    m2 = re.search(r'static\s+constexpr\s+int\s+kSpinBeforeYield\s*=\s*(\d+)\s*;', consts)
    if not m1 or not m2 or not re.search(r'kWriteBit\s*=\s*std::numeric_limits<int>::min\(\)', consts) or not re.search(r'kReaderBits\s*=\s*std::numeric_limits<int>::max\(\)', consts):
        raise X.ExtractionError('RWLockImpl constants changed')
    d = {'KDRAINSPINS': m1.group(1), 'KSPINYIELD': m2.group(1)}
    def em(name, sig, extra=(), within=None):
        p = r.function(F, sig, within=within)
        ctx.emit(name + '.body.inc', p, subs=opt(W) + list(extra), drop=[])
    em('RW_readerRelease', r'void\s+readerRelease\s*\(\s*\)', within=r'class\s+RWLockImpl\s*(?=\{)')
    em('RW_setWriteBit', r'inline\s+void\s+RWLockImpl::setWriteBit\s*\(\s*\)',
       extra=[('LC', r'(for\s*\(int spin = 0; val & kWriteBit; \+\+spin\))\s*\{', r'\1' + LC_SPIN +
               '__CPROVER_loop_invariant(WORD_OK && EXCL_INV && !g_viol && !g_bad_order && !g_need_wake && g_mine_count == __CPROVER_loop_entry(g_mine_count) && g_hold_read_mine == __CPROVER_loop_entry(g_hold_read_mine) && (g_bit_mine == !(val & kWriteBit)) && spin >= 0 && spin <= kSpinBeforeYield) {', 1)])
    em('RW_tryWriteBit', r'inline\s+bool\s+RWLockImpl::tryWriteBit\s*\(\s*\)')
    em('RW_waitForReaderDrain', r'inline\s+void\s+RWLockImpl::waitForReaderDrain\s*\(\s*\)')
    em('RW_lock', r'inline\s+void\s+RWLockImpl::lock\s*\(\s*\)')
    em('RW_try_lock', r'inline\s+bool\s+RWLockImpl::try_lock\s*\(\s*\)')
    em('RW_unlock', r'inline\s+void\s+RWLockImpl::unlock\s*\(\s*\)')
    em('RW_lock_shared', r'inline\s+void\s+RWLockImpl::lock_shared\s*\(\s*\)',
       extra=[('LC', r'(while\s*\(val & kWriteBit\))\s*\{\s*RW_readerRelease', r'\1' + LC_SPIN.replace('val, spin,', 'val,') +
               '__CPROVER_loop_invariant(WORD_OK && EXCL_INV && !g_viol && !g_bad_order && !g_need_wake && !g_bit_mine && g_mine_count == 1 && ((val & kWriteBit) || (g_hold_read_mine && !g_excl_other))) { RW_readerRelease', 'opt'),   # (if the retry loop is not there, nothing is injected and the postcondition decides)
              ('LC', r'(for\s*\(int spin = 0; val & kWriteBit; \+\+spin\))\s*\{', r'\1' + LC_SPIN +
               '__CPROVER_loop_invariant(WORD_OK && EXCL_INV && !g_viol && !g_bad_order && !g_need_wake && !g_bit_mine && g_mine_count == 0 && !g_hold_read_mine && spin >= 0 && spin <= kSpinBeforeYield) {', 1)])
    em('RW_try_lock_shared', r'inline\s+bool\s+RWLockImpl::try_lock_shared\s*\(\s*\)')
    em('RW_unlock_shared', r'inline\s+void\s+RWLockImpl::unlock_shared\s*\(\s*\)')
    em('RW_lock_upgrade', r'inline\s+void\s+RWLockImpl::lock_upgrade\s*\(\s*\)')
    em('RW_lock_downgrade', r'inline\s+void\s+RWLockImpl::lock_downgrade\s*\(\s*\)')
    return d, m1


def build(ctx):
    d, m1 = emit_all(ctx)
    S = 'specs/c22_rwlock.c'
    units = []
    for fn, rep, loops, unw in (('RW_readerRelease', [], False, None), ('RW_setWriteBit', [], True, None), ('RW_tryWriteBit', [], False, None), ('RW_waitForReaderDrain', [], False, None),
                                ('RW_lock', ['RW_setWriteBit', 'RW_waitForReaderDrain'], False, None), ('RW_try_lock', [], False, int(m1.group(1)) + 2),
                                ('RW_unlock', [], False, None), ('RW_lock_shared', ['RW_readerRelease'], True, None), ('RW_try_lock_shared', ['RW_readerRelease'], False, None),
                                ('RW_unlock_shared', ['RW_readerRelease'], False, None), ('RW_lock_upgrade', ['RW_setWriteBit', 'RW_waitForReaderDrain'], False, None),
                                ('RW_lock_downgrade', ['RW_unlock'], False, None)):
        units.append(Unit(fn.replace('RW_', 'RWLockImpl::'), 'cbmc', S, fn, defines=d, replace=rep, loop_contracts=loops, unwind=unw, expect=[r'postcondition'], timeout=600, replay=dict(prog='replay/c22_replay.cpp', args=lambda ce, u: ['rw', '6'], no_rlimit=True),
                          assumptions=['try_lock drain loop bounded by the constant kTryLockDrainSpins: unwound completely'] if unw else []))
    return units
