"""C12 -- parallel_for covers each index exactly once (arithmetic core)."""
from driver import Unit
import extract as X
import importlib.util, os
_spec = importlib.util.spec_from_file_location('c17mod', os.path.join(os.path.dirname(__file__), 'c17.py'))
c17 = importlib.util.module_from_spec(_spec)
_spec.loader.exec_module(c17)

LEVEL = 'proof'
TRUSTED_BASE = c17.TRUSTED_BASE + ['atomic RMW axiom: fetch_add returns each claim index exactly once (distinctness of claim indices)']
ASSUMPTIONS = ['range size <= INT64_MAX (documented in ChunkedRange); dynamic path: range size <= 2^62 so that size + roughChunks - 1 is representable',
               'that every scheduled worker runs exactly once and has returned at wait() is C01/C02, not decided here',
               'calcChunkSize verified at OtherInt = size_type']
EXPLANATION = 'set of ranges the code can hand to the body is a partition of [start,end): static mapper (C17 units), dynamic chunk rule, sizing arithmetic'

PF = 'dispenso/parallel_for.h'
PD = 'dispenso/detail/par_for_dynamic.h'
CR = r'struct\s+ChunkedRange\s*(?=\{)'


def sizing_pieces(ctx):
    r = ctx.repo
    cr = r.function(PF, CR)
    ctx.emit('ChunkedRange.fields.inc', X.slice_between(cr, r'IntegerT\s+start\s*;', r'IntegerT\s+chunk\s*;', include_end=True))
    mem = [('R11', r'(?<![\w.>])(start|end|chunk)\b', r'self->\1')]
    ctx.emit('ChunkedRange_size.body.inc', r.function(PF, r'size_type\s+size\s*\(\s*\)\s*const', within=CR), must_fire=['R2', 'R11'], subs=mem)
    ctx.emit('ChunkedRange_isAuto.body.inc', r.function(PF, r'bool\s+isAuto\s*\(\s*\)\s*const', within=CR), subs=mem)
    ctx.emit('ChunkedRange_isStatic.body.inc', r.function(PF, r'bool\s+isStatic\s*\(\s*\)\s*const', within=CR),
             subs=mem + [('R4', r'\bkStatic\b', 'IT_MAX', 1)])
    ctx.emit('GranularityInfo.fields.inc', r.function(PF, r'struct\s+GranularityInfo\s*(?=\{)'))
    ctx.emit('computeGranularity.body.inc', r.function(PF, r'GranularityInfo<IntegerT>\s+computeGranularity\s*\([^)]*\)'),
             must_fire=['R2', 'R3', 'R10', 'R17', 'R1'],
             subs=[('R1', r'using\s+size_type\s*=[^;]*;', '', 1),
                   ('R4', r'ChunkedRange<IntegerT>::kStatic', 'IT_MAX', 1),
                   ('R17', r'range\.size\(\)', 'ChunkedRange_size(range)'),
                   ('R8', r'\brange\.(?=\w)', 'range->'),
                   ('R10', r'return\s*\{\s*granularity\s*,\s*trimmedEnd\s*,\s*hasTail\s*\}\s*;', 'return (GranularityInfo){granularity, trimmedEnd, hasTail};', 1)])
    ctx.emit('adjustChunkSizing.body.inc', r.function(PF, r'ChunkSizingResult<IntegerT>\s+adjustChunkSizing\s*\([^{]*?bool\s+wait\s*\)'),
             must_fire=['R3', 'R10', 'R17', 'R1'],
             subs=[('R1', r'using\s+size_type\s*=[^;]*;', '', 1),
                   ('R17', r'range\.size\(\)', 'ChunkedRange_size(range)'),
                   ('R17', r'range\.isAuto\(\)', 'ChunkedRange_isAuto(range)'),
                   ('R17', r'range\.isStatic\(\)', 'ChunkedRange_isStatic(range)', 1),
                   ('R10', r'return\s*\{\s*maxThreads\s*,\s*isStatic\s*\}\s*;', 'return (ChunkSizingResult){maxThreads, isStatic};', 1)])
    ctx.emit('ChunkedRange_calcChunkSize.body.inc', r.function(PF, r'calcChunkSize\s*\([^)]*\)\s*const', within=CR), ret_struct='Tuple2',
             must_fire=['R2', 'R3', 'R6', 'R10', 'R11', 'R17', 'LC'],
             subs=[('R17', r'(?<![\w.>])size\(\)', 'ChunkedRange_size(self)'),
                   ('R4', r'\bkStatic\b', 'IT_MAX', 1),
                   ('R11', r'(?<![\w.>])chunk\b', 'self->chunk'),
                   ('R13', r'std::abort\(\);', '__CPROVER_assert(0, "abort() reached"); __CPROVER_assume(0);', 1),
                   ('LC', r'while\s*\(chunkSize < minChunkSize\)\s*;',
                    'while (chunkSize < minChunkSize) __CPROVER_loop_invariant(dynFactor >= 1 && (mathint)dynFactor <= 64 && (mathint)dynFactor * (mathint)workingThreads <= SIZE(self)) __CPROVER_decreases(dynFactor);', 1)])
    # dynamic worker chunk rule (single-group lambda and multi-group lambda)
    impl = r.function(PD, r'void\s+parallel_for_dynamicImpl\s*\([^{]*?bool\s+wait\s*\)')
    sl = X.slice_between(impl, r'auto\s+sidx\s*=\s*static_cast<IntegerT>\(start \+ cur \* chunkSize\);', r'f\(s, sidx, static_cast<IntegerT>\(sidx \+ chunkSize\)\);\s*\}', include_end=True)
    ctx.emit('dyn_single_chunk.slice.inc', sl, must_fire=['R2', 'R9', 'R13'],
             subs=[('R9', r'auto\s+sidx\s*=', 'IntegerT sidx =', 1),
                   ('R13', r'f\(s, sidx, end\);', 'return (PairII){sidx, end};', 1),
                   ('R13', r'f\(s, sidx, (static_cast<IntegerT>\(sidx \+ chunkSize\))\);', r'return (PairII){sidx, \1};', 1)])
    mg = r.function(PD, r'void\s+parallel_for_dynamicMultiGroupImpl\s*\([^{]*?size_t\s+totalWorkers\s*\)')
    sl = X.slice_between(mg, r'auto\s+globalChunk\s*=', r'f\(s, sidx, static_cast<IntegerT>\(sidx \+ chunkSize\)\);\s*\}', include_end=True)
    ctx.emit('dyn_multi_chunk.slice.inc', sl, must_fire=['R2', 'R9', 'R13'],
             subs=[('R9', r'auto\s+globalChunk\s*=\s*static_cast<typename ChunkedRange<IntegerT>::size_type>\(gr\.startChunk \+ cur\);', 'size_type globalChunk = ((size_type)(gr_startChunk + cur));', 1),
                   ('R9', r'auto\s+sidx\s*=', 'IntegerT sidx =', 1),
                   ('R13', r'f\(s, sidx, end\);', 'return (PairII){sidx, end};', 1),
                   ('R13', r'f\(s, sidx, (static_cast<IntegerT>\(sidx \+ chunkSize\))\);', r'return (PairII){sidx, \1};', 1)])


PS = 'dispenso/detail/par_for_stripe.h'


def stripe_pieces(ctx):
    r = ctx.repo
    ctx.emit('alignDownStripe.body.inc', r.function(PS, r'inline\s+IntegerT\s+alignDownStripe\s*\(\s*IntegerT\s+value\s*,\s*uint32_t\s+granularity\s*\)'),
             must_fire=['R2', 'R4'], subs=[('R4', r'std::is_signed<IntegerT>::value', 'IS_SIGNED', 1)])
    sc = r.function(PS, r'inline\s+bool\s+stripeClaim\s*\([^)]*\)')
    sl = X.slice_between(sc, r'if\s*\(prev >= s\.end\)', r'return\s+true\s*;', include_end=True)
    ctx.emit('stripe_claim_rule.slice.inc', sl, must_fire=['R2', 'R7', 'R10'],
             subs=[('R7', ('block', r'bool\s+expected\s*=\s*false;\s*if\s*\(s\.retired\.compare_exchange_strong\('), '/* retire bookkeeping (mask bit, activeStripes): no effect on the claimed range */', 1),
                   ('R11', r'\bs\.end\b', 's_end'),
                   ('R10', r'return\s+false\s*;', 'return (ClaimResult){0, outBegin, outEnd};', 1),
                   ('R10', r'return\s+true\s*;', 'return (ClaimResult){1, outBegin, outEnd};', 1)])
    # head of stripeClaim: which chunk size the claim uses and by how much the cursor advances
    sl = X.slice_between(sc, r'const\s+IntegerT\s+chunkSize\s*=', r'if\s*\(prev >= s\.end\)')
    ctx.emit('stripe_claim_head.slice.inc', sl, must_fire=['R2', 'R7', 'R11'],
             subs=[('R5', r'\bconst\s+', '', 'opt'),
                   ('R11', r'state\.chunkSize', 'state_chunkSize'),
                   ('R7', r's\.next\.fetch_add\(([^;]*?),\s*std::memory_order_(\w+)\)', r'(g_step = (\1), prev_in)', 1)])
    ini = r.function(PS, r'inline\s+void\s+initStripeState\s*\([^)]*\)')
    # head of initStripeState: the configuration fields the claims read later
    sl = X.slice_between(ini, r'state\.numWorkers\s*=', r'const\s+bool\s+haveL3')
    ctx.emit('init_head.slice.inc', sl, must_fire=['R11'], typemap={'uint32_t': 'uint32_t'},
             subs=[('R11', r'state\.(\w+)', r'state_\1')])
    sl = X.slice_between(ini, r'Wide\s+totalRange\s*=', r'state\.activeStripes\.store\(activeCount, std::memory_order_release\);')
    ctx.emit('init_stripes.slice.inc', sl, must_fire=['R2', 'R7', 'R8', 'LC'],
             subs=[('R8', r'auto&\s+s\s*=\s*state\.stripes\[i\];', '', 1),
                   ('R8', r'\bs\.end\s*=\s*stripeEnd;', 'stripes_end[i] = stripeEnd;', 1),
                   ('R7', r'\bs\.next\.store\(cursor, std::memory_order_relaxed\);', 'stripes_next[i] = cursor;', 1),
                   ('R7', r'\bs\.retired\.store\(false, std::memory_order_relaxed\);', 'stripes_retired[i] = 0;', 1),
                   ('R7', r'\bs\.retired\.store\(true, std::memory_order_relaxed\);', 'stripes_retired[i] = 1;', 1),
                   ('R7', r'state\.hasWorkMasks\[i >> 6\]\.bits\.fetch_or\([^;]*\);', '/* has-work mask bit set (C12-irrelevant bookkeeping) */', 1),
                   ('R11', r'state\.(\w+)', r'state_\1'),
                   ('R1', r'(?<![\w.])alignDownStripe\(', 'alignDownStripe_Wide(', 1),
                   ('LC', r'for\s*\(uint32_t i = 0; i < numWorkers; \+\+i\)\s*\{',
                    'for (uint32_t i = 0; i < numWorkers; ++i) '
                    '__CPROVER_loop_invariant(i <= numWorkers && start <= cursor && cursor <= end && activeCount <= i && (i == 0 ==> cursor == start) && (i == numWorkers ==> cursor == end) C13_INV_C) '
                    '__CPROVER_loop_invariant(k < i ==> ((mathint)start <= (mathint)stripes_next[k] && stripes_next[k] <= stripes_end[k] && (mathint)stripes_end[k] <= (mathint)end && '
                    '(k == 0 ==> (mathint)stripes_next[k] == (mathint)start) && (k + 1 == numWorkers ==> (mathint)stripes_end[k] == (mathint)end) && '
                    'stripes_retired[k] == !(stripes_next[k] < stripes_end[k]) C13_INV_K)) '
                    '__CPROVER_loop_invariant((k + 1 < i ==> stripes_next[k + 1] == stripes_end[k]) && (k + 1 == i ==> (mathint)cursor == (mathint)stripes_end[k])) '
                    '__CPROVER_decreases(numWorkers - i) {', 1)])


def stripe_units(ctx, insts, prop='C12'):
    units = []
    S = 'specs/c12_stripe.c'
    for t, uu, sg in insts:
        bits = int(t.replace('uint', '').replace('int', '').replace('_t', ''))
        d = {'IntegerT': t, 'Wide': 'int64_t' if sg else 'uint64_t', 'IS_SIGNED': str(sg), 'NW_MAX': '4096',
             'IT_MAX': str((1 << (bits - (1 if sg else 0))) - 1) + ('' if sg else 'u'), 'IT_MIN': ('(-%d - 1)' % ((1 << (bits - 1)) - 1)) if sg else '0',
             'WIDE_MAX': '9223372036854775807' if sg else '18446744073709551615u', 'C13_INV_K': '', 'C13_INV_C': '',
             'WIDE_MIN': '(-9223372036854775807 - 1)' if sg else '0'}
        if prop == 'C13':
            d['C13_GRANULAR'] = '1'
            d['C13_INV_C'] = '&& (((mathint)cursor - (mathint)start) % (mathint)state_granularity == 0)'
            d['C13_INV_K'] = '&& (k + 1 < numWorkers ==> ((mathint)stripes_end[k] - (mathint)start) % (mathint)state_granularity == 0)'
        common = dict(defines=d, inst=t, timeout=400, signed_wrap=True, nonprop_cls=['overflow', 'conversion'])
        rp = lambda kind: dict(prog='replay/c12_replay.cpp', args=lambda ce, u, kind=kind: [kind, 'T=' + u.inst] + ['%s=%s' % (k, v) for k, v in sorted(ce.items()) if v is not None])
        units += [
            Unit('alignDownStripe', 'intwp', S, 'alignDownStripe', expect=[r'postcondition\.2'], **common),
            Unit('alignDownStripe<Wide>', 'intwp', S, 'alignDownStripe_Wide', expect=[r'postcondition\.2'], **common),
            Unit('stripeClaim.head', 'intwp', S, 'stripe_claim_head', expect=[r'postcondition\.1'], **common),
            Unit('initStripeState.head', 'intwp', S, 'init_head', expect=[r'postcondition\.1'], **common),
            Unit('initStripeState.partition', 'intwp', S, 'init_stripes', expect=[r'postcondition\.6', r'loop_invariant_step', r'decreases', r'bounds'],
                 replay=dict(prog='replay/c12_replay.cpp', args=lambda ce, u: ['run', 'T=' + u.inst, 'adaptive=1', 'start=%s' % ce['start'], 'end=%s' % ce['end'], 'pool=%d' % max(1, min(int(ce['numWorkers']) - 1, 48)), 'maxThreads=%s' % ce['numWorkers'], 'granularity=%s' % ce['state_granularity']]), **common),
        ]
        if prop == 'C12':
            units += [
                Unit('stripeClaim.rule', 'intwp', S, 'stripe_claim_rule', expect=[r'postcondition\.4'], replay=rp('claim'), **common),
                Unit('c12_stripe_claims_tile', 'intwp', S, 'c12_stripe_claims_tile', expect=[r'assertion\.4', r'precondition'], **common),
            ]
    return units


def sizing_units(ctx, insts, prop='C12'):
    units = []
    S = 'specs/c12_sizing.c'
    for t, uu, sg in insts:
        d = c17.inst_defines(t, uu, sg)
        bits = int(t.replace('uint', '').replace('int', '').replace('_t', ''))
        d['IT_MAX'] = str((1 << (bits - (1 if sg else 0))) - 1) + ('u' if not sg else '')
        common = dict(defines=d, inst=t, timeout=400, signed_wrap=True, nonprop_cls=['overflow', 'conversion'])
        rp = lambda kind: dict(prog='replay/c12_replay.cpp', args=lambda ce, u, kind=kind: [kind, 'T=' + u.inst] + ['%s=%s' % (k, v) for k, v in sorted(ce.items()) if v is not None])
        if prop == 'C12':
            units += [
                Unit('computeGranularity', 'intwp', S, 'computeGranularity', expect=[r'postcondition\.7', r'precondition'], replay=rp('gran'), **common),
                Unit('adjustChunkSizing', 'intwp', S, 'adjustChunkSizing', expect=[r'postcondition\.5', r'precondition'], replay=rp('adjust'), **common),
                Unit('ChunkedRange.calcChunkSize', 'intwp', S, 'ChunkedRange_calcChunkSize',
                     expect=[r'postcondition\.5', r'loop_invariant_step', r'decreases', r'division-by-zero', r'assertion'], replay=rp('calc'), **common),
                Unit('dynamicImpl.chunk_rule', 'intwp', S, 'dyn_single_chunk', expect=[r'postcondition\.3'], replay=rp('dyn'), **common),
                Unit('dynamicMultiGroupImpl.chunk_rule', 'intwp', S, 'dyn_multi_chunk', expect=[r'postcondition\.3'], **common),
                Unit('c12_dynamic_partition', 'intwp', S, 'c12_dynamic_partition', expect=[r'assertion\.3', r'precondition\.2'], **common),
            ]
        else:
            units += [
                Unit('computeGranularity', 'intwp', S, 'computeGranularity', expect=[r'postcondition\.7', r'precondition'], replay=rp('gran'), **common),
                Unit('ChunkedRange.calcChunkSize', 'intwp', S, 'ChunkedRange_calcChunkSize',
                     expect=[r'postcondition\.5', r'loop_invariant_step', r'decreases'], replay=rp('calc'), **common),
                Unit('dynamicImpl.chunk_rule', 'intwp', S, 'dyn_single_chunk', expect=[r'postcondition\.3'], **common),
                Unit('c13_dynamic_granular', 'intwp', S, 'c13_dynamic_granular', expect=[r'assertion\.1', r'precondition'], **common),
            ]
    return units


def build(ctx):
    insts = c17.INSTS if ctx.tier == 'thorough' else c17.QUICK_INSTS
    sizing_pieces(ctx)
    units = sizing_units(ctx, insts)
    stripe_pieces(ctx)
    units += stripe_units(ctx, insts)
    # static path: the C17 units carry the partition of the static mapper
    c17.chunking_pieces(ctx)
    c17.mapper_pieces(ctx)
    for t, uu, sg in insts:
        d = c17.inst_defines(t, uu, sg)
        common = dict(defines=d, inst=t, timeout=400, signed_wrap=True, nonprop_cls=['overflow', 'conversion'])
        units.append(Unit('StaticChunkMapper.call', 'intwp', 'specs/c17_mapper.c', 'StaticChunkMapper_call',
                          expect=[r'postcondition\.2'], replay=c17.replay_args('mapper'), **common))
        units.append(Unit('c17_mapper_partition', 'intwp', 'specs/c17_mapper.c', 'c17_mapper_partition', expect=[r'assertion\.5'], **common))
        units.append(Unit('parallel_for_staticImpl.derive', 'intwp', 'specs/c17_mapper.c', 'psi_derive',
                          expect=[r'postcondition\.5'], replay=c17.replay_args('derive'), **common))
    # static path: which chunk index each scheduled task and the caller run (specs/c14_states.c): remap exact, injective, covering
    sp = importlib.util.spec_from_file_location('c14mod', os.path.join(os.path.dirname(__file__), 'c14.py'))
    c14 = importlib.util.module_from_spec(sp)
    sp.loader.exec_module(c14)
    c14.static_pieces(ctx)
    units += [u for u in c14.static_units(ctx, insts) if u.function != 'initStates_size']
    # top level: the serial fallbacks of parallel_for must be handed the whole range (the extracted control skeleton of C48/C14; the static
    # no-wait tail overlap listed as a known finding of C48/C14 is not C12's subject and is excluded from this unit's obligation)
    c14.c48.skeleton_pieces(ctx)
    for t, uu, sg in [c17.INSTS[4], c17.INSTS[7]]:
        d = c17.inst_defines(t, uu, sg)
        bits = int(t.replace('uint', '').replace('int', '').replace('_t', ''))
        d['IT_MAX'] = str((1 << (bits - (1 if sg else 0))) - 1) + ('u' if not sg else '')
        d['KF_EXCLUDE'] = 'g_static_nowait_pending'
        units.append(Unit('parallel_for.skeleton (serial fallbacks run the whole range)', 'cbmc', 'specs/c48_skeleton.c', 'parallel_for_skeleton', defines=d, inst=t, timeout=600,
                          replace=['computeGranularity', 'adjustChunkSizing', 'ChunkedRange_calcChunkSize', 'G_staticImpl', 'G_adaptiveWaitDispatch', 'G_dynamicImpl', 'G_dynamicNoWaitDispatch'],
                          expect=[r'postcondition\.5', r'precondition'], flags=['--unwind', '9']))
    return units
