"""C18 -- a Future's functor runs once and every waiter sees it ready (status protocol of FutureImplBase)."""
from driver import Unit
import extract as X
import re

LEVEL = 'proof'
TRUSTED_BASE = ['CBMC 6.11 + cadical', 'tools/extract.py rewrite rules', 'rely/guarantee meta-theorem; the rely is specs/c18_future.c others_act() (the status word only moves forward; only the claimant completes)',
                'CompletionEventImpl::notify = release store + FUTEX_WAKE(all), wait returns only after an acquire load of the value (proved under C21); waitFor/waitUntil return true only if the value was observed',
                'atomic RMW axiom: the compare-exchange kNotStarted -> kRunning succeeds for exactly one thread']
ASSUMPTIONS = ['A-SC; checked discipline: loads of the status word that decide readiness are acquire, the claiming CAS carries acquire, the completing store carries release',
               'runFunc (virtual: the user functor + result construction) is an arbitrary terminating call; result identity (every get() returns the same object) is decided only as far as the lifetime of the shared state: the reference count equals the number of owners for fewer than 2^31 simultaneous owners and dealloc() runs exactly when the last owner lets go (specs/c18_refcount.c); which call sites own a reference is not under contract',
               'termination of the compare_exchange_weak retry loop is not proved (spurious failures are unbounded)',
               'then-chain execution and the task-set counter decrement are only checked to happen after the future is published as ready']
EXPLANATION = 'runFunc only by the CAS winner, at most once; completion published by notify (store + wake) after the functor ran; waiters return only after observing kReady'

F = 'dispenso/detail/future_impl.h'
CLS = r'class\s+FutureImplBase\s*(?::[^{]*)?(?=\{)'
SUBS = [('R7', r'status_\.intrusiveStatus\(\)\.load\(std::memory_order_(\w+)\)', r'A_LOAD_status(self, MO_\1)'),
        ('R7', r'status_\.intrusiveStatus\(\)\.compare_exchange_weak\((\w+),\s*(\w+),\s*std::memory_order_(\w+)\)', r'A_CAS_WEAK_status(self, &\1, \2, MO_\3)'),
        ('R7', r'status_\.intrusiveStatus\(\)\.store\((\w+),\s*std::memory_order_(\w+)\);', r'A_STORE_status(self, \1, MO_\2);'),
        ('R17', r'status_\.notify\((\w+)\);', r'CE_notify(self, \1);'),
        ('R17', r'status_\.wait\((\w+)\);', r'CE_wait(self, \1);'),
        ('R17', r'status_\.waitFor\((\w+),\s*timeoutDuration\)', r'CE_waitFor(self, \1)'),
        ('R17', r'status_\.waitUntil\((\w+),\s*timeoutTime\)', r'CE_waitFor(self, \1)'),
        ('R13', r'(?<![\w.>])runFunc\(\);', 'G_runFunc(self);'),
        ('R7', r'taskSetCounter_->fetch_sub\(1,\s*std::memory_order_(\w+)\);', r'G_counter_dec(self, MO_\1);'),
        ('R17', r'(?<![\w.>])tryExecuteThenChain\(\);', 'G_tryExecuteThenChain(self);'),
        ('R17', r'(?<![\w.>])decRefCountMaybeDestroy\(\);', 'G_decRefCountMaybeDestroy(self);'),
        ('R17', r'\(void\)run\(kNotStarted\);', '(void)Fut_run(self, kNotStarted RUN_DEFAULTS);'),
        ('R17', r'(?<![\w.>])run\((\w+)\)', r'Fut_run(self, \1 RUN_DEFAULTS)'),
        ('R17', r'(?<![\w.>])run\((\w+),\s*', r'Fut_run(self, \1, '),
        ('R17', r'(?<![\w.>])waitCommon\(', 'Fut_waitCommon(self, '),
        ('R11', r'(?<![\w.>])(allowInline_|taskSetCounter_)\b', r'self->\1'),
        ('R10', r'std::future_status::ready', '1'), ('R10', r'std::future_status::timeout', '0'),
        ('R2', r'\btrue\b', '1'), ('R2', r'\bfalse\b', '0')]


def opt(subs):
    return [x + ('opt',) if len(x) == 3 else x for x in subs]


def build(ctx):
    r = ctx.repo
    txt = r.text(F)
    if not re.search(r'enum\s+Status\s*\{\s*kNotStarted\s*,\s*kRunning\s*,\s*kReady\s*\}', txt):
        raise X.ExtractionError('FutureImplBase::Status enum changed')
    # run(int s[, extra parameters with defaults]): extra parameters are carried into the C signature, their defaults into the calls that omit them
    m = re.search(r'bool\s+run\s*\(\s*int\s+s\s*((?:,[^)]*)?)\)\s*\{', txt)
    if not m:
        raise X.ExtractionError('FutureImplBase::run(int s ...) not found')
    extra_params, defaults, nondets = '', '', ''
    for prm in [p for p in m.group(1).split(',') if p.strip()]:
        pm = re.fullmatch(r'\s*(bool|int)\s+(\w+)\s*(?:=\s*(\w+))?\s*', prm)
        if not pm or pm.group(3) is None:
            raise X.ExtractionError('FutureImplBase::run: unsupported extra parameter %r' % prm)
        extra_params += ', %s %s' % (pm.group(1), pm.group(2))
        defaults += ', %s' % {'true': '1', 'false': '0'}.get(pm.group(3), pm.group(3))
        nondets += ', nondet_bool()' if pm.group(1) == 'bool' else ', nondet_int()'
    ctx.emit_text('Fut_run.sig.inc', '#define RUN_EXTRA_PARAMS %s\n#define RUN_DEFAULTS %s\n#define RUN_NONDET_ARGS %s\n' % (extra_params, defaults, nondets))
    def em(name, sig, extra=(), must=('R7',)):
        pc = r.function(F, sig, within=CLS)
        ctx.emit(name + '.body.inc', pc, subs=list(extra) + opt(SUBS), must_fire=list(must))
    em('Fut_run', r'bool\s+run\s*\(\s*int\s+s\s*(?:,[^)]*)?\)', must=('R7', 'R13', 'LC'),
       extra=[('LC', r'while\s*\(s == kNotStarted\)\s*\{',
               'while (s == kNotStarted) __CPROVER_assigns(s, self->status, g_mine, g_runs, g_ready_by_me, g_woke, g_bad_order, g_counter_dec_before_ready, g_then_chain_before_ready, g_last_mo) '
               '__CPROVER_loop_invariant(!g_mine && g_runs == 0 && !g_ready_by_me && !g_woke && !g_bad_order && !g_counter_dec_before_ready && !g_then_chain_before_ready && s >= kNotStarted && s <= self->status && self->status <= kReady) {', 1)])
    em('Fut_waitCommon', r'inline\s+bool\s+waitCommon\s*\(\s*bool\s+allowInline\s*\)', must=('R7', 'R17'))
    em('Fut_wait', r'void\s+wait\s*\(\s*\)', must=('R17',))
    em('Fut_waitFor', r'std::future_status\s+waitFor\s*\([^)]*\)', must=('R17',))
    em('Fut_waitUntil', r'std::future_status\s+waitUntil\s*\([^)]*\)', must=('R17',))
    em('Fut_ready', r'bool\s+ready\s*\(\s*\)')
    em('Fut_run0', r'void\s+run\s*\(\s*\)', must=('R17',))
    # shared-state lifetime (reference count): the counter's type and initial value are read from the member declaration
    m = re.search(r'std::atomic<\s*([\w:]+)\s*>\s+refCount_\s*\{\s*(\w+)\s*\}\s*;', txt)
    if not m:
        raise X.ExtractionError('FutureImplBase: declaration `std::atomic<T> refCount_{n};` not found')
    ty = m.group(1).replace('std::', '')
    if ty not in ('uint8_t', 'uint16_t', 'uint32_t', 'uint64_t', 'unsigned', 'size_t', 'int8_t', 'int16_t', 'int32_t', 'int64_t', 'int', 'long', 'ssize_t'):
        raise X.ExtractionError('FutureImplBase::refCount_: unsupported counter type %r' % ty)
    ctx.emit_text('refcount_t.inc', '/* R9: from `%s` in %s */\ntypedef %s refcount_t;\n#define REFCOUNT_INIT %s\n' % (m.group(0), F, ty, m.group(2)))
    RC = [('R7', r'refCount_\.fetch_add\((\w+),\s*std::memory_order_(\w+)\)', r'A_FETCH_ADD_ref(\1, MO_\2)'),
          ('R7', r'refCount_\.fetch_sub\((\w+),\s*std::memory_order_(\w+)\)', r'A_FETCH_SUB_ref(\1, MO_\2)'),
          ('R17', r'(?<![\w.>])dealloc\(\);', 'G_dealloc();'),
          ('R16', r'DISPENSO_TSAN_ANNOTATE_HAPPENS_(?:BEFORE|AFTER)\(&refCount_\);', '/* tsan annotation */')]
    ctx.emit('Fut_incRefCount.body.inc', r.function(F, r'void\s+incRefCount\s*\(\s*\)', within=CLS), subs=opt(RC), must_fire=['R7'])
    ctx.emit('Fut_decRefCountMaybeDestroy.body.inc', r.function(F, r'void\s+decRefCountMaybeDestroy\s*\(\s*\)', within=CLS), subs=opt(RC), must_fire=['R7', 'R17'])
    # the Future handle: copy / move / destructor of FutureBase (which handle owns a reference)
    FBC = r'class\s+FutureBase\s*(?=\{)'
    FB = [('R17', r'impl_->decRefCountMaybeDestroy\(\);', 'G_dec(self->impl_);'), ('R17', r'impl_->incRefCount\(\);', 'G_inc(self->impl_);'),
          ('R11', r'\bf\.impl_\b', 'f->impl_'), ('R11', r'(?<![\w.>])impl_\b', 'self->impl_'), ('R2', r'\bnullptr\b', '0')]
    ctx.emit('FB_copy.body.inc', r.function(F, r'void\s+copy\s*\(\s*const\s+FutureBase&\s+f\s*\)', within=FBC), subs=opt(FB), must_fire=['R17', 'R11'])
    ctx.emit('FB_move.body.inc', r.function(F, r'void\s+move\s*\(\s*FutureBase&&\s+f\s*\)\s*noexcept', within=FBC), subs=opt(FB), must_fire=['R17', 'R11'])
    ctx.emit('FB_dtor.body.inc', r.function(F, r'~FutureBase\s*\(\s*\)', within=FBC), subs=opt(FB), must_fire=['R17', 'R11'])
    S = 'specs/c18_future.c'
    rp = dict(prog='replay/c18_replay.cpp', args=lambda ce, u: [], no_rlimit=True)
    units = [Unit('FutureImplBase::run(int)', 'cbmc', S, 'Fut_run', loop_contracts=True, expect=[r'postcondition\.3', r'G_runFunc\.assertion', r'loop_invariant|loop_step'], timeout=300, replay=rp),
             Unit('FutureImplBase::waitCommon', 'cbmc', S, 'Fut_waitCommon', replace=['Fut_run'], expect=[r'postcondition'], timeout=300, replay=rp),
             Unit('FutureImplBase::wait', 'cbmc', S, 'Fut_wait', replace=['Fut_waitCommon'], expect=[r'postcondition'], timeout=300, replay=rp),
             Unit('FutureImplBase::waitFor', 'cbmc', S, 'Fut_waitFor', replace=['Fut_waitCommon'], expect=[r'postcondition'], timeout=300, replay=rp),
             Unit('FutureImplBase::waitUntil', 'cbmc', S, 'Fut_waitUntil', replace=['Fut_waitCommon'], expect=[r'postcondition'], timeout=300, replay=rp),
             Unit('FutureImplBase::ready', 'cbmc', S, 'Fut_ready', expect=[r'postcondition'], timeout=300, replay=rp),
             Unit('FutureImplBase::run()', 'cbmc', S, 'Fut_run0', replace=['Fut_run'], expect=[r'postcondition'], timeout=300, replay=rp),
             Unit('FutureImplBase::incRefCount', 'cbmc', 'specs/c18_refcount.c', 'Fut_incRefCount', expect=[r'postcondition'], timeout=300, replay=rp),
             Unit('FutureImplBase::decRefCountMaybeDestroy', 'cbmc', 'specs/c18_refcount.c', 'Fut_decRefCountMaybeDestroy', expect=[r'postcondition', r'G_dealloc\.assertion'], timeout=300, replay=rp)]
    units += [Unit('FutureBase::' + n, 'cbmc', 'specs/c18_refcount.c', fn, defines={'C18_HANDLES': '1'}, expect=[r'postcondition'], timeout=300, replay=rp)
              for n, fn in (('copy', 'FB_copy'), ('move', 'FB_move'), ('~FutureBase', 'FB_dtor'))]
    return units
