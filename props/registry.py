"""registry of claimed checks and not-applicable reasons (source for MANIFEST.json; run tools/gen_manifest.py)"""

NOTES = "Contract-based deductive verification (CBMC DFCC + intwp over the same contract text) of functions extracted from /repo on every run; see DESIGN.md."

SOURCE_COMMITS = []

CLAIMED = {}

NOT_APPLICABLE = {
    'C01': 'exactly-once across central queue, rings and steal rings under all interleavings is a whole-system schedule property over third-party moodycamel code, `std::thread` and lambdas; no per-function contract expresses it and the pool bodies are outside the extractable subset.',
    'C03': 'resize racing the ring fast path is a multi-thread interleaving property (stale `numRings_` between two loads in different functions); needs a schedule explorer, not contracts.',
    'C06': 'deadlock freedom under nested waits is liveness over all programs; contracts here carry no termination-under-scheduling argument.',
    'C07': 'wake latency without the backstop depends on which futex waiter the kernel picks; timing/liveness, outside deductive reach.',
    'C08': 'needs a ledger across `resizeLocked`/destructor bodies that use `std::thread`, range-for over `std::deque`, moodycamel and RAII; extracting them would be a hand-made model (the ring-drain loops calling `task()` without a decrement were noted while reading, but cannot be *decided* by this machinery).',
    'C09': 'shutdown completion is liveness over worker-loop interleavings.',
    'C10': 'data-race freedom under the C++ memory model for the whole library; CBMC has no weak-memory/thread support here and A-SC hides exactly these defects (only the release/acquire discipline at ownership transfers of units under contract is checked, reported under those properties).',
    'C11': 'whole-library sanitizer-style claim over all API programs; memory-safety obligations are proved only for the units under contract and reported under their own properties.',
    'C12': "`stripeClaim`: cursor `fetch_add` past `end` for 64-bit index types | adaptive range ending at the type's maximum | known finding unless a saturating claim is acceptable upstream | read only",
    'C13': '`initStripeState`: `alignDownStripe(endWide, g)` aligns absolutely | adaptive, `start % g ≠ 0` | align relative to `start` | **run**: `[3, 8008)`, g=8, adaptive → 3 non-multiple chunks (`[1571,1600)`, `[8000,8003)`, `[8003,8008)`)',
    'C14': 'check not built yet (contracts designed in DESIGN.md section 5, proof not closed in this framework yet)',
    'C15': "`for_each_n`: `numThreads = min(numPoolThreads + wait, …)` then `staticChunkSize(n, 0)` | zero-thread pool, `wait=false`, `n>0` | take the serial path when `numThreads == 0` | **run**: `Assertion 'chunks > 0' failed` (abort; division by zero with NDEBUG)",
    'C16': 'variadic-template recursion over user functors; no C-like unit to put under contract.',
    'C17': 'check not built yet (contracts designed in DESIGN.md section 5, proof not closed in this framework yet)',
    'C19': 'then-chain hand-off correctness is a store-buffering shape that is only wrong under weak memory; under A-SC the local obligations pass vacuously of the real risk, so no honest claim.',
    'C20': '"timeout only after the time elapsed" is about the kernel clock and `double`→`timespec` floating point; outside CBMC\'s useful reach (the "ready means done" half is covered under C21/C18).',
    'C21': '`Latch::count_down` notifies iff previous value `== 1` | `Latch(2); count_down(2)` with a parked waiter | notify when `prev == n` (count reached zero) | **run**: waiter parked in `wait()` still blocked 500 ms after `count_down(2)`',
    'C22': 'check not built yet (contracts designed in DESIGN.md section 5, proof not closed in this framework yet)',
    'C24': '`getUpdate`: load `kReady`, move, store | two consumers | claim with CAS `kReady→kUpdating` before moving | read only',
    'C25': "built on moodycamel's blocking queue and semaphore (third-party, thousands of lines); the dispenso part is a thin RAII wrapper with nothing left to specify once the queue is an axiom.",
    'C26': 'the body is a `std::function` holding nested lambdas over `shared_ptr`; the cancel/in-progress window is an interleaving property.',
    'C27': 'pipeline stages are nested lambdas, RAII guards and type-erased functors; any C rendering would be a model.',
    'C28': 'same code as C27 (slot accounting lives inside those lambdas and guards).',
    'C29': 'exception unwinding and leak freedom through RAII/`OnceFunction` ownership across task-set cancellation; needs C++ exception semantics the extractor does not have.',
    'C30': 'graph executors are std::vector/std::deque-based with virtual nodes and three schedulers; out of the extractable subset.',
    'C31': 'same as C30 (propagation over std containers and set merging).',
    'C32': "ConcurrentVector's sequential API is ~1300 lines of iterator/std-algorithm code (`std::move`, `move_backward` on custom iterators); only its index arithmetic is extractable and that is claimed under C33.",
    'C35': 'check not built yet (contracts designed in DESIGN.md section 5, proof not closed in this framework yet)',
    'C37': 'copy constructor loops to `buffersSize_` | arena with 3 buffers | loop to `buffersPos_` | **run** (ASan): SEGV in `memcpy` copying an arena with 3 buffers',
    'C39': 'check not built yet (contracts designed in DESIGN.md section 5, proof not closed in this framework yet)',
    'C40': '`OpResult(OpResult&&)` / move-assign: `oth.ptr_ = nullptr` without destroying | any engaged source | destroy the moved-from object before disengaging | **run**: one lifetime-counted object still live after both OpResults are destroyed',
    'C41': '`bytesAllocated`: `compare_exchange_weak(allocId, 1)` retry keeps the observed value | lock held by an allocating thread | reset `allocId = 0` each iteration | read only',
    'C42': "PoolAllocator's whole state is three `std::vector<char*>`; its invariants (free chunks pairwise distinct, inside slabs, disjoint from handed-out ones) quantify over the vectors' contents, and replacing `std::vector` by an array stand-in would make the verified text a model of the container rather than the code.",
    'C43': 'check not built yet (contracts designed in DESIGN.md section 5, proof not closed in this framework yet)',
    'C44': 'check not built yet (contracts designed in DESIGN.md section 5, proof not closed in this framework yet)',
    'C45': 'check not built yet (contracts designed in DESIGN.md section 5, proof not closed in this framework yet)',
    'C46': "the bound is on dynamic nesting through user functors and RAII depth guards across task_set/pipeline/future; a ghost depth contract must assume the functor's own scheduling behaviour, i.e. the property itself.",
    'C48': 'check not built yet (contracts designed in DESIGN.md section 5, proof not closed in this framework yet)',
}

CLAIMED['C17'] = dict(
    category='proof',
    text="Every obligation generated from the current text of staticChunkSize, staticChunkSizeGranular, StaticChunkMapper::operator(), "
         "ChunkedRange::size, the chunk-derivation slice of parallel_for_staticImpl and the derivation/offset slices of for_each_n(_schedule) "
         "is discharged for all inputs (no bound) and all 8 index types: the sizes are C (first T chunks) and C-unit, sum exactly to the item count "
         "over mathematical integers, consecutive chunk boundaries coincide, first/last boundaries are the range ends. Proof, because the property "
         "is pure integer arithmetic of single functions - exactly what contracts decide.",
    note="Back end for these units is tools/intwp.py (VCs over Int with exact C wrap/promotion semantics, z3-new+cvc5) because 64-bit / and * are out of reach of "
         "every bit-level back end installed (DESIGN 1); its semantics encoding and the extractor's rewrite rules are trusted, cross-checked by CBMC on the int8/uint8 "
         "instantiations and by native translation validation. Signed-overflow obligations inside StaticChunkMapper (intentional wrap-around of narrow intermediates) are "
         "reported as a separate non-gating class with two's-complement semantics. Precondition: items + chunks - 1 representable; range size <= INT64_MAX.",
    technique="function contracts + lemma functions over contracts (modular), VC generation over Int, SMT (z3-new/cvc5); CBMC DFCC on narrow instantiations")

CLAIMED['C44'] = dict(
    category='proof',
    text="Function contracts on the extracted bodies of nextPow2, log2const (32/64), countTrailingZeros, countSetBits, alignToCacheLine, alignedMalloc and alignedFree "
         "are discharged bit-precisely by CBMC for every input in the documented domains (all 2^64 / 2^32 values; constant-bounded loops unwound completely). "
         "log2's x86 bsr instruction is replaced by an axiom stub, so for log2 only the wrapper is proved; the compiled function is compared natively against a reference "
         "for 2^26 (quick) or all 2^32 (thorough) 32-bit inputs and 2^24 64-bit inputs - labelled bounded and not counted.",
    note="Trusted: CBMC's model of __builtin_ctzll/__builtin_popcountll, the bsr axiom, malloc axiom (fresh, 16-aligned, no failure, no address wrap). alignedMalloc/alignedFree are "
         "verified in integer address space with a ghost block and ghost recovery word (pointer casts rewritten by rule R19).",
    technique="CBMC DFCC function contracts (cadical), complete unwinding of constant-bounded loops, axiom stub for inline asm, native exhaustive stand-in")

CLAIMED['C12'] = dict(
    category='proof',
    text="The set of ranges the code can hand to the loop body is a partition of [start,end): contracts on the extracted static mapper and its derivation (C17 units), "
         "on computeGranularity / adjustChunkSizing / calcChunkSize (incl. the do-while loop with invariant and decreases clause), on the chunk->range rule of both dynamic "
         "workers, on the stripe partition loop of initStripeState (loop invariant with a ghost stripe index), on alignDownStripe and on the claim rule of stripeClaim; "
         "property-level lemma functions derive adjacency / first / last / non-emptiness from those contracts only. All inputs, no bound, per index type "
         "(quick: int8, int32, uint64; thorough: all eight). At the top level, the extracted parallel_for control skeleton (shared with C48/C14) proves that every serial "
         "fallback on the caller is handed the whole range [range.start, range.end) as written in the code (nothing else visits an index on those paths).",
    note="Decides the arithmetic core only: that every scheduled worker runs exactly once and has returned at wait() is C01/C02 (assumed); distinctness of claim indices is the "
         "atomic-RMW axiom. Back end intwp (Z-VCs, z3-new/cvc5) as for C17. One known finding is reported, not hidden: for 64-bit index types a stripe ending within ~2^20 chunks "
         "of the type maximum lets the claim cursor wrap (native: kAdaptive over [INT64_MAX-1000, INT64_MAX) hangs); the residual obligation with that input class excluded is "
         "discharged on every run. Assumes at most 2^20 claims hit a stripe after it is exhausted; range size <= INT64_MAX (dynamic path: <= 2^62).",
    technique="function + loop contracts, lemma functions over contracts, ghost indices; VC generation over Int with exact wrap semantics; SMT")

CLAIMED['C13'] = dict(
    category='proof',
    text="For every start, size, index type and g: computeGranularity's trimmed range has size % g == 0 and the tail is < g and ends at the range end; staticChunkSizeGranular / "
         "the static derivation yield chunk sizes that are multiples of g; calcChunkSize's adaptive chunk is a multiple of g; initStripeState's stripe boundaries are multiples of g "
         "from start (loop invariant); lemma functions with explicit divisibility witnesses conclude that every static chunk, dynamic chunk and stripe claim is a multiple of g.",
    note="Same machinery and trusted base as C12. g in [1,64] for the stripe units. Who runs the tail and when is C48/C14. The unaligned-start defect this check found on the pinned "
         "tree was repaired (fix: commit 198b182).",
    technique="function + loop contracts, witness-style lemma functions; VC generation over Int; SMT")

CLAIMED['C21'] = dict(
    category='proof',
    text="Local protocol obligations of the futex event, for every value of the word and every n, by CBMC contracts on the extracted bodies of Latch::count_down/arrive_and_wait/"
         "try_wait/wait and CompletionEventImpl::notify/wait (Linux variant): the call that moves the word to the completed value stores with release and then issues FUTEX_WAKE(all); "
         "a waiter parks only with the value it just loaded, never the completed value; wait returns only after an acquire load of the completed value; count_down leaves "
         "count - n and notifies exactly when it reached zero. With the futex axiom this gives no lost wake-up and no early return.",
    note="Atomics are sequentially consistent (A-SC). The composition of the three obligations into the property is the standard futex-event argument and is not machine-checked; "
         "termination of wait is not proved (liveness rests on the wake obligation + kernel axiom). macOS/Windows variants not covered. The two count_down defects this check found "
         "on the pinned tree (lost wake for n>=2, early release for n=0) were repaired (fix: commit b17b318).",
    technique="CBMC DFCC function + loop contracts with ghost futex/atomic stubs (local protocol obligations)")

CLAIMED['C40'] = dict(
    category='proof',
    text="Every constructor, both assignments (including self-assignment, selected by a symbolic alias flag), the destructor, emplace, has_value, operator bool and value of "
         "OpResult are verified by CBMC against std::optional engagement/value postconditions and the class invariant 'engaged <=> ptr_ == buf_ <=> the storage holds a live "
         "object' for BOTH operands; ghost lifetimes turn 'constructed over a live object', 'destroyed twice', 'read outside its lifetime' and 'left alive' into obligations, "
         "so every contained object is destroyed exactly once by the time its OpResult is destroyed. All states satisfying the invariant, all values.",
    note="T is abstracted to an int tag (copy/move are value copies; throwing or self-referential element types are outside the proof); the perfect-forwarding constructor and emplace "
         "are verified at one argument of type T. The moved-from-object leak this check found on the pinned tree was repaired (fix: commit recorded in known_findings.txt).",
    technique="CBMC DFCC function contracts + class invariant + ghost lifetime library")

CLAIMED['C15'] = dict(
    category='proof',
    text="for_each_n's path/thread-count slice is verified for every (n, maxThreads, wait, pool size >= 0, recursion flag): the serial path is taken for n == 0, maxThreads == 0 and "
         "recursion, and otherwise staticChunkSize receives 1 <= numThreads <= n chunks (so its precondition holds, no division by zero) with numThreads <= maxThreads and <= pool + wait; "
         "the chunk derivation and the per-chunk offsets of the random-access schedule tile [0,n) exactly (C17 units, lemma function over contracts); the boundary table of the "
         "non-random-access schedule is start + prefix sums of the prescribed sizes (loop invariant with ghost index); the serial loop applies f to positions start..start+n-1 in "
         "order exactly once each (CBMC loop contract).",
    note="Completion at wait() and exactly-once execution of each scheduled chunk are C02/C01 (assumed). Iterators are rendered as positions. Back ends: intwp for the arithmetic, CBMC "
         "DFCC loop contracts for the serial loop. The zero-thread-pool division by zero this check found on the pinned tree was repaired (fix: commit in known_findings.txt).",
    technique="function + loop contracts over extracted slices; VC generation over Int / CBMC DFCC")

CLAIMED['C48'] = dict(
    category='proof',
    text="The whole body of the main parallel_for overload is extracted (lambda runTail substituted at its call sites; scheduling paths are contract stubs) and verified by CBMC "
         "against a ghost ledger: invocations made runnable and not yet waited for, plus the one on the caller, never exceed max(1, options.maxThreads) at any invocation or launch, "
         "for every range, option combination, pool size and recursion flag; maxThreads <= 1 never launches anything. The thread counts the stubs rely on are proved separately: "
         "adjustChunkSizing never exceeds the requested limit, parallel_for_staticImpl's numThreads/numToSchedule slice gives 1 <= numThreads <= maxThreads and scheduled + caller == "
         "numThreads, numToLaunch <= maxThreads - wait, and for_each_n's numThreads <= maxThreads.",
    note="Counts invocations that MAY overlap, not simultaneity on hardware. Stub contracts of the four scheduling paths are trusted descriptions of 'how many launched / waited or not', "
         "backed by the numThreads/numToLaunch units. One known finding is reported on every run: static chunking + wait=false + granularity tail runs the tail on the caller while the "
         "scheduled chunks are still running (maxThreads+1 overlap); the residual obligation with that call site excluded is discharged. The adjustChunkSizing defect this check found "
         "(maxThreads=1 ran on two threads for small explicitly chunked ranges) was repaired (fix: 5e85acf).",
    technique="CBMC DFCC contracts over the extracted control skeleton with a ghost concurrency ledger and contract stubs; intwp for the thread-count arithmetic")

CLAIMED['C14'] = dict(
    category='proof',
    text="Same extracted parallel_for skeleton, ghost state-ownership ledger: a state object bound to a launched, not yet waited invocation is never handed to the caller's invocation; "
         "the states container holds at least one element on every non-empty-range path (initStates loop contract: size >= numNeeded >= 1). For the static path the scheduler-index -> "
         "chunk-index remap is proved injective, below numThreads and different from the caller's chunk, and the state iterator is advanced by exactly that index, so concurrently "
         "running chunks use distinct state objects. Dynamic (single- and multi-group) and adaptive paths: the std::advance argument of the bulk generator lambda and of the calling thread "
         "is extracted and proved to be the generator index / numToLaunch; the dynamic worker lambdas are proved to draw their exit ticket (or raise the exit counter) only after their last "
         "claimed chunk, to call the exit action exactly once with it, and the no-wait exit action to run the granularity tail on states.begin() only for the last exit ticket "
         "numChunks + numToLaunch - 1 - so the tail never overlaps a worker that is still inside the functor.",
    note="That the last exit ticket is drawn after all others is the counting argument over fetch_add (atomic RMW axiom); c * chunkSize is an uninterpreted injective function in the dynamic "
         "worker units. The adaptive path's runStripeWorker is C12/C13 territory. The same known finding as C48 is reported (the caller-run tail "
         "uses *states.begin() while scheduled chunk 0 is using it); residual discharged.",
    technique="CBMC DFCC contracts over the extracted control skeleton with a ghost ownership ledger; intwp for the index remap and initStates loop")

CLAIMED['C45'] = dict(
    category='proof',
    text="threadId()'s extracted body is verified by CBMC for every value of the process-wide counter and the thread-local cache: an already assigned id is returned unchanged and "
         "the counter is not touched (stability); otherwise exactly one fetch_add is performed, the id is the counter value it returned, the counter advances by one and the id is "
         "cached; the id never equals the invalid marker while fewer than 2^64-1 ids were issued. The declarations (thread_local cache initialised to the marker, counter starting "
         "at 0) are checked textually on every run.",
    note="Uniqueness across threads = atomic-RMW axiom (each concurrent fetch_add returns a distinct value) + the proved discipline; thread_local semantics are the compiler's.",
    technique="CBMC DFCC function contract with ghost RMW counter")

CLAIMED['C43'] = dict(
    category='proof',
    text="Set-algebra sentence and the grouping decision: for an arbitrary ghost id k (any int32_t) and arbitrary set contents, membership of k after add/remove/addRange/removeRange/clear "
         "is exactly the mathematical result (ids < 0 or >= CPU_SETSIZE are ignored, nothing out of bounds is touched), contains() returns membership; verified by CBMC against glibc's "
         "real CPU_SET/CPU_CLR/CPU_ISSET macros; the range loops carry loop invariants + decreases clauses (unbounded in the loop count). parseIntClamped (numeric token -> id or -1) is under contract. Grouping: the per-atom "
         "statement slice of buildGroupsFromCacheTopology (flush decision + append) preserves the loop invariant 'no two known L3 groups mixed, pending group <= maxGroupSize, every atom with "
         "L3 information in the pending group belongs to currentL3', appends the atom whole exactly once, and the clamp makes maxGroupSize >= the largest L2 group (intwp).",
    note="NOT decided here: the tokenising part of the CPU-list parser (std::string/strchr), buildCpuToL3Map/largestGroupSize/flushGroup (std::vector code, rendered by their effect on the "
         "abstract state), and that the groups partition the CPUs (follows from 'appended whole exactly once' + the final flush, which is only checked textually). "
         "count() is proved only to forward glibc's __sched_cpucount (axiom stub). Linux variant only.",
    technique="CBMC DFCC function + loop contracts over the extracted methods and glibc macros, ghost membership index")

CLAIMED['C37'] = dict(
    category='proof',
    text="Per-function contracts on the extracted arena code, for all values: constructor size arithmetic (kBufferSize is the smallest power of two >= minBuffSize, mask/shift consistent; "
         "log2i loop unwound completely over its 64-bit bound), operator[]'s index split is a bijection onto (buffer < buffersPos_, offset < kBufferSize), constructObjects default-"
         "constructs exactly the indices [begin,end) once each and in order (nested CBMC loop contracts with a ghost construction cursor), the copy constructor reads only initialised "
         "entries of the source's pointer table, writes inside the new table, copies every live buffer and reproduces size/capacity fields, getBufferSize's per-buffer sizes add up to size().",
    note="Buffers are block ids in a ghost heap (memcpy/alignedMalloc become ghost events), Index = size_t. NOT decided: disjointness of concurrent grow_by reservations under interleaving "
         "(it rests on the CAS on pos_, i.e. the RMW axiom), the resize mutex (RAII lock_guard), deleteLater_ bookkeeping, swap/move/assignment. The copy-constructor defect this check "
         "found on the pinned tree was repaired (fix: commit in known_findings.txt).",
    technique="CBMC DFCC function + nested loop contracts with ghost heap / ghost construction cursor")

CLAIMED['C24'] = dict(
    category='proof',
    text="Rely/guarantee proof (CBMC) of requestUpdate, updateRequested, tryEmplaceUpdate and getUpdate with an ownership ghost for obj_: before every atomic access an interference step "
         "lets any number of other producers and consumers perform any sequence of their legal operations on state_/obj_ (everything except what this thread exclusively owns). Obligations: "
         "obj_ is emplaced or moved only while owned; ownership is obtained only by a successful RMW with acquire and released only by a store with release; tryEmplaceUpdate returns true "
         "only after kNeedsUpdate->kUpdating->kReady with the value in place; getUpdate returns a value only if one was emplaced after the latest request and, holding obj_ exclusively, "
         "delivers it to this call alone. Verified under the documented multi-consumer rely and under the single-consumer rely.",
    note="A-SC (only release/acquire at ownership transfer is checked); R/G meta-theorem and the rely written in specs/c24_async.c are trusted; compare_exchange_strong does not fail "
         "spuriously; pre-C++17 branch (detail::OpResult, contracts proved under C40). The double-delivery defect this check found on the pinned tree (two consumers both moving after a "
         "plain load of kReady) was repaired (fix: commit in known_findings.txt).",
    technique="CBMC DFCC contracts, rely/guarantee via interference before each atomic macro, ownership ghost")

CLAIMED['C35'] = dict(
    category='proof',
    text="Rely/guarantee proof (CBMC) of try_push (move and copy), try_emplace, try_pop(T&), try_pop_into, empty, full, size and the destructor of SPSCRingBuffer at the buffer sizes the "
         "header computes for several instantiations (power-of-two and exact), with head_/tail_ fully symbolic (all wrap-around positions). Invariant: slot k holds a live object <=> k lies "
         "in the cyclic interval [head_, tail_). Producer units run under arbitrary interference by the consumer (any number of pops before every atomic access), consumer units under "
         "arbitrary interference by the producer. Obligations: the invariant is preserved; a push succeeds iff not full as observed, constructs exactly one object into a dead slot at the "
         "old tail and publishes it with release; a pop succeeds whenever the ring was non-empty, hands out the oldest element, destroys it exactly once and publishes head with release; "
         "occupancy never exceeds capacity(); the destructor destroys exactly the remaining elements; the other role's index is read with acquire.",
    note="A-SC; R/G meta-theorem and the two relies (specs/c35_spsc.c) are trusted; FIFO order and exactly-once follow from the slot-lifetime invariant and index discipline proved here "
         "(no abstract sequence ghost); storage_ bytes are rendered as a slot array; slot loops are bounded by the constant kBufferSize and unwound completely. Not under contract yet: "
         "try_push_batch, try_pop_batch, OpResult-returning try_pop.",
    technique="CBMC DFCC contracts, rely/guarantee via interference before each atomic macro, ghost lifetimes")

CLAIMED['C39'] = dict(
    category='proof',
    text="For an abstract functor type with symbolic sizeof/alignof (every size, every power-of-two alignment <= 256): createOnceCallable's selection expression picks inline storage exactly "
         "when the functor fits the 56-byte alignas(64) buffer (then size and alignment are satisfied); the spill overload's kAllocSize = nextPow2(max(size, align)) is >= size, a power of "
         "two and a multiple of the alignment, and allocation and release use the same constant; invokeInline / invokeSpill invoke the functor iff run, destroy it exactly once, and the "
         "spill block is freed exactly once to the size class it came from; the move constructor transfers all 56 storage bytes and the trampoline; operator() and cleanupNotRun dispatch "
         "exactly once with run = true / false.",
    note="Functor body is a ghost invocation event; T is a value tag; non-DISPENSO_DEBUG build; which trampoline ends up in invoke_ is template dispatch (read, not proved); double invocation "
         "and use-after-move are documented misuse. Relies on the nextPow2 contract (C44) and the small-buffer block contract (C41).",
    technique="CBMC DFCC function contracts with symbolic type parameters and ghost lifetimes / ghost pool")

CLAIMED['C41'] = dict(
    category='proof',
    text="(a) getOrdinal plus the three ordinal switches (alloc / dealloc / bytesAllocated, tables generated from the source's case labels and template arguments) map every power-of-two "
         "request N <= 256 to one chunk size >= N that is a multiple of N, consistently for allocation, release and accounting; (b) alloc()/dealloc() keep the thread-local stack count in "
         "[0, kMaxNumTLBuffers), pop only blocks that are free on this thread's stack and mark them allocated (never hand out a live block), push only allocated blocks, and recycling to "
         "the central store never turns a block into an allocated one; (c) bytesAllocated touches backingStore only while it alone holds backingStoreLock, takes the lock only by an RMW "
         "with acquire that saw 0 and releases it with a release store - under arbitrary interference by other lock users (CBMC loop contract on the retry loop).",
    note="The central store (moodycamel queue) is an axiom (multiset of free blocks); block ids are a ghost universe; A-SC. NOT decided: the carving of a malloc block into chunks in "
         "grabFromCentralStore, thread-exit hand-back, cross-thread exclusivity through the queue. The lock defect this check found on the pinned tree (exchange 1 -> 1 after a failed attempt) "
         "was reproduced natively with malloc interposition and repaired (fix: commit in known_findings.txt).",
    technique="CBMC DFCC function + loop contracts, ghost block states, rely/guarantee on the lock word")

CLAIMED['C22'] = dict(
    category='proof',
    text="Rely/guarantee proof (CBMC) of every RWLockImpl method - lock, try_lock, unlock, lock_shared, try_lock_shared, unlock_shared, lock_upgrade, lock_downgrade and the helpers "
         "setWriteBit, waitForReaderDrain, readerRelease - under arbitrary protocol-conforming interference before every atomic access, with the lock word decomposed into ghost components "
         "(owner of the writer bit, exclusive writer, holding readers, transient increments, this thread's contributions). Obligations: the decomposition is preserved; this thread clears "
         "only a bit it owns and decrements only counts it contributed; lock / successful try_lock / lock_upgrade return owning the bit after observing the drained word, with no holding "
         "reader and no other exclusive writer; a failed try_lock leaves no bit and no count behind; lock_shared / successful try_lock_shared return registered as a reader at a moment no "
         "writer owned the bit; the last reader leaving under another thread's writer bit calls tryNotify. Spin loops carry loop contracts; try_lock's drain loop is unwound to its constant.",
    note="A-SC (acquire on claiming RMWs, release on releasing RMWs checked); R/G meta-theorem and the rely (specs/c22_rwlock.c others_act) trusted; fewer than 1000 concurrent readers; "
         "single upgrader as documented. Progress ('a blocked locker always proceeds') is NOT decided beyond the local wake obligation; wait(kWriteBit) is used through its C21 contract.",
    technique="CBMC DFCC function + loop contracts, rely/guarantee via interference before each atomic macro, ghost decomposition of the lock word")

CLAIMED['C34'] = dict(
    category='proof',
    text="Rely/guarantee proof (CBMC) of emplaceImpl (behind try_push x2 / try_emplace), try_pop(T&), try_pop() -> OpResult, try_pop_into, try_push_batch, empty/full/size, constructor and "
         "destructor of MpmcRingBuffer, with head_, tail_ and every slot sequence number fully symbolic 64-bit values and arbitrary interference by any number of other producers and consumers "
         "before every atomic access. Per-slot Vyukov invariant (slot j is free for position s / claimed by the producer of s / published for p / claimed by the consumer of p, with the liveness "
         "of its object and the bounds head <= s < head+N, p < tail <= p+N). Obligations: every write of this thread preserves the invariant for every slot and keeps head <= tail <= head+capacity; "
         "a position is claimed (CAS on tail_/head_) only while its slot is free for / holds the published element of exactly that position; slot storage is constructed, moved from and destroyed "
         "only between the claiming CAS and the release store that hands the slot on; seq is written only by the claimant, with p+1 (publish) or p+capacity (free); exactly one object is constructed "
         "per successful push and destroyed per successful pop, the popped value is the one published in the claimed position; failed (fail-fast) attempts change nothing; seq is loaded with "
         "acquire and stored with release; quiescent: push succeeds iff not full, pop iff non-empty and returns the oldest, the batch pushes min(count, free); the destructor destroys exactly the "
         "remaining elements.",
    note="A-SC; the rely (specs/c34_mpmc.c others_act) and the R/G meta-theorem are trusted; exactly-once/FIFO follow from unique claims (atomic RMW axiom) + the ownership obligations proved here, "
         "the abstract queue is not carried as ghost state. Positions below 2^62 (no counter wrap). Whole proof at power-of-two buffer sizes (2, 4, 16; thorough: 8, 64); for exact "
         "(non-power-of-two) sizes only wrapIndex == i % kBufferSize and the modular facts are verified (a 64-bit remainder inside the R/G proof did not finish). try_push_batch at kBufferSize 2 "
         "only. The slots_ array is rendered by two tracked slots (one arbitrary, one prophesied as the slot operated on) plus an unconstrained junk slot.",
    technique="CBMC DFCC contracts, rely/guarantee via interference before each atomic macro, per-slot sequence-protocol invariant with ownership and lifetime ghosts, prophecy variable for the active slot")

CLAIMED['C23'] = dict(
    category='proof',
    text="Every method of DistributedRWLockImpl<N> (lock, try_lock, unlock, lock_shared, try_lock_shared, unlock_shared) is verified by CBMC against the CONTRACTS of the RWLockImpl slot "
         "methods it calls (setWriteBit, tryWriteBit, waitForReaderDrain, unlock, lock_shared, try_lock_shared, unlock_shared - each proved under rely/guarantee in C22, same spec file, and used "
         "here by contract replacement with the one slot as frame). Each slot carries its own ghost decomposition of the lock word. Postconditions, for an arbitrary slot k < N: lock and a "
         "successful try_lock return owning the writer bit of slot k after observing it drained - no reader and no other exclusive writer on ANY sub-lock; a failed try_lock leaves no bit and no "
         "count on any sub-lock; unlock releases every sub-lock; the shared operations act on slot index & kMask only (always a valid slot) and leave every other slot's holdings untouched; "
         "a reader holds its slot at a moment no writer owned it. The exclusion facts are re-asserted after every other thread was allowed to act on every slot (stability under the C22 rely).",
    note="Same trusted base and assumptions as C22 (A-SC, R/G meta-theorem, rely of C22). N in {1,2,4} quick, up to 16 thorough; slot loops are bounded by the template constant and unwound "
         "completely; the default N=128 is not run. Progress ('blocked lockers always proceed once conflicts are released') is NOT decided. Interference on the other slots during an operation "
         "is covered by the stability of the slot contracts under the rely (argued) and checked for the final state.",
    technique="CBMC DFCC contracts, modular (callee contracts from C22 by replacement), ghost decomposition per slot, arbitrary-slot postconditions, rely applied to all slots before the closing assertions")

CLAIMED['C38'] = dict(
    category='proof',
    text="Contracts (CBMC DFCC) on the extracted bodies of SmallVector: the representation accessors isInline, rawSize, data, capacity, setSize are proved for all states (heap bit / size mask "
         "arithmetic, no bound); every operation that walks or relocates elements - emplace_back (both push_back forms), pop_back, resize x2, erase, clear, reserve, ensureCapacity, growToHeap, "
         "relocateToHeap, destroyAll, the destructor, the move constructor, move assignment, copy construction and copy assignment - is checked against its contract with the element loops unwound for vectors of at most 4 elements (BOUNDED "
         "stand-ins, listed under `bounded` in the evidence and never counted as proved); SmallVector(count) and SmallVector(count, value) are proved without a bound through the contract of resize. Obligations at every element access: storage not released, index inside the allocation, storage "
         "aligned for T (inline buffer alignas(T); heap block from ::operator new only if alignof(T) <= alignof(max_align_t), otherwise alignedMalloc, released by the matching function); "
         "construct/destroy balance equals the change of size(); heap storage released exactly once and only when empty; an argument that refers to an element of the vector itself is read "
         "before the storage it lives in is vacated (v.push_back(v[0]), v.resize(n, v[0])); sizes and capacities after each operation are std::vector's.",
    note="Element VALUES after each operation (which index holds what) are not decided: a cell-level model with value ghosts was out of the solver's reach here (OOM / > 5 min per property). "
         "Sizes below 2^40; N in {1,4} x alignof(T) in {8,64} quick; element type is an int tag; the storage union is rendered as separate fields. The two genuine defects this check found on "
         "the pinned tree were repaired (fix: commits 2fd2343, d72db5c in known_findings.txt): misaligned heap storage for over-aligned T, and push_back(v[i]) at capacity reading a destroyed "
         "element. Iterator-pair / initializer_list / copy operations are not under contract.",
    technique="CBMC DFCC function contracts over mechanically extracted bodies with storage-handle ghosts (capacity, alignment, live count, released); bounded unwinding for the element loops")

CLAIMED['C47'] = dict(
    category='proof',
    text="Invocation-log contracts (CBMC DFCC) on the extracted bodies of every ForceQueuingTag entry point: ThreadPool::forceEnqueue<kPlaced>, ThreadPool::schedule / schedulePlaced with the "
         "tag (with and without producer token), TaskSet::schedule(f, fq), ConcurrentTaskSet::schedule(f, fq) for both TaskCost branches, ConcurrentTaskSet::schedulePlaced(f, tag) and "
         "TaskSetBase::scheduleBulkImplForceQueue (loop contract) behind both scheduleBulk(count, gen, tag) overloads. Postcondition for every path, given that the value loaded from numThreads_ "
         "is >= 1: the submitted functor was invoked 0 times on the calling thread before return and handed to a queue exactly once (bulk: at most count times, none invoked). A call that loses "
         "the tag resolves to the untagged overload, whose stub may run the functor inline, so the postcondition fails.",
    note="The queueing primitives behind forceEnqueue (scheduleImpl, scheduleImplPlaced incl. enqueueToCentralQueue and conditionallyWake, scheduleBulkEnqueue) are rendered by their invocation "
         "sites only (every call of a task/functor object in their text counts as an invocation on the caller) and must contain none; moodycamel enqueue, MpmcRingBuffer::try_push and the wake "
         "functions are assumed not to invoke the task objects they are given. Overload resolution is read off the call text. Zero-thread pools run the functor inline by design (outside the "
         "property).",
    technique="CBMC DFCC function + loop contracts over extracted bodies with an invocation-log ghost; callee entry points by contract replacement")

CLAIMED['C18'] = dict(
    category='proof',
    text="Rely/guarantee contracts (CBMC DFCC) on the extracted bodies of FutureImplBase::run(int) (loop contract over the compare_exchange_weak retry loop, with spurious failures), run(), "
         "waitCommon, wait, waitFor, waitUntil and ready, with arbitrary forward interference on the status word before every atomic access. Obligations: runFunc is called only by the thread "
         "that won the kNotStarted -> kRunning CAS, at most once per call, while the status is kRunning and before the future is published; the only writes to the status word are that CAS and "
         "the completion, done by the claimant, as kReady, after the functor ran, through notify (release store + wake) - a completion that is stored without the wake fails; the task-set "
         "counter decrement and the then-chain follow the publication; run returns true iff this call ran the functor, and false only if somebody else runs or ran it; wait returns only with "
         "the status kReady; timed waits report ready only if kReady was observed and run the functor themselves only if inline execution is allowed. Shared-state lifetime (every copy's get() sees the same live result): "
         "incRefCount / decRefCountMaybeDestroy keep the counter equal to the number of owners as unbounded integers for fewer than 2^31 simultaneous owners (the counter's declared type is "
         "read from the source), and dealloc() runs exactly when the last owner lets go; FutureBase copy / move / destructor (the Future handle) are proved over an ownership ledger: the old state loses exactly "
         "this owner, the new one gains exactly one, a state with an owner is never destroyed (self-assignment and assignment between handles of one state included).",
    note="A-SC; the rely (specs/c18_future.c others_act: the word only moves forward, only the claimant completes) and the R/G meta-theorem are trusted; 'exactly once over all threads' is the atomic "
         "RMW axiom (one CAS winner) + 'never back to kNotStarted' proved here. CompletionEventImpl::notify/wait are used through their C21 contracts. Which other call sites (scheduling, then-continuations) own a reference, and termination "
         "of the weak-CAS retry loop, are NOT decided.",
    technique="CBMC DFCC function + loop contracts, rely/guarantee via interference before each atomic macro, ownership ghost for the claimant")

CLAIMED['C04'] = dict(
    category='proof',
    text="Invocation-log contracts (CBMC DFCC) on the extracted bodies of every path that can start a task body: the packaged-task lambdas of packageTask / packageTaskNoIncrement, "
         "TaskSet::schedule, ConcurrentTaskSet::schedule and schedulePlaced (for every value of the load / placement predicates and skipRecheck), scheduleBulkImpl and scheduleBulkImplPlaced "
         "(loop contracts), plus cancel / cancelChildren (loop contract over the child list), the parent check of the TaskSetBase constructor and testAndResetException. With canceled_ set "
         "before the call: no schedule path invokes the functor, neither inline on the caller nor through a packaged task that the pool runs at once; a packaged task that finds the set "
         "cancelled skips the body but still lowers the outstanding count exactly once (release) and keeps the task-set stack balanced, and one that does not runs the body exactly once. "
         "cancel() leaves the set cancelled and calls cancel() on every registered child whatever the previous state of the flag; a set created under a cancelled parent starts cancelled; "
         "wait()'s testAndResetException reports the flag (acquire).",
    note="The genuine defect this check found on the pinned tree was repaired (fix: ecabe38): ConcurrentTaskSet::schedule / schedulePlaced ran the functor inline on an overloaded pool after "
         "cancel() (50 of 50 bodies started in the native replay). canceled_ is assumed monotone during an operation; load predicates are arbitrary booleans; tagged pool entry points only enqueue "
         "(C47); that the pool runs every queued packaged task is C01. Futures / when_all continuations registered with a set are not under contract.",
    technique="CBMC DFCC function + loop contracts over extracted bodies and lambda bodies with an invocation-log ghost; callee bodies by contract replacement")

CLAIMED['C02'] = dict(
    category='proof',
    text="Credit ledger on outstandingTaskCount_ plus the wait loops, by CBMC DFCC contracts on the extracted code: packageTask raises the count (acquire) before the packaged task exists; "
         "every hand-over of a packaged task to the pool in TaskSet::schedule, ConcurrentTaskSet::schedule / schedulePlaced, scheduleBulkImpl and scheduleBulkImplPlaced (loop contracts) is "
         "covered by a credit raised beforehand, and nothing is credited in excess; each packaged task body lowers the count exactly once (release), after the user body or its skip, and runs "
         "a non-cancelled body exactly once; TaskSet::wait and ConcurrentTaskSet::wait return only after an acquire load of the count that returned zero, and tryWait returns true only then "
         "(partial-correctness loop contracts on every spin loop).",
    note="Proved RELATIVE to C01 (the pool runs every packaged task handed to it exactly once - assumed) and with the Future decrement-after-ready obligation proved under C18. Termination of "
         "the wait loops (progress) is not decided. Same spec file and extraction as C04. Destructors call wait() (checked by reading).",
    technique="CBMC DFCC function + loop contracts over extracted bodies with a credit-ledger ghost")

CLAIMED['C05'] = dict(
    category='proof',
    text="Rely/guarantee contracts (CBMC DFCC) on the extracted bodies of TaskSetBase::trySetCurrentException and testAndResetException (exceptions build) with interference on the guard word "
         "before every atomic access, and on the packaged-task bodies of packageTask / packageTaskNoIncrement and invokeInline with a user functor that may throw (throw flag, rule R15). "
         "Obligations: exception_ is written only by the winner of the kUnset -> kSetting CAS; kSet is published (release) only by that winner and only after the exception was stored; the set "
         "is cancelled by the capture; testAndResetException moves the exception out only while the guard is kSet (acquire), resets the guard to kUnset (release) before rethrowing, rethrows at "
         "most once per call and otherwise reports canceled_; a throwing body is captured, does not escape the packaged task, and the outstanding count is still lowered exactly once (release) "
         "with no exception in flight, the task-set stack balanced.",
    note="A-SC; single waiter assumed (two concurrent wait() calls on one set could both observe kSet with a plain load and both move exception_ out - not a documented use, stated); the rely "
         "(specs/c05_exceptions.c others_act) and the R/G meta-theorem are trusted; C++ exception semantics are rendered by a throw flag, exact for try { one invocation } catch (...) { handler }. "
         "'First captured exception': later throwers lose the CAS and their exception is dropped (by design). That wait() looks at the exception only after completion is the C02 wait units. "
         "A functor run inline by schedule() propagating its exception to the caller is documented behaviour and not under contract.",
    technique="CBMC DFCC function contracts, rely/guarantee via interference before each atomic macro on the guard word, throw-flag rendering of try/catch")

CLAIMED['C33'] = dict(
    category='proof',
    text="Contracts (CBMC DFCC) on the extracted bodies of ConcurrentVector::bucketAndSubIndex, ConVecBuffer::allocCheckIndex and both allocAsNecessaryImpl overloads (single index and range), "
         "for the three realloc strategies and a symbolic firstBucketShift_: index -> (bucket, offset) is the bijection onto the bucket geometry (index == START(bucket) + offset, "
         "offset < CAP(bucket), capacities doubling after the first two buckets); every bucket b has one trigger index START(b) + allocCheckIndex(CAP(b)), and a growth that reserved "
         "[index, index+len) prepares bucket k exactly when the trigger index of bucket k-1 lies in its range (single index: exactly when index is that trigger) - so, indices being handed "
         "out disjointly by size_.fetch_add (atomic RMW axiom), every bucket is allocated by exactly one growth; the sizing pass and the assignment pass of the range overload visit the "
         "same buckets, each at most once, with the bucket's capacity; before either overload returns, every bucket that holds one of the reserved indices has been seen published by an acquire "
         "load (no element is constructed through an unpublished bucket); dispenso's own asserts in the range overload hold; every buffers_ index is inside the table.",
    note="Quick tier: all indices below 2^24; thorough: below 2^47 (Traits::kMaxVectorSize). Bucket loops are bounded by the number of reachable buckets and unwound completely. detail::log2 by "
         "its C44 contract. NOT decided: element construction, iterator/reference validity, cached pointers, termination of the spin-wait for a peer's allocation (progress), shrink/clear and the sequential "
         "API (C32). The single-index path sizes bucket 1 at twice its capacity when triggered from bucket 0 (generous, noted, harmless).",
    technique="CBMC DFCC function contracts over extracted bodies, ghost bucket index and probe ghosts for the buffer table, constant-bounded loop unwinding")

CLAIMED['C36'] = dict(
    category='proof',
    text="Rely/guarantee contracts (CBMC DFCC) on the extracted bodies of ChaseLevDeque::try_push, try_pop, try_pop_into (owner role: thieves may advance top_ before every atomic access), "
         "try_steal, try_steal_into (thief role: the owner may push/pop and other thieves may steal before every atomic access and before every slot read), empty, size and the slot index "
         "computation, with top_ and bottom_ fully symbolic. History ghost g_bsince = the largest bottom_ published since top_ last changed: the rely lets a thief take a position only if "
         "bottom_ was above it at some moment since top_ took that value, and every successful CAS on top_ in the verified code asserts exactly that (closure). Obligations: bottom_ is written "
         "by the owner only; top_ advances by one per successful CAS; top_-1 <= bottom_ <= top_+Capacity always and top_ <= bottom_ between operations; push publishes the element at the old "
         "bottom_ with release and never holds more than Capacity; the owner's pop takes the newest position either through the CAS on top_ or without it, and then only when no thief can still "
         "reach that position (top_ strictly below it, so that top_ must change - forgetting every stale bottom_ - before getting there); a steal hands out the element that was in place at the "
         "position it took; quiescent: pop and steal succeed iff non-empty, push iff not full, pop returns the newest and steal the oldest element.",
    note="A-SC: the proof itself is blind to orderings weaker than SC; the memory-order DISCIPLINE is checked instead (seq_cst fence between the owner's lowering store of bottom_ and its load of "
         "top_ in both pops and between a thief's loads of top_ and bottom_, release on the publishing store, seq_cst CASes, acquire thief loads) - this is what catches a weakened fence. The "
         "relies (specs/c36_chaselev.c) and the R/G meta-theorem are trusted; exactly-once = one CAS winner per position (RMW axiom) + the obligations above; single owner as documented; "
         "capacities 2 and 4 (16 thorough); positions below 2^60.",
    technique="CBMC DFCC function contracts, rely/guarantee via interference before each atomic macro and slot read, history ghost for stale reads, memory-order discipline ghosts")
