"""C38 -- SmallVector behaves like std::vector with aligned storage and balanced lifetimes."""
from driver import Unit
import extract as X
import re

LEVEL = 'proof'
TRUSTED_BASE = ['CBMC 6.11 + cadical', 'tools/extract.py rewrite rules',
                '::operator new(size) returns a fresh block aligned to __STDCPP_DEFAULT_NEW_ALIGNMENT__ (16), alignedMalloc(bytes, a) one aligned to a (alignedMalloc itself is under contract in C44); neither fails',
                'the inline buffer is declared alignas(T) (checked textually) and sizeof(T) is a multiple of alignof(T), so element i of a block is aligned iff the block base is']
ASSUMPTIONS = ['element type abstracted to an int tag: copies/moves are value copies (no throwing or self-referential element types)',
               'sizes and capacities below 2^40 elements (newCap * sizeof(T) does not overflow); resize/reserve arguments within that bound',
               'the union of inline storage and {ptr, capacity} is rendered as two separate fields: reading the inactive member is not detected',
               'postconditions speak about two adjacent tracked element indices g_k, g_k+1 (arbitrary): what holds for them holds for every index',
               'inline capacities N in {1, 4} (quick) and {1, 2, 4, 64} (thorough); alignof(T) in {8, 64}: N and alignof(T) only enter comparisons',
               'range-for over another SmallVector is rendered as the index loop over [0, rawSize()) of its data() (begin() = data(), end() = data() + rawSize(), one-line bodies checked textually)',
               'iterator-pair / initializer_list constructors, operator[], front/back, iterators are not under contract; SmallVector(count[, value]) is proved through the contract of resize']
EXPLANATION = 'every mutating operation against the std::vector effect on an arbitrary pair of adjacent indices, with lifetime, bounds and alignment obligations at each element access'

F = 'dispenso/small_vector.h'
CLS = r'class\s+SmallVector\s*(?=\{)'
MEMBERS = ['isInline', 'rawSize', 'data', 'capacity', 'setSize', 'growToHeap', 'relocateToHeap', 'ensureCapacity', 'destroyAll', 'emplace_back', 'pop_back', 'resize', 'erase', 'clear', 'reserve', 'inlineData']
SUBS = [
    # R15: `#if defined(__cpp_exceptions) try { S } catch (...) { cleanup; throw; } #else S #endif`: the element type of the model does not
    # throw, so the variant the code itself provides for builds without exceptions is the one rendered
    ('R15', r'(?s)#if defined\(__cpp_exceptions\)(?:(?!#endif).)*?#else(.*?)#endif[^\n]*', r'\1'),
    # allocation / release
    ('R12', r'static_cast<T\*>\(\s*::operator new\(\s*(\w+)\s*\*\s*sizeof\(T\)\s*\)\s*\)', r'SV_new(\1)'),
    # the alignment argument is captured as written (alignof(T) is rewritten by the R4 rule below); the one-argument overload of
    # alignedMalloc aligns to kCacheLineSize (dispenso/platform.h), probed from the real headers as KCACHELINE
    ('R12', r'static_cast<T\*>\(\s*(?:detail::)?alignedMalloc\(\s*(\w+)\s*\*\s*sizeof\(T\)\s*,\s*((?:[^(),]|\([^()]*\))+?)\s*\)\s*\)', r'SV_new_aligned(\1, \2)', 'opt'),
    ('R12', r'static_cast<T\*>\(\s*(?:detail::)?alignedMalloc\(\s*(\w+)\s*\*\s*sizeof\(T\)\s*\)\s*\)', r'SV_new_aligned(\1, KCACHELINE)', 'opt'),
    ('R4', r'\bkCacheLineSize\b', 'KCACHELINE', 'opt'),
    ('R12', r'::operator delete\(\s*storage_\.heap_\.ptr\s*\);', 'SV_free(self->heap_ptr, 0);'),
    ('R12', r'(?:detail::)?alignedFree\(\s*storage_\.heap_\.ptr\s*\);', 'SV_free(self->heap_ptr, 1);'),
    ('R4', r'\bkOverAligned\b', '(ALIGNOF_T > MAX_ALIGN_T)'),
    ('R4', r'alignof\(T\)', 'ALIGNOF_T'),
    ('R4', r'alignof\(std::max_align_t\)', 'MAX_ALIGN_T'),
    ('R4', r'__STDCPP_DEFAULT_NEW_ALIGNMENT__', 'DEFAULT_NEW_ALIGNMENT'),
    # other vector's members
    ('R11', r'other\.storage_\.heap_\.ptr', 'other->heap_ptr'),
    ('R11', r'other\.storage_\.heap_\.capacity', 'other->heap_capacity'),
    ('R12', r'new\s*\(inlineData\(\)\s*\+\s*(\w+)\)\s*T\(std::move\(other\.inlineData\(\)\[(\w+)\]\)\);', r'E_construct(self->inl, \1, E_move(other->inl, \2));'),
    ('R12', r'other\.inlineData\(\)\[(\w+)\]\.~T\(\);', r'E_destroy(other->inl, \1);'),
    ('R17', r'other\.(isInline|rawSize)\(\)', r'SV_\1(other)'),
    ('R11', r'other\.size_', 'other->size_'),
    # own members
    ('R11', r'storage_\.heap_\.ptr', 'self->heap_ptr'),
    ('R11', r'storage_\.heap_\.capacity', 'self->heap_capacity'),
    # element operations on a T* (rendered as Blk*)
    ('R9', r'(?<![\w:])T\*\s+(\w+)\s*(?=[;=])', r'BlkH \1 '),
    ('R12', r'new\s*\((\w+)\s*\+\s*(\w+)\)\s*T\(std::forward<Args>\(args\)\.\.\.\);', r'E_construct(\1, \2, ARG(args));'),
    ('R12', r'(?<![\w:])T\s+tmp\(std::forward<Args>\(args\)\.\.\.\);', 'T_tag tmp = ARG(args);   /* a temporary T built from args */'),
    ('R12', r'new\s*\((\w+)\s*\+\s*(\w+)\)\s*T\(std::move\(tmp\)\);', r'E_construct(\1, \2, tmp);'),
    ('R10', r'return\s+data\(\)\[(\w+)\];', r'return E_ref(SV_data(self), \1);'),
    ('R12', r'new\s*\((\w+)\s*\+\s*(\w+)\)\s*T\(std::move\((\w+)\[(\w+)\]\)\);', r'E_construct(\1, \2, E_move(\3, \4));'),
    ('R12', r'new\s*\((\w+)\s*\+\s*(\w+)\)\s*T\(\);', r'E_construct(\1, \2, T_DEFAULT);'),
    ('R12', r'new\s*\((\w+)\s*\+\s*(\w+)\)\s*T\(value\);', r'E_construct(\1, \2, ARG(value));   /* const T& value: may refer to an element of this vector */'),
    ('R12', r'(\w+)\[([^\]]+)\]\.~T\(\);', r'E_destroy(\1, \2);'),
    ('R12', r'(\w+)\[(\w+)\]\s*=\s*std::move\((\w+)\[([^\]]+)\]\);', r'E_assign(\1, \2, E_move(\3, \4));'),
    ('R10', r'return\s+(\w+)\[(\w+)\];', r'return E_ref(\1, \2);'),
    ('R10', r'return\s+data\(\)\s*\+\s*(\w+);', r'return E_ref(SV_data(self), \1);'),
    ('R9', r'size_type\s+index\s*=\s*pos\s*-\s*ptr;', 'size_type index = pos;   /* pos rendered as its offset from data() */'),
    ('R17', r'(?<![\w.>])inlineData\(\)', '(self->inl)'),
    ('R17', r'(?<![\w.>])(isInline|rawSize|data|capacity|destroyAll)\(\)', r'SV_\1(self)'),
    ('R17', r'(?<![\w.>])(setSize|growToHeap|relocateToHeap|ensureCapacity|emplace_back)\(', r'SV_\1(self, '),
    ('R11', r'(?<![\w.>])size_\b', 'self->size_'),
    ('R1', r'(?<![\w.])N\b', '((size_t)KN)'),
    ('R1', r'\bsize_type\b', 'size_t'),
    ('R1', r'\bsize_t\(1\)', '((size_t)1)'),
]
LC_VARS = 'g_T_constructed, g_T_destroyed'


def opt(subs):
    return [x + ('opt',) if len(x) == 3 else x for x in subs]


def build(ctx):
    r = ctx.repo
    txt = r.text(F)
    if 'kOverAligned' in txt and not re.search(r'static\s+constexpr\s+bool\s+kOverAligned\s*=\s*alignof\(T\)\s*>\s*alignof\(std::max_align_t\);', txt):
        raise X.ExtractionError('SmallVector: kOverAligned is no longer alignof(T) > alignof(std::max_align_t)')
    if not re.search(r'alignas\(T\)\s+unsigned\s+char\s+inline_\[sizeof\(T\)\s*\*\s*N\];', txt):
        raise X.ExtractionError('SmallVector: inline storage is no longer declared alignas(T) unsigned char inline_[sizeof(T) * N]')
    for pat in (r'void\s+push_back\(const T& value\)\s*\{\s*emplace_back\(value\);\s*\}', r'void\s+push_back\(T&& value\)\s*\{\s*emplace_back\(std::move\(value\)\);\s*\}'):
        if not re.search(pat, txt):
            raise X.ExtractionError('SmallVector: push_back no longer forwards to emplace_back')
    def em(name, sig, extra=(), must=(), **kw):
        pc = r.function(F, sig, within=CLS, **kw)
        X.inline_helpers(r, F, pc, within=CLS, exclude=set(MEMBERS) | {'T', 'SmallVector', 'alignedMalloc', 'alignedFree'})
        ctx.emit(name + '.body.inc', pc, subs=list(extra) + opt(SUBS), must_fire=list(must))
    em('SV_isInline', r'bool\s+isInline\s*\(\s*\)\s*const\s+noexcept')
    em('SV_rawSize', r'size_type\s+rawSize\s*\(\s*\)\s*const\s+noexcept')
    em('SV_data', r'(?<!const_)pointer\s+data\s*\(\s*\)\s*noexcept')
    em('SV_capacity', r'size_type\s+capacity\s*\(\s*\)\s*const\s+noexcept')
    em('SV_setSize', r'void\s+setSize\s*\(\s*size_type\s+s\s*\)\s*noexcept')
    em('SV_growToHeap', r'void\s+growToHeap\s*\(\s*size_type\s+newCap\s*\)', must=['R12'])
    if re.search(r'void\s+relocateToHeap\s*\(', txt):
        em('SV_relocateToHeap', r'void\s+relocateToHeap\s*\(\s*T\*\s+newData\s*,\s*size_type\s+newCap\s*\)', must=['R12'])
    else:
        ctx.emit_text('SV_relocateToHeap.body.inc', '{ __CPROVER_assert(0, "relocateToHeap does not exist in this tree"); }\n')
    em('SV_ensureCapacity', r'void\s+ensureCapacity\s*\(\s*size_type\s+newCap\s*\)')
    em('SV_destroyAll', r'void\s+destroyAll\s*\(\s*\)\s*noexcept', must=['R12'])
    em('SV_emplace_back', r'reference\s+emplace_back\s*\(\s*Args&&\.\.\.\s*args\s*\)', must=['R12'])
    em('SV_pop_back', r'void\s+pop_back\s*\(\s*\)', must=['R12'])
    em('SV_resize', r'void\s+resize\s*\(\s*size_type\s+count\s*\)', must=['R12'])
    em('SV_resize_value', r'void\s+resize\s*\(\s*size_type\s+count\s*,\s*const\s+T&\s+value\s*\)', must=['R12'])
    em('SV_erase', r'iterator\s+erase\s*\(\s*const_iterator\s+pos\s*\)', must=['R12'])
    em('SV_clear', r'void\s+clear\s*\(\s*\)\s*noexcept')
    em('SV_reserve', r'void\s+reserve\s*\(\s*size_type\s+newCap\s*\)')
    em('SV_dtor', r'~SmallVector\s*\(\s*\)')
    em('SV_move_ctor', r'SmallVector\s*\(\s*SmallVector&&\s+other\s*\)\s*noexcept', must=['R12'], ctor=True)
    # range-for over the other vector: begin() = data(), end() = data() + rawSize() (checked textually), rendered as the index loop
    if not (re.search(r'const_iterator\s+begin\(\)\s*const\s+noexcept\s*\{\s*return\s+data\(\);\s*\}', txt) and re.search(r'const_iterator\s+end\(\)\s*const\s+noexcept\s*\{\s*return\s+data\(\)\s*\+\s*rawSize\(\);\s*\}', txt)):
        raise X.ExtractionError('SmallVector: const begin()/end() are no longer data() / data() + rawSize()')
    RF = [('R6', r'for\s*\(const auto&\s+(\w+)\s*:\s*other\)\s*\{\s*emplace_back\(\1\);\s*\}',
           'for (size_t it_ = 0; it_ < SV_rawSize(other); ++it_) { SV_emplace_back(self, (Arg){1, 0, DATA(other), it_}); }', 1),
          ('R17', r'this\s*!=\s*&other', 'self != other', 'opt'), ('R10', r'return\s+\*this;', 'return;', 'opt')]
    em('SV_copy_ctor', r'SmallVector\s*\(\s*const\s+SmallVector&\s+other\s*\)', must=['R6'], extra=RF, ctor=True)
    em('SV_copy_assign', r'SmallVector&\s+operator=\s*\(\s*const\s+SmallVector&\s+other\s*\)', must=['R6'], extra=RF)
    em('SV_ctor_count', r'explicit\s+SmallVector\s*\(\s*size_type\s+count\s*\)', ctor=True, extra=[('R17', r'(?<![\w.>])resize\(count\);', 'SV_resize(self, count);', 1)])
    em('SV_ctor_count_value', r'SmallVector\s*\(\s*size_type\s+count\s*,\s*const\s+T&\s+value\s*\)', ctor=True, extra=[('R17', r'(?<![\w.>])resize\(count,\s*value\);', 'SV_resize_value(self, count, value);', 1)])
    em('SV_move_assign', r'SmallVector&\s+operator=\s*\(\s*SmallVector&&\s+other\s*\)\s*noexcept', must=['R12'],
       extra=[('R17', r'this\s*!=\s*&other', 'self != other', 1), ('R10', r'return\s+\*this;', 'return;', 1)])
    S = 'specs/c38_smallvector.c'
    units = []
    BOUND = 4
    kcl = ctx.probe(['dispenso/platform.h'], ['dispenso::kCacheLineSize'])[0]
    # alignments: default (8), over-aligned up to the cache line (64), and beyond the cache line (4 * kCacheLineSize)
    big = str(4 * int(kcl))
    for n, al in ([(1, 8), (4, 64), (1, big)] if ctx.tier == 'quick' else [(1, 8), (2, 64), (4, 8), (4, 64), (64, 8), (1, big), (4, big)]):
        d = {'KN': str(n), 'ALIGNOF_T': str(al), 'KCACHELINE': kcl}
        inst = 'N=%d,alignof(T)=%s' % (n, al)
        common = dict(defines=d, inst=inst, timeout=1500, object_bits=10, expect=[r'postcondition'])
        for fn in ('SV_isInline', 'SV_rawSize', 'SV_data', 'SV_capacity', 'SV_setSize'):
            units.append(Unit('SmallVector::' + fn[3:], 'cbmc', S, fn, **common))
        acc = ['SV_isInline', 'SV_rawSize', 'SV_data', 'SV_capacity', 'SV_setSize']
        # every operation that walks or relocates elements: the element loops (and the callee bodies that contain them) are unwound for
        # vectors of at most BOUND elements -- bounded stand-ins, never counted as proved (loop contracts over the block table did not
        # close in the time available: DESIGN section 5, C38)
        bd = dict(d); bd['SIZE_BOUND'] = str(BOUND)
        for fn, callee in (('SV_ctor_count', 'SV_resize'), ('SV_ctor_count_value', 'SV_resize_value')):
            units.append(Unit('SmallVector::' + fn[3:], 'cbmc', S, fn, replace=acc + [callee], **common))     # no element loop left: resize is used through its contract, count unbounded
        copy_here = (n, al) == (1, 8)     # the copy units take ~4 min and several GB each: one instantiation (both tiers; with all thorough instantiations in parallel they ran out of memory)
        for fn in ('SV_growToHeap', 'SV_destroyAll', 'SV_ensureCapacity', 'SV_emplace_back', 'SV_pop_back', 'SV_clear', 'SV_reserve', 'SV_dtor', 'SV_resize', 'SV_resize_value', 'SV_erase', 'SV_move_ctor', 'SV_move_assign', 'SV_copy_ctor', 'SV_copy_assign'):
            if fn in ('SV_copy_ctor', 'SV_copy_assign') and not copy_here:
                continue
            units.append(Unit('SmallVector::' + fn[3:], 'cbmc', S, fn, replace=acc, unwind=12, replay=dict(prog='replay/c38_replay.cpp', args=lambda ce, u: ['1']),
                              **({'object_bits': 12} if fn in ('SV_copy_ctor', 'SV_copy_assign') else {}),
                              bounded='sizes, capacities and counts <= %d elements (element loops unwound); element index g_k arbitrary' % BOUND,
                              **dict({k: v for k, v in common.items() if not (k == 'object_bits' and fn in ('SV_copy_ctor', 'SV_copy_assign'))}, defines=bd, expect=[r'postcondition', r'E_check\.assertion'] if fn not in ('SV_reserve', 'SV_ensureCapacity') else [r'postcondition'])))
    return units
