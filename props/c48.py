"""C48 -- maxThreads bounds the concurrency of parallel loops (and C14's state exclusivity, same skeleton)."""
from driver import Unit
import extract as X
import importlib.util, os, re
def _load(n):
    sp = importlib.util.spec_from_file_location(n + 'mod', os.path.join(os.path.dirname(__file__), n + '.py'))
    m = importlib.util.module_from_spec(sp)
    sp.loader.exec_module(m)
    return m
c17 = _load('c17')
c12 = _load('c12')
c15 = _load('c15')

LEVEL = 'proof'
TRUSTED_BASE = ['CBMC 6.11 + cadical (skeleton, ghost ledger)', 'tools/intwp.py + z3-new/cvc5 (sizing arithmetic)', 'tools/extract.py rewrite rules',
                'stub contracts of the scheduling paths (parallel_for_staticImpl, dynamicImpl, adaptiveWaitDispatch, dynamicNoWaitDispatch): how many invocations they '
                'make runnable and whether they wait is read off their code and backed by the numThreads / numToLaunch units, not by a proof of the lambdas inside them']
ASSUMPTIONS = ['the count is of invocations that MAY overlap (made runnable and not yet waited for, plus the one on the caller), not of simultaneity on hardware',
               'each scheduled task runs exactly once (C01) and TaskSet::wait is a barrier (C02)',
               'options.maxThreads above INT32_MAX is read as negative by the code and treated as 1 (serial): within the bound']
EXPLANATION = 'ghost concurrency/state ledger over the extracted top-level parallel_for control flow; sizing units bound the thread counts'

PF = 'dispenso/parallel_for.h'
PS = 'dispenso/detail/par_for_static.h'


def skeleton_pieces(ctx):
    r = ctx.repo
    CR = c12.CR
    cr = r.function(PF, CR)
    ctx.emit('ChunkedRange.fields.inc', X.slice_between(cr, r'IntegerT\s+start\s*;', r'IntegerT\s+chunk\s*;', include_end=True))
    mem = [('R11', r'(?<![\w.>])(start|end|chunk)\b', r'self->\1')]
    ctx.emit('ChunkedRange_empty.body.inc', r.function(PF, r'bool\s+empty\s*\(\s*\)\s*const', within=CR), subs=mem)
    ctx.emit('ChunkedRange_isStatic.body.inc', r.function(PF, r'bool\s+isStatic\s*\(\s*\)\s*const', within=CR), subs=mem + [('R4', r'\bkStatic\b', 'IT_MAX', 1)])
    ctx.emit('GranularityInfo.fields.inc', r.function(PF, r'struct\s+GranularityInfo\s*(?=\{)'))
    body = r.function(PF, r'void\s+parallel_for\s*\(\s*TaskSetT&\s*taskSet\s*,\s*StateContainer&\s*states\s*,\s*const\s+StateGen&\s*defaultState\s*,\s*const\s+ChunkedRange<IntegerT>&\s*range\s*,\s*F&&\s*f\s*,\s*ParForOptions\s+options\s*=\s*\{\}\s*\)')
    subs = [
        ('R1', r'using\s+size_type\s*=[^;]*;', '', 1),
        ('R14', r'auto\s+runTail\s*=\s*\[&\]\(\)\s*\{\s*if\s*\(hasTail\)\s*\{\s*f\(\*states\.begin\(\),\s*trimmedEnd,\s*range\.end\);\s*\}\s*\};', '/* runTail(): lambda body substituted at its call sites (R14) */', 1),
        ('R14', r'runTail\(\);', 'if (hasTail) { G_tail_body(trimmedEnd, range.end); }'),
        ('R17', r'range\.empty\(\)', 'ChunkedRange_empty(&range)', 1),
        ('R17', r'parRange\.empty\(\)', 'ChunkedRange_empty(&parRange)', 1),
        ('R17', r'range\.isStatic\(\)', 'ChunkedRange_isStatic(&range)', 1),
        ('R17', r'taskSet\.wait\(\);', 'G_wait();'),
        ('R9', r'auto\s+granInfo\s*=\s*detail::computeGranularity\(range,', 'GranularityInfo granInfo = computeGranularity(&range,', 1),
        ('R10', r'ChunkedRange<IntegerT>\s+parRange\s*=\s*range;', 'ChunkedRange parRange = range;', 1),
        ('R17', r'taskSet\.numPoolThreads\(\)', 'G_numPoolThreads()', 1),
        ('R17', r'detail::PerPoolPerThreadInfo::isParForRecursive\(&taskSet\.pool\(\)\)', 'G_isRecursive()', 1),
        ('R17', r'detail::initStates\(\s*states,\s*defaultState,', 'G_initStates('),
        # a serial fallback: the bounds are captured as written; the contract (C12) demands that they are the whole range, because nothing
        # else visits any index on that path
        ('R13', r'f\(\*states\.begin\(\),\s*([\w.>-]+),\s*([\w.>-]+)\);', r'G_body_whole(0, \1, \2, range.start, range.end);'),
        ('R9', r'auto\s+chunkSizing\s*=\s*detail::adjustChunkSizing\(parRange,', 'ChunkSizingResult chunkSizing = adjustChunkSizing(&parRange,', 1),
        ('R17', r'detail::parallel_for_staticImpl\(\s*taskSet,\s*states,\s*defaultState,\s*parRange,\s*std::forward<F>\(f\),', 'G_staticImpl(&parRange,', 1),
        ('R9', r'auto\s+chunkInfo\s*=\s*parRange\.calcChunkSize\(', 'Tuple2 chunkInfo = ChunkedRange_calcChunkSize(&parRange, ', 1),
        ('R9', r'auto\s+chunkSize\s*=\s*std::get<0>\(chunkInfo\);', 'size_type chunkSize = chunkInfo._0;', 1),
        ('R9', r'auto\s+numChunks\s*=\s*std::get<1>\(chunkInfo\);', 'size_type numChunks = chunkInfo._1;', 1),
        ('R17', r'detail::parallel_for_adaptiveWaitDispatch\(\s*taskSet,\s*states,\s*parRange,\s*std::forward<F>\(f\),', 'G_adaptiveWaitDispatch(&parRange,', 1),
        ('R7', r'alignas\(kCacheLineSize\)\s*std::atomic<decltype\(numChunks\)>\s*index\(0\);', '/* shared chunk index (lives in the stub) */', 1),
        ('R17', r'detail::parallel_for_dynamicImpl\(\s*taskSet,\s*states,\s*parRange\.start,\s*parRange\.end,\s*std::forward<F>\(f\),', 'G_dynamicImpl(parRange.start, parRange.end,', 1),
        ('R17', r'index,\s*\[\]\(auto\)\s*\{\},', '', 1),
        ('R17', r'detail::parallel_for_dynamicNoWaitDispatch\(\s*taskSet,\s*states,\s*parRange,\s*std::forward<F>\(f\),', 'G_dynamicNoWaitDispatch(&parRange,', 1),
    ]
    txt = ctx.emit('parallel_for_skeleton.body.inc', body, subs=subs, must_fire=['R14', 'R13', 'R17', 'R9', 'R3', 'R2'])
    # calcChunkSize is called with 4 arguments in the source (maxDynFactor defaulted): make the default explicit
    p = os.path.join(ctx.gen, 'parallel_for_skeleton.body.inc')
    t = open(p).read()
    t2, n = re.subn(r'ChunkedRange_calcChunkSize\(&parRange, numToLaunch, options\.wait, minItemsPerChunk, granularity\)',
                    'ChunkedRange_calcChunkSize(&parRange, numToLaunch, options.wait, minItemsPerChunk, granularity, 16 /* default argument maxDynFactor */)', t)
    if n != 1:
        raise X.ExtractionError('calcChunkSize call with defaulted maxDynFactor not found')
    open(p, 'w').write(t2)
    # callee contract clauses used by the skeleton must literally be clauses of the proved contracts in c12_sizing.c
    proved = re.sub(r'\s+', '', open(os.path.join(os.path.dirname(__file__), '..', 'specs', 'c12_sizing.c')).read())
    for clause in ('__CPROVER_ensures(RV.granularity>=1)', '__CPROVER_ensures(range->start<=RV.trimmedEnd&&RV.trimmedEnd<=range->end)',
                   '__CPROVER_ensures(RV.hasTail==(RV.trimmedEnd!=range->end))', 'RV.maxThreads>=0&&RV.maxThreads<=maxThreads', '__CPROVER_ensures(RV._0>=1&&RV._1>=1)'):
        if clause not in proved:
            raise X.ExtractionError('skeleton uses callee clause %s that is not a clause of the proved contract' % clause)


def static_numthreads_piece(ctx):
    r = ctx.repo
    impl = r.function(PS, r'void\s+parallel_for_staticImpl\s*\([^)]*\)')
    sl = X.slice_between(impl, r'using\s+size_type\s*=[^;]*;', r'detail::initStates\(', include_start=False)
    ctx.emit('psi_numthreads.slice.inc', sl, must_fire=['R3', 'R17'],
             subs=[('R17', r'taskSet\.numPoolThreads\(\)', 'numPoolThreads'),
                   ('R3', r'std::min\((\w+),\s*range\.size\(\)\)', r'MIN_size_type(\1, ChunkedRange_size(&range))', 'opt'),
                   ('R3', r'std::min\((\w+),\s*(\w+)\)', r'MIN_size_type(\1, \2)', 'opt'),
                   ('R17', r'range\.size\(\)', 'ChunkedRange_size(&range)')])
    full = r.function(PS, r'void\s+parallel_for_staticImpl\s*\([^)]*\)')
    sl = X.slice_between(full, r'size_type\s+numToSchedule\s*=', r'if\s*\(numToSchedule\s*>\s*0\)')
    ctx.emit('psi_numtoschedule.slice.inc', sl)


def build(ctx):
    skeleton_pieces(ctx)
    c12.sizing_pieces(ctx)
    static_numthreads_piece(ctx)
    c15.pieces(ctx)
    units = []
    for t, uu, sg in ([c17.INSTS[4], c17.INSTS[7]] if ctx.tier == 'quick' else c17.INSTS):
        d = c17.inst_defines(t, uu, sg)
        bits = int(t.replace('uint', '').replace('int', '').replace('_t', ''))
        d['IT_MAX'] = str((1 << (bits - (1 if sg else 0))) - 1) + ('u' if not sg else '')
        units.append(Unit('parallel_for.skeleton', 'cbmc', 'specs/c48_skeleton.c', 'parallel_for_skeleton', defines=d, inst=t, timeout=600,
                          replace=['computeGranularity', 'adjustChunkSizing', 'ChunkedRange_calcChunkSize', 'G_staticImpl', 'G_adaptiveWaitDispatch', 'G_dynamicImpl', 'G_dynamicNoWaitDispatch'],
                          expect=[r'postcondition\.5', r'precondition'], flags=['--unwind', '9'], no_checks=False,
                          replay=dict(prog='replay/c48_replay.cpp', args=lambda ce, u: ['skeleton', 'T=' + u.inst] + ['%s=%s' % (k, str(v).rstrip('ulUL')) for k, v in sorted(ce.items())])))
        common = dict(defines=d, inst=t, timeout=400, signed_wrap=True, nonprop_cls=['overflow', 'conversion'])
        units.append(Unit('adjustChunkSizing', 'intwp', 'specs/c12_sizing.c', 'adjustChunkSizing', expect=[r'postcondition\.1'],
                          replay=dict(prog='replay/c12_replay.cpp', args=lambda ce, u: ['adjust', 'T=' + u.inst] + ['%s=%s' % (k, v) for k, v in sorted(ce.items()) if v is not None]), **common))
        units.append(Unit('parallel_for_staticImpl.numThreads', 'intwp', 'specs/c48_static.c', 'psi_numthreads', expect=[r'postcondition\.2'], **common))
    units.append(Unit('for_each_n.sizing', 'intwp', 'specs/c15_foreach.c', 'fe_sizing', expect=[r'postcondition\.4'], timeout=300,
                      replay=dict(prog='replay/c15_replay.cpp', args=lambda ce, u: ['sizing'] + ['%s=%s' % (k, v) for k, v in sorted(ce.items()) if v is not None])))
    return units
