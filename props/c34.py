"""C34 -- MpmcRingBuffer is an exactly-once bounded FIFO (rely/guarantee, any number of producers and consumers)."""
from driver import Unit, REPO
import extract as X
import subprocess, os, re

LEVEL = 'proof'
TRUSTED_BASE = ['CBMC 6.11 + cadical', 'tools/extract.py rewrite rules',
                'rely/guarantee meta-theorem; the rely is written in specs/c34_mpmc.c others_act() (head_, tail_, seq monotone; per-slot Vyukov invariant; owned slots untouched)',
                'ghost lifetime library (T is an int tag)', 'atomic RMW axiom: a strong compare_exchange succeeds for exactly one thread per value']
ASSUMPTIONS = ['A-SC; checked memory-order discipline: every load of seq is acquire, every store to seq is release (the CASes on head_/tail_ may be relaxed)',
               'positions below 2^62: no wrap of the 64-bit head_/tail_ counters (for non-power-of-two capacities i % kBufferSize is discontinuous at 2^64)',
               'verified at the buffer sizes of MpmcRingBuffer<int,2|3|4,true>, <int,3|6,false> (kBufferSize in {2,4} power-of-two and {3,6} exact; thorough adds 8 and 5); head_/tail_/seq fully symbolic',
               'Slot::data bytes are rendered as a T_cell (dataPtr(slot) = &slot->data); alignment of Slot::data is alignas(T) in the source and not re-verified',
               'exactly-once and FIFO follow from: position p is claimed by exactly one successful CAS on tail_ and one on head_ (RMW axiom), the claimant alone touches slot wrap(p) between its CAS and its release store (ownership obligations proved here), and pops claim positions in increasing order; the abstract queue itself is not carried as ghost state',
               'try_push(T&&), try_push(const T&), try_emplace forward to emplaceImpl (one-line bodies, checked textually)',
               'try_push_batch is verified at kBufferSize = 2 (all slots tracked; thorough also tries 4): at larger sizes the unwound batch loops under interference did not finish in 15 min',
               'exact (non-power-of-two) buffer sizes: wrapIndex == i % kBufferSize is proved (CBMC) and the modular-arithmetic facts the protocol proof uses are proved of % (intwp lemma), but the rely/guarantee proof itself is run at power-of-two sizes only: a 64-bit remainder inside it did not finish (probed > 20 min with a divider, with an uninterpreted function + axioms, and with a q*N+r decomposition)']
EXPLANATION = 'Vyukov per-slot sequence invariant preserved by every operation under arbitrary interference; slot data touched only by the claimant; quiescent success conditions exact'

F = 'dispenso/mpmc_ring_buffer.h'
CLS = r'class\s+MpmcRingBuffer\s*(?=\{)'
SUBS = [('R7', r'head_\.load\(std::memory_order_(\w+)\)', r'A_LOAD_pos(&self->head_, MO_\1)'),
        ('R7', r'tail_\.load\(std::memory_order_(\w+)\)', r'A_LOAD_pos(&self->tail_, MO_\1)'),
        ('R7', r'head_\.compare_exchange_strong\((\w+),\s*([^;]*?),\s*std::memory_order_(\w+)\)', r'A_CAS_head(self, &\1, \2, MO_\3)'),
        ('R7', r'tail_\.compare_exchange_strong\((\w+),\s*([^;]*?),\s*std::memory_order_(\w+)\)', r'A_CAS_tail(self, &\1, \2, MO_\3)'),
        # R8: a reference bound to an element of slots_ is rendered as the index it is bound to
        ('R8', r'Slot&\s+slot\s*=\s*slots_\[(.*?)\];', r'size_t slot_i = \1; VERIF_ACTIVE(slot_i);'),
        ('R7', r'slot\.seq\.load\(std::memory_order_(\w+)\)', r'A_LOAD_seq(self, slot_i, MO_\1)'),
        ('R7', r'slot\.seq\.store\(([^;]*?),\s*std::memory_order_(\w+)\);', r'A_STORE_seq(self, slot_i, \1, MO_\2);'),
        # T* elem = dataPtr(slot): elem aliases the slot's data for the rest of the block (assigned once)
        ('R9', r'T\*\s+elem\s*=\s*dataPtr\(slot\);', '/* elem = dataPtr(slot) */'),
        ('R12', r'elem->~T\(\);', 'S_destroy(self, slot_i);')]


def opt(subs):
    return [s + ('opt',) if len(s) == 3 else s for s in subs]


def probe(ctx, cap, roundup):
    src = os.path.join(ctx.scratch, 'mpmc_probe_%d_%d.cpp' % (cap, roundup))
    open(src, 'w').write('#include <dispenso/mpmc_ring_buffer.h>\n#include <cstdio>\nint main(){printf("%%zu", dispenso::MpmcRingBuffer<int,%d,%s>::capacity());}\n' % (cap, 'true' if roundup else 'false'))
    exe = src[:-4] + '.out'
    p = subprocess.run(['g++', '-std=c++14', '-I', REPO, '-I', os.path.join(REPO, 'dispenso/third-party'), src, '-o', exe], capture_output=True, text=True)
    if p.returncode != 0:
        raise X.ExtractionError('MPMC probe failed: ' + p.stderr[-300:])
    return int(subprocess.run([exe], capture_output=True, text=True).stdout)


def build(ctx):
    r = ctx.repo
    TM = {'intptr_t': 'intptr_t'}
    def em(name, sig, extra=(), must=('R7',), **kw):
        pc = r.function(F, sig, within=CLS, **kw)
        X.inline_helpers(r, F, pc, within=CLS, exclude={'wrapIndex', 'dataPtr', 'T', 'emplaceImpl'})
        ctx.emit(name + '.body.inc', pc, subs=opt(SUBS) + list(extra) + [('R1', r'(?<![\w.>:])Capacity\b', '((size_t)KCAPACITY)', 'opt')], must_fire=list(must), typemap=TM)   # Capacity: the template argument of the instantiation
    em('Mpmc_wrapIndex', r'static\s+size_t\s+wrapIndex\s*\(\s*size_t\s+i\s*\)', must=())
    em('Mpmc_emplaceImpl', r'bool\s+emplaceImpl\s*\(\s*Args&&\.\.\.\s*args\s*\)', must=('R7', 'R8', 'R12'),
       extra=[('R12', r'new\s*\(dataPtr\(slot\)\)\s*T\(std::forward<Args>\(args\)\.\.\.\);', 'S_construct(self, slot_i, args);', 1)])
    pop_extra = [('R5', ('call', r'static_assert\s*(?=\()'), '', 'opt')]
    em('Mpmc_try_pop_ref', r'bool\s+try_pop\s*\(\s*T&\s*item\s*\)', must=('R7', 'R8', 'R12'),
       extra=pop_extra + [('R12', r'item\s*=\s*std::move\(\*elem\);', 'item->value = S_move_from(self, slot_i);', 1)])
    em('Mpmc_try_pop_opt', r'OpResult<T>\s+try_pop\s*\(\s*\)', must=('R7', 'R8', 'R12'),
       extra=[('R12', r'OpResult<T>\s+result\(std::move\(\*elem\)\);', 'OpResult result = OpResult_from(S_move_from(self, slot_i));', 1),
              ('R10', r'return\s*\{\s*\};', 'return OpResult_empty();', 2)])
    em('Mpmc_try_pop_into', r'bool\s+try_pop_into\s*\(\s*T\*\s*storage\s*\)', must=('R7', 'R8', 'R12'),
       extra=[('R12', r'new\s*\(storage\)\s*T\(std::move\(\*elem\)\);', 'T_construct_at(storage, S_move_from(self, slot_i));', 1)])
    em('Mpmc_try_push_batch', r'size_type\s+try_push_batch\s*\(\s*T\*\s*items\s*,\s*size_type\s+count\s*\)', must=('R7', 'R8', 'R12'),
       extra=[('R12', r'new\s*\(dataPtr\(slot\)\)\s*T\(std::move\(items\[i\]\)\);', 'S_construct(self, slot_i, T_move_from(&items[i]));', 1)])
    em('Mpmc_empty', r'bool\s+empty\s*\(\s*\)\s*const')
    em('Mpmc_full', r'bool\s+full\s*\(\s*\)\s*const')
    em('Mpmc_size', r'size_type\s+size\s*\(\s*\)\s*const')
    em('Mpmc_ctor', r'(?<![~\w])MpmcRingBuffer\s*\(\s*\)\s*(?=\{)', must=('R7',),
       extra=[('R7', r'slots_\[i\]\.seq\.store\(i,\s*std::memory_order_relaxed\);', 'SL(self, i)->seq = i; A_NOTE(MO_relaxed);', 1)])
    em('Mpmc_dtor', r'~MpmcRingBuffer\s*\(\s*\)', must=('R7', 'R12'),
       extra=[('R12', r'dataPtr\(slots_\[pos\]\)->~T\(\);', 'S_destroy(self, pos);', 1)])
    # the three public push entry points must forward to emplaceImpl (one-line bodies)
    txt = r.text(F)
    for pat in (r'bool\s+try_push\s*\(\s*T&&\s*item\s*\)\s*\{\s*return\s+emplaceImpl\(std::move\(item\)\);\s*\}',
                r'bool\s+try_push\s*\(\s*const\s+T&\s*item\s*\)\s*\{\s*return\s+emplaceImpl\(item\);\s*\}',
                r'bool\s+try_emplace\s*\(\s*Args&&\.\.\.\s*args\s*\)\s*\{\s*return\s+emplaceImpl\(std::forward<Args>\(args\)\.\.\.\);\s*\}'):
        if not re.search(pat, txt):
            raise X.ExtractionError('MpmcRingBuffer: a push entry point no longer forwards to emplaceImpl: ' + pat[:40])
    S = 'specs/c34_mpmc.c'
    units = []
    # (Capacity, RoundUp): power-of-two buffer sizes carry the whole protocol proof; for exact (non-power-of-two) sizes only
    # wrapIndex and the wrap lemma are verified (a 64-bit remainder inside the rely/guarantee proof is out of reach here)
    insts = [(2, True), (3, True), (16, True), (3, False), (6, False)] if ctx.tier == 'quick' else [(2, True), (3, True), (7, True), (16, True), (3, False), (5, False), (6, False), (12, False)]
    for cap, ru in insts:
        kb = probe(ctx, cap, ru)
        pow2 = (kb & (kb - 1)) == 0
        d = {'KBUF': str(kb), 'KPOW2': '1' if pow2 else '0', 'KCAPACITY': str(cap)}
        inst = 'Capacity=%d,RoundUp=%s,kBufferSize=%d' % (cap, ru, kb)
        dx = dict(d); dx['WRAP_EXACT'] = None
        units.append(Unit('MPMC.wrapIndex', 'cbmc', S, 'wrapIndex', expect=[r'postcondition'], defines=dx, inst=inst))
        if not pow2:
            units.append(Unit('MPMC.wrap_lemma', 'intwp', S, 'c34_wrap_axioms', expect=[r'assertion\.4'], defines=d, inst=inst, timeout=120))
            continue
        common = dict(defines=d, inst=inst, timeout=1800, unwind=kb + 3, replace=['wrapIndex'], solver=(), extra_checks=[], object_bits=12,
                      replay=dict(prog='replay/c34_replay.cpp', args=lambda ce, u: ['6'], no_rlimit=True),
                      assumptions=['loops of the batch push, constructor and destructor are bounded by the constant kBufferSize: unwound completely'])
        for fn in ('Mpmc_emplaceImpl', 'Mpmc_try_pop_ref', 'Mpmc_try_pop_opt', 'Mpmc_try_pop_into'):
            units.append(Unit(fn.replace('Mpmc_', 'MPMC.'), 'cbmc', S, fn, expect=[r'postcondition\.4', r'A_CAS_(head|tail)\.assertion', r'S_(construct|move_from)\.assertion', r'A_STORE_seq\.assertion', r'check_all\.assertion'], **common))
        db = dict(d); db['NO_PROPHECY'] = None
        cb = dict(common); cb['defines'] = db
        if kb == 2 or (kb == 4 and ctx.tier == 'thorough'):
          cb['timeout'] = 3600
          units.append(Unit('MPMC.try_push_batch', 'cbmc', S, 'Mpmc_try_push_batch', expect=[r'postcondition\.6', r'A_CAS_tail\.assertion', r'S_construct\.assertion', r'A_STORE_seq\.assertion'], **cb))
        for fn in ('Mpmc_empty', 'Mpmc_full', 'Mpmc_size', 'Mpmc_ctor', 'Mpmc_dtor'):
            units.append(Unit(fn.replace('Mpmc_', 'MPMC.'), 'cbmc', S, fn, expect=[r'postcondition'], **common))
    return units
