"""C34 -- MpmcRingBuffer is an exactly-once bounded FIFO (rely/guarantee, any number of producers and consumers)."""
from driver import Unit, REPO
import extract as X
import subprocess, os, re

LEVEL = 'proof'
TRUSTED_BASE = ['CBMC 6.11 + cadical', 'tools/extract.py rewrite rules',
                'rely/guarantee meta-theorem; the rely is written in specs/c34_mpmc.c others_act() (head_, tail_, seq monotone; per-slot Vyukov invariant; owned slots untouched)',
                'ghost lifetime library (T is an int tag)', 'atomic RMW axiom: a strong compare_exchange succeeds for exactly one thread per value']
ASSUMPTIONS = ['A-SC; checked memory-order discipline: every load of seq is acquire, every store to seq is release (the CASes on head_/tail_ may be relaxed)',
               'positions below 2^62: no wrap of the 64-bit head_/tail_ counters (for non-power-of-two capacities i % kBufferSize is discontinuous at 2^64)',
               'verified at the buffer sizes of MpmcRingBuffer<int,2|3|4,true>, <int,3|6,false> (kBufferSize in {2,4} power-of-two and {3,6} exact; thorough adds 8 and 5); head_/tail_/seq fully symbolic',
               'Slot::data bytes are rendered as a T_cell (dataPtr(slot) = &slot->data); alignment of Slot::data is alignas(T) in the source and not re-verified',
               'exactly-once and FIFO follow from: position p is claimed by exactly one successful CAS on tail_ and one on head_ (RMW axiom), the claimant alone touches slot wrap(p) between its CAS and its release store (ownership obligations proved here), and pops claim positions in increasing order; the abstract queue itself is not carried as ghost state',
               'try_push(T&&), try_push(const T&), try_emplace forward to emplaceImpl (one-line bodies, checked textually)']
EXPLANATION = 'Vyukov per-slot sequence invariant preserved by every operation under arbitrary interference; slot data touched only by the claimant; quiescent success conditions exact'

F = 'dispenso/mpmc_ring_buffer.h'
CLS = r'class\s+MpmcRingBuffer\s*(?=\{)'
SUBS = [('R7', r'head_\.load\(std::memory_order_(\w+)\)', r'A_LOAD_pos(&self->head_, MO_\1)'),
        ('R7', r'tail_\.load\(std::memory_order_(\w+)\)', r'A_LOAD_pos(&self->tail_, MO_\1)'),
        ('R7', r'head_\.compare_exchange_strong\((\w+),\s*([^;]*?),\s*std::memory_order_(\w+)\)', r'A_CAS_head(self, &\1, \2, MO_\3)'),
        ('R7', r'tail_\.compare_exchange_strong\((\w+),\s*([^;]*?),\s*std::memory_order_(\w+)\)', r'A_CAS_tail(self, &\1, \2, MO_\3)'),
        ('R8', r'Slot&\s+slot\s*=\s*slots_\[(.*?)\];', r'Slot* slot = &self->slots_[\1];'),
        ('R7', r'slot\.seq\.load\(std::memory_order_(\w+)\)', r'A_LOAD_seq(slot, MO_\1)'),
        ('R7', r'slot\.seq\.store\(([^;]*?),\s*std::memory_order_(\w+)\);', r'A_STORE_seq(slot, \1, MO_\2);'),
        ('R9', r'T\*\s+elem\s*=\s*dataPtr\(slot\);', 'T_cell* elem = dataPtr(slot);'),
        ('R12', r'elem->~T\(\);', 'T_destroy_at(elem);')]


def opt(subs):
    return [s + ('opt',) if len(s) == 3 else s for s in subs]


def probe(ctx, cap, roundup):
    src = os.path.join(ctx.scratch, 'mpmc_probe_%d_%d.cpp' % (cap, roundup))
    open(src, 'w').write('#include <dispenso/mpmc_ring_buffer.h>\n#include <cstdio>\nint main(){printf("%%zu", dispenso::MpmcRingBuffer<int,%d,%s>::capacity());}\n' % (cap, 'true' if roundup else 'false'))
    exe = src[:-4] + '.out'
    p = subprocess.run(['g++', '-std=c++14', '-I', REPO, '-I', os.path.join(REPO, 'dispenso/third-party'), src, '-o', exe], capture_output=True, text=True)
    if p.returncode != 0:
        raise X.ExtractionError('MPMC probe failed: ' + p.stderr[-300:])
    return int(subprocess.run([exe], capture_output=True, text=True).stdout)


def build(ctx):
    r = ctx.repo
    TM = {'intptr_t': 'intptr_t'}
    def em(name, sig, extra=(), must=('R7',), **kw):
        ctx.emit(name + '.body.inc', r.function(F, sig, within=CLS, **kw), subs=opt(SUBS) + list(extra), must_fire=list(must), typemap=TM)
    em('Mpmc_wrapIndex', r'static\s+size_t\s+wrapIndex\s*\(\s*size_t\s+i\s*\)', must=())
    em('Mpmc_emplaceImpl', r'bool\s+emplaceImpl\s*\(\s*Args&&\.\.\.\s*args\s*\)', must=('R7', 'R8', 'R12'),
       extra=[('R12', r'new\s*\(dataPtr\(slot\)\)\s*T\(std::forward<Args>\(args\)\.\.\.\);', 'T_construct_at(dataPtr(slot), args);', 1)])
    pop_extra = [('R5', ('call', r'static_assert\s*(?=\()'), '', 'opt')]
    em('Mpmc_try_pop_ref', r'bool\s+try_pop\s*\(\s*T&\s*item\s*\)', must=('R7', 'R8', 'R12'),
       extra=pop_extra + [('R12', r'item\s*=\s*std::move\(\*elem\);', 'item->value = T_move_from(elem);', 1)])
    em('Mpmc_try_pop_opt', r'OpResult<T>\s+try_pop\s*\(\s*\)', must=('R7', 'R8', 'R12'),
       extra=[('R12', r'OpResult<T>\s+result\(std::move\(\*elem\)\);', 'OpResult result = OpResult_from(T_move_from(elem));', 1),
              ('R10', r'return\s*\{\s*\};', 'return OpResult_empty();', 2)])
    em('Mpmc_try_pop_into', r'bool\s+try_pop_into\s*\(\s*T\*\s*storage\s*\)', must=('R7', 'R8', 'R12'),
       extra=[('R12', r'new\s*\(storage\)\s*T\(std::move\(\*elem\)\);', 'T_construct_at(storage, T_move_from(elem));', 1)])
    em('Mpmc_try_push_batch', r'size_type\s+try_push_batch\s*\(\s*T\*\s*items\s*,\s*size_type\s+count\s*\)', must=('R7', 'R8', 'R12'),
       extra=[('R12', r'new\s*\(dataPtr\(slot\)\)\s*T\(std::move\(items\[i\]\)\);', 'T_construct_at(dataPtr(slot), T_move_from(&items[i]));', 1)])
    em('Mpmc_empty', r'bool\s+empty\s*\(\s*\)\s*const')
    em('Mpmc_full', r'bool\s+full\s*\(\s*\)\s*const')
    em('Mpmc_size', r'size_type\s+size\s*\(\s*\)\s*const')
    em('Mpmc_ctor', r'(?<![~\w])MpmcRingBuffer\s*\(\s*\)\s*(?=\{)', must=('R7',),
       extra=[('R7', r'slots_\[i\]\.seq\.store\(i,\s*std::memory_order_relaxed\);', 'self->slots_[i].seq = i; A_NOTE(MO_relaxed);', 1)])
    em('Mpmc_dtor', r'~MpmcRingBuffer\s*\(\s*\)', must=('R7', 'R12'),
       extra=[('R12', r'dataPtr\(slots_\[pos\]\)->~T\(\);', 'T_destroy_at(&self->slots_[pos].data);', 1)])
    # the three public push entry points must forward to emplaceImpl (one-line bodies)
    txt = r.text(F)
    for pat in (r'bool\s+try_push\s*\(\s*T&&\s*item\s*\)\s*\{\s*return\s+emplaceImpl\(std::move\(item\)\);\s*\}',
                r'bool\s+try_push\s*\(\s*const\s+T&\s*item\s*\)\s*\{\s*return\s+emplaceImpl\(item\);\s*\}',
                r'bool\s+try_emplace\s*\(\s*Args&&\.\.\.\s*args\s*\)\s*\{\s*return\s+emplaceImpl\(std::forward<Args>\(args\)\.\.\.\);\s*\}'):
        if not re.search(pat, txt):
            raise X.ExtractionError('MpmcRingBuffer: a push entry point no longer forwards to emplaceImpl: ' + pat[:40])
    S = 'specs/c34_mpmc.c'
    units = []
    insts = [(2, True), (3, False), (3, True)] if ctx.tier == 'quick' else [(2, True), (3, False), (3, True), (6, False), (5, False), (8, True)]
    for cap, ru in insts:
        kb = probe(ctx, cap, ru)
        d = {'KBUF': str(kb), 'KPOW2': '1' if (kb & (kb - 1)) == 0 else '0'}
        inst = 'Capacity=%d,RoundUp=%s,kBufferSize=%d' % (cap, ru, kb)
        common = dict(defines=d, inst=inst, timeout=900, unwind=kb + 3, replace=['wrapIndex'],
                      assumptions=['slot loops of the interference step, guarantee check, harness, batch and destructor are bounded by the constant kBufferSize: unwound completely'])
        units.append(Unit('MPMC.wrapIndex', 'cbmc', S, 'wrapIndex', expect=[r'postcondition'], defines=d, inst=inst))
        for fn in ('Mpmc_emplaceImpl', 'Mpmc_try_pop_ref', 'Mpmc_try_pop_opt', 'Mpmc_try_pop_into', 'Mpmc_try_push_batch'):
            units.append(Unit(fn.replace('Mpmc_', 'MPMC.'), 'cbmc', S, fn, expect=[r'postcondition\.3', r'A_CAS_(head|tail)\.assertion', r'dataPtr\.assertion', r'A_STORE_seq\.assertion'], **common))
        for fn in ('Mpmc_empty', 'Mpmc_full', 'Mpmc_size', 'Mpmc_ctor', 'Mpmc_dtor'):
            units.append(Unit(fn.replace('Mpmc_', 'MPMC.'), 'cbmc', S, fn, expect=[r'postcondition'], **common))
    return units
