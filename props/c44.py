"""C44 -- bit-math helpers are correct for all inputs."""
from driver import Unit
import extract as X

LEVEL = 'proof'
TRUSTED_BASE = ['CBMC 6.11 + cadical', 'tools/extract.py rewrite rules',
                'axiom AX_bsr64/AX_bsr32: x86 bsr returns the index of the most significant set bit for a non-zero source (Intel SDM); inline asm is outside the verifier',
                'axiom G_malloc: malloc returns a fresh 16-byte aligned block that does not wrap the address space and does not fail']
ASSUMPTIONS = ['CBMC models __builtin_ctzll/__builtin_popcountll per GCC documentation',
               'alignedMalloc/alignedFree are verified in integer address space: pointers are uintptr_t, the heap is a ghost block + ghost recovery word',
               'alignedMalloc: alignment is a power of two <= 2^32 and bytes <= 2^48 (no address-space wrap)']
EXPLANATION = 'function contracts on math.h/platform.h helpers, bit-precise over all inputs; log2 asm by axiom + native exhaustive comparison (bounded, not counted)'

M = 'dispenso/detail/math.h'
P = 'dispenso/platform.h'


def build(ctx):
    r = ctx.repo
    ctx.emit('nextPow2.body.inc', r.function(M, r'constexpr\s+uint64_t\s+nextPow2\s*\(\s*uint64_t\s+v\s*\)'))
    ctx.emit('log2const64.body.inc', r.function(M, r'constexpr\s+inline\s+uint32_t\s+log2const\s*\(\s*uint64_t\s+v\s*\)'), must_fire=['R5'])
    ctx.emit('log2const32.body.inc', r.function(M, r'constexpr\s+inline\s+uint32_t\s+log2const\s*\(\s*uint32_t\s+v\s*\)'), must_fire=['R5'])
    # first definition in the file is the (__GNUC__||__clang__) && __x86_64__ branch, the one compiled here
    ctx.emit('log2_64.body.inc', r.function(M, r'inline\s+uint32_t\s+log2\s*\(\s*uint64_t\s+v\s*\)', which=0), must_fire=['R18', 'R2'],
             subs=[('R18', r'uint64_t\s+result\s*;\s*__asm__\s*\(\s*"bsrq %1, %0"\s*:\s*"=r"\s*\(result\)\s*:\s*"r"\s*\(v\)\s*\)\s*;', 'uint64_t result = AX_bsr64(v);', 1)])
    ctx.emit('log2_32.body.inc', r.function(M, r'inline\s+uint32_t\s+log2\s*\(\s*uint32_t\s+v\s*\)', which=0), must_fire=['R18'],
             subs=[('R18', r'uint32_t\s+result\s*;\s*__asm__\s*\(\s*"bsrl %1, %0"\s*:\s*"=r"\s*\(result\)\s*:\s*"r"\s*\(v\)\s*\)\s*;', 'uint32_t result = AX_bsr32(v);', 1)])
    ctx.emit('countTrailingZeros.body.inc', r.function(M, r'inline\s+int32_t\s+countTrailingZeros\s*\(\s*uint64_t\s+v\s*\)', which=0), must_fire=['R6'])
    ctx.emit('countSetBits.body.inc', r.function(M, r'inline\s+int32_t\s+countSetBits\s*\(\s*uint64_t\s+v\s*\)', which=0), must_fire=['R2'])
    ctx.emit('alignToCacheLine.body.inc', r.function(P, r'inline\s+constexpr\s+uintptr_t\s+alignToCacheLine\s*\(\s*uintptr_t\s+val\s*\)'), must_fire=['R5'])
    ctx.emit('alignedMalloc.body.inc', r.function(P, r'inline\s+void\s*\*\s*alignedMalloc\s*\(\s*size_t\s+bytes\s*,\s*size_t\s+alignment\s*\)'),
             must_fire=['R3', 'R19'],
             subs=[('R3', r'std::max\(alignment,\s*sizeof\(uintptr_t\)\)', 'MAX_size_t(alignment, sizeof(uintptr_t))', 1),
                   ('R19', r'char\*\s+ptr\s*=\s*reinterpret_cast<char\*>\(::malloc\(bytes \+ alignment\)\);', 'uintptr_t ptr = G_malloc(bytes + alignment);', 1),
                   ('R19', r'reinterpret_cast<uintptr_t>\(ptr\)', 'ptr', 1),
                   ('R19', r'uintptr_t\*\s+recovery\s*=\s*reinterpret_cast<uintptr_t\*>\(base - sizeof\(uintptr_t\)\);\s*\*recovery\s*=\s*oldBase;', 'G_store_word(base - sizeof(uintptr_t), oldBase);', 1),
                   ('R19', r'return reinterpret_cast<void\*>\(base\);', 'return base;', 1)])
    ctx.emit('alignedFree.body.inc', r.function(P, r'inline\s+void\s+alignedFree\s*\(\s*void\s*\*\s*ptr\s*\)'), must_fire=['R19'],
             subs=[('R19', r'char\*\s+p\s*=\s*reinterpret_cast<char\*>\(ptr\);', 'uintptr_t p = ptr;', 1),
                   ('R19', r'\*reinterpret_cast<uintptr_t\*>\(p - sizeof\(uintptr_t\)\)', 'G_load_word(p - sizeof(uintptr_t))', 1),
                   ('R19', r'::free\(reinterpret_cast<void\*>\(recovered\)\);', 'G_free(recovered);', 1)])
    # kCacheLineSize from the real header, by compiling a probe
    import subprocess, os
    probe = os.path.join(ctx.scratch, 'kcl.cpp')
    open(probe, 'w').write('#include <dispenso/platform.h>\n#include <cstdio>\nint main(){printf("%zu", dispenso::kCacheLineSize);}\n')
    exe = os.path.join(ctx.scratch, 'kcl.out')
    from driver import REPO
    p = subprocess.run(['g++', '-std=c++17', '-I', REPO, probe, '-o', exe], capture_output=True, text=True)
    if p.returncode != 0:
        raise X.ExtractionError('probe for kCacheLineSize failed: ' + p.stderr[-300:])
    kcl = subprocess.run([exe], capture_output=True, text=True).stdout.strip()
    d = {'KCACHELINE': kcl + 'u'}
    S = 'specs/c44_math.c'
    rp = lambda kind: dict(prog='replay/c44_replay.cpp', args=lambda ce, u, kind=kind: [kind] + ['%s=%s' % (k, v) for k, v in sorted(ce.items())])
    units = [
        Unit('nextPow2', 'cbmc', S, 'nextPow2', defines=d, expect=[r'postcondition'], replay=rp('nextPow2'), timeout=300),
        Unit('log2const64', 'cbmc', S, 'log2const64', defines=d, unwind=8, expect=[r'postcondition', r'array_bounds'], replay=rp('log2const64'),
             assumptions=['log2const loops are bounded by the constant 6/5 of the code: --unwind 8 with unwinding assertions passing is complete']),
        Unit('log2const32', 'cbmc', S, 'log2const32', defines=d, unwind=8, expect=[r'postcondition', r'array_bounds'], replay=rp('log2const32')),
        Unit('log2(uint64_t)', 'cbmc', S, 'log2_64', defines=d, replace=['AX_bsr64'], expect=[r'postcondition'], replay=rp('log2_64')),
        Unit('log2(uint32_t)', 'cbmc', S, 'log2_32', defines=d, replace=['AX_bsr32'], expect=[r'postcondition'], replay=rp('log2_32')),
        Unit('countTrailingZeros', 'cbmc', S, 'countTrailingZeros', defines=d, expect=[r'postcondition', r'assertion'], replay=rp('ctz')),
        Unit('countSetBits', 'cbmc', S, 'countSetBits', defines=d, unwind=66, expect=[r'postcondition'], replay=rp('popcount'),
             assumptions=['reference popcount loop has the constant bound 64 (unwound completely)']),
        Unit('alignToCacheLine', 'cbmc', S, 'alignToCacheLine', defines=d, expect=[r'postcondition'], replay=rp('alignToCacheLine')),
        Unit('alignedMalloc', 'cbmc', S, 'alignedMalloc', defines=d, replace=['G_malloc'], expect=[r'postcondition\.3', r'assertion'], replay=rp('alignedMalloc'),
             flags=['--nondet-static']),
        Unit('alignedFree', 'cbmc', S, 'alignedFree', defines=d, expect=[r'postcondition\.2', r'G_free.assertion', r'G_load_word.assertion'], flags=['--nondet-static']),
        Unit('log2.native-exhaustive', 'native', S, 'log2', native=dict(src='replay/c44_native.cpp', args=['32' if ctx.tier == 'thorough' else '26']),
             bounded='compiled dispenso::detail::log2/log2const/nextPow2/ctz/popcount compared with reference loops for every uint32 input (thorough) or 2^26 strided+edge inputs (quick), and 2^24 edge-biased uint64 inputs; stands in for the bsr axiom, not counted as proved', timeout=900),
    ]
    return units
