"""C24 -- AsyncRequest delivers each update at most once (rely/guarantee with an ownership ghost)."""
from driver import Unit
import extract as X

LEVEL = 'proof'
TRUSTED_BASE = ['CBMC 6.11 + cadical', 'tools/extract.py rewrite rules',
                'rely/guarantee soundness meta-theorem; the rely (what other producers/consumers may do given what this thread owns) is written in specs/c24_async.c others_act()',
                'OpResult contracts (proved under C40) used by replacement']
ASSUMPTIONS = ['A-SC: atomics sequentially consistent; release/acquire is checked only at the ownership transfers (claiming RMW has acquire, publishing store has release)',
               'compare_exchange_strong does not fail spuriously', 'T is a value tag (ghost/lifetime.h)',
               'the pre-C++17 branch (detail::OpResult) is the one verified; with -std=c++17 the class uses std::optional instead']
EXPLANATION = 'every atomic access is preceded by arbitrary interference of other producers and consumers; obj_ may be touched only while exclusively owned'

F = 'dispenso/async_request.h'
CLS = r'class\s+AsyncRequest\s*(?=\{)'
CAS = ('R7', r'state_\.compare_exchange_strong\(state,\s*(\w+),\s*std::memory_order_(\w+)\)', r'A_CAS_state(&self->state_, &state, \1, MO_\2)')
LOAD = ('R7', r'state_\.load\(std::memory_order_(\w+)\)', r'A_LOAD_state(&self->state_, MO_\1)')
STORE = ('R7', r'state_\.store\((\w+),\s*std::memory_order_(\w+)\)', r'A_STORE_state(&self->state_, \1, MO_\2)')
ST = ('R9', r'RequestState\s+state\s*=', 'int state =')


def build(ctx):
    r = ctx.repo
    ctx.emit('AR_requestUpdate.body.inc', r.function(F, r'void\s+requestUpdate\s*\(\s*\)', within=CLS), must_fire=['R7', 'R9'], subs=[ST, CAS])
    ctx.emit('AR_updateRequested.body.inc', r.function(F, r'bool\s+updateRequested\s*\(\s*\)\s*const', within=CLS), must_fire=['R7'], subs=[LOAD])
    ctx.emit('AR_tryEmplaceUpdate.body.inc', r.function(F, r'bool\s+tryEmplaceUpdate\s*\(\s*Args&&\.\.\.\s*args\s*\)', within=CLS), must_fire=['R7', 'R17'],
             subs=[ST + ('opt',), CAS + ('opt',), LOAD + ('opt',), STORE, ('R17', r'(?<![\w.>])updateRequested\(\)', 'AR_updateRequested(self)', 'opt'), ('R17', r'obj_\.emplace\(std::forward<Args>\(args\)\.\.\.\);', 'TOUCH_OBJ(); OpResult_emplace(&self->obj_, args);', 1)])
    ctx.emit('AR_getUpdate.body.inc', r.function(F, r'OpResult\s+getUpdate\s*\(\s*\)', within=CLS), must_fire=['R7', 'R12', 'R10'],
             subs=[('R9', r'RequestState\s+state\s*=', 'int state =', 'opt'), ('R7', CAS[1], CAS[2], 'opt'), ('R7', LOAD[1], LOAD[2], 'opt'), STORE + ('opt',),
                   # the value is moved out of obj_ either into a local that is returned, or directly in the return statement
                   ('R12', r'auto\s+obj\s*=\s*std::move\(obj_\);', 'TOUCH_OBJ(); OpResult_ctor_move(out, &self->obj_);', 'opt'),
                   ('R12', r'return\s+std::move\(obj_\)\s*;', '{ TOUCH_OBJ(); OpResult_ctor_move(out, &self->obj_); return; }', 'opt'),
                   ('R10', r'return\s+obj\s*;', 'return;', 'opt'),
                   ('R10', r'return\s*\{\s*\}\s*;', 'OpResult_ctor_default(out); return;', 1)])
    S = 'specs/c24_async.c'
    rep = ['OpResult_emplace', 'OpResult_ctor_move', 'OpResult_ctor_default']
    units = []
    for mode, d in (('multi-consumer', {}), ('single-consumer', {'SINGLE_CONSUMER': '1'})):
        units += [
            Unit('requestUpdate', 'cbmc', S, 'AR_requestUpdate', defines=d, inst=mode, expect=[r'postcondition'], timeout=300),
            Unit('updateRequested', 'cbmc', S, 'AR_updateRequested', defines=d, inst=mode, expect=[r'postcondition'], timeout=300),
            Unit('tryEmplaceUpdate', 'cbmc', S, 'AR_tryEmplaceUpdate', defines=d, inst=mode, replace=rep, expect=[r'postcondition\.2'], timeout=300),
            Unit('getUpdate', 'cbmc', S, 'AR_getUpdate', defines=d, inst=mode, replace=rep, expect=[r'postcondition\.3'], timeout=300,
                 replay=dict(prog='replay/c24_replay.cpp', args=lambda ce, u: ['two_consumers'], cxxflags=['-std=c++14'])),
        ]
    return units
