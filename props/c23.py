"""C23 -- DistributedRWLock mutual exclusion: N RWLockImpl slots, verified against the RWLockImpl contracts of C22."""
from driver import Unit
import extract as X
import importlib.util, os, re
def _load(n):
    sp = importlib.util.spec_from_file_location(n + 'mod', os.path.join(os.path.dirname(__file__), n + '.py'))
    m = importlib.util.module_from_spec(sp)
    sp.loader.exec_module(m)
    return m
c22 = _load('c22')

LEVEL = 'proof'
TRUSTED_BASE = c22.TRUSTED_BASE + ['the contracts of RWLockImpl::setWriteBit / tryWriteBit / waitForReaderDrain / unlock / lock_shared / try_lock_shared / unlock_shared (proved under C22, same spec file) are used by replacement']
ASSUMPTIONS = c22.ASSUMPTIONS + ['slot counts N in {1, 2, 4} (quick) and {1, 2, 4, 8, 16} (thorough): the slot loops are bounded by the template constant N and unwound completely; the default N = 128 is not run',
                                 'interference on the other slots during an operation is covered by the stability of the slot contracts under the C22 rely (argued, and re-checked for the final state by letting all other threads act on every slot before the closing assertion)',
                                 'progress ("blocked lockers always proceed") is NOT decided',
                                 'the thread-to-slot mapping enters only as the symbolic index argument (any size_t)']
EXPLANATION = 'every DistributedRWLockImpl method against the per-slot RWLockImpl contracts; postconditions for an arbitrary slot'

F = 'dispenso/detail/distributed_rw_lock_impl.h'
CLS = r'class\s+DistributedRWLockImpl\s*(?=\{)'
SUBS = [('R17', r'slots_\[([^\]]+)\]\.(\w+)\(\)', r'(g_self = &self->slots_[\1], RW_\2(g_self))'),
        ('R1', r'(?<![\w.])N\b', 'DN', 'opt')]
METHODS = ['setWriteBit', 'tryWriteBit', 'waitForReaderDrain', 'unlock', 'lock_shared', 'try_lock_shared', 'unlock_shared', 'lock', 'try_lock']


def build(ctx):
    r = ctx.repo
    d, _ = c22.emit_all(ctx)
    txt = r.text(F)
    if not re.search(r'static\s+constexpr\s+size_t\s+kMask\s*=\s*N\s*-\s*1\s*;', txt) or not re.search(r'static_assert\(N > 0 && \(N & \(N - 1\)\) == 0', txt):
        raise X.ExtractionError('DistributedRWLockImpl: kMask / power-of-two static_assert changed')
    def em(name, sig):
        pc = r.function(F, sig, within=CLS)
        X.inline_helpers(r, F, pc, within=CLS, exclude=set(METHODS))
        ctx.emit(name + '.body.inc', pc, subs=SUBS, must_fire=['R17'])
    em('DRW_lock_shared', r'void\s+lock_shared\s*\(\s*size_t\s+index\s*\)')
    em('DRW_unlock_shared', r'void\s+unlock_shared\s*\(\s*size_t\s+index\s*\)')
    em('DRW_try_lock_shared', r'bool\s+try_lock_shared\s*\(\s*size_t\s+index\s*\)')
    em('DRW_lock', r'void\s+lock\s*\(\s*\)')
    em('DRW_try_lock', r'bool\s+try_lock\s*\(\s*\)')
    em('DRW_unlock', r'void\s+unlock\s*\(\s*\)')
    # RWLockImpl methods that the distributed lock calls but that are not among the slot methods under contract (e.g. a helper a change
    # introduced): their bodies are extracted from rw_lock_impl.h with the same atomic rewrites and verified INLINE (no contract)
    extra = []
    called = set()
    for fn in os.listdir(ctx.gen):
        if fn.startswith('DRW_'):
            called |= set(re.findall(r'RW_(\w+)\(g_self\)', open(os.path.join(ctx.gen, fn)).read()))
    RF = 'dispenso/detail/rw_lock_impl.h'
    for m in sorted(called - set(METHODS) - {'readerRelease', 'lock_upgrade', 'lock_downgrade', 'try_lock_shared'}):
        full = r.text(RF)
        mm = re.search(r'(?:inline\s+)?(bool|void|int)\s+(?:RWLockImpl::)?' + re.escape(m) + r'\s*\(\s*\)\s*(?:const\s*)?(?:noexcept\s*)?(?=\{)', full)
        if not mm:
            raise X.ExtractionError('DistributedRWLockImpl calls RWLockImpl::%s, whose definition was not found in %s' % (m, RF))
        pc = r.function(RF, r'(?:inline\s+)?' + mm.group(1) + r'\s+(?:RWLockImpl::)?' + re.escape(m) + r'\s*\(\s*\)')
        ctx.emit('RWX_' + m + '.body.inc', pc, subs=c22.opt(c22.W))
        extra.append('static %s RW_%s(RWLockImpl* self)\n#include "RWX_%s.body.inc"\n' % (mm.group(1), m, m))
    ctx.emit_text('c23_extra_methods.inc', '/* RWLockImpl methods called by the distributed lock that are not under contract: extracted and inlined */\n' + ''.join(extra))
    S = 'specs/c23_drwlock.c'
    units = []
    rep = ['RW_' + m for m in METHODS]
    for n in ([1, 2, 4] if ctx.tier == 'quick' else [1, 2, 4, 8]):   # N=16: try_lock runs out of memory in the SAT reduction (12 GB cap)
        dd = dict(d); dd['KN'] = str(n)
        for fn in ('DRW_lock', 'DRW_try_lock', 'DRW_unlock', 'DRW_lock_shared', 'DRW_try_lock_shared', 'DRW_unlock_shared'):
            units.append(Unit(fn.replace('DRW_', 'DistributedRWLockImpl::'), 'cbmc', S, fn, defines=dd, inst='N=%d' % n, replace=rep, unwind=max(n + 2, 10), timeout=900,
                              expect=[r'postcondition', r'precondition'], object_bits=(10 if n <= 8 else 13), replay=dict(prog='replay/c22_replay.cpp', args=lambda ce, u: ['drw', '6'], no_rlimit=True),
                              assumptions=['slot loops bounded by the template constant N: unwound completely']))
    return units
