"""C47 -- ForceQueuingTag never runs the functor on the caller."""
from driver import Unit
import extract as X
import re

LEVEL = 'proof'
TRUSTED_BASE = ['CBMC 6.11 + cadical', 'tools/extract.py rewrite rules',
                'moodycamel enqueue / enqueue_bulk, MpmcRingBuffer::try_push and the wake functions do not invoke the task objects they are given (third-party / verified elsewhere: C34)']
ASSUMPTIONS = ['the value loaded from numThreads_ is >= 1 (the property is stated for pools with at least one thread; with 0 threads forceEnqueue runs the functor inline by design)',
               'overload resolution is rendered from the call text: a call that passes fq / ForceQueuingTag() resolves to the tagged overload, a call that does not resolves to the untagged one (which may run inline)',
               'the queueing primitives (scheduleImpl, scheduleImplPlaced incl. enqueueToCentralQueue and conditionallyWake, scheduleBulkEnqueue) are rendered by their invocation sites only (rule R13): any call of a task/functor object in their text counts as an invocation on the caller',
               'packageTask / packageTaskNoIncrement only wrap the functor (their bodies run later on the executing thread)']
EXPLANATION = 'invocation-log ghost over every tagged entry point down to forceEnqueue and the bulk force-queue path'

TP = 'dispenso/thread_pool.h'
TS = 'dispenso/task_set.h'
TI = 'dispenso/detail/task_set_impl.h'
PKG = r'packageTask\(std::forward<F>\(f\)\)'
FQ = r'(?:fq|ForceQueuingTag\(\))'
SUBS = [
    # invocation of the submitted functor
    ('R13', r'(?<![\w.>])f\(\);', 'G_invoke_f();'),
    # pool entry points, tagged (reach forceEnqueue) and untagged (may run inline)
    ('R17', r'pool_\.schedule\(\s*token_\s*,\s*' + PKG + r'\s*,\s*' + FQ + r'\s*\);', 'TP_schedule_tok_fq();'),
    ('R17', r'pool_\.schedulePlaced\(\s*token_\s*,\s*' + PKG + r'\s*,\s*' + FQ + r'\s*\);', 'TP_schedulePlaced_tok_fq();'),
    ('R17', r'pool_\.schedule\(\s*' + PKG + r'\s*,\s*' + FQ + r'\s*\);', 'TP_schedule_fq();'),
    ('R17', r'pool_\.schedulePlaced\(\s*' + PKG + r'\s*,\s*' + FQ + r'\s*\);', 'TP_schedulePlaced_fq();'),
    ('R17', r'pool_\.schedule(?:Placed)?\(\s*(?:token_\s*,\s*)?' + PKG + r'\s*\);', 'TP_may_inline();   /* untagged overload: tests shouldRunInline() */'),
    ('R17', r'forceEnqueue<(true|false)>\(std::forward<F>\(f\),\s*&?token\);', r'TP_forceEnqueue(\1);'),
    ('R9', r'auto\*\s+token\s*=\s*static_cast<moodycamel::ProducerToken\*>\(detail::PerPoolPerThreadInfo::producer\(this\)\);', '/* producer token lookup */'),
    ('R7', r'numThreads_\.load\(std::memory_order_\w+\)', 'A_LOAD_numThreads()'),
    ('R7', r'workRemaining_\.fetch_add\(1,\s*std::memory_order_\w+\);', 'G_workRemaining_add(1);'),
    ('R17', r'scheduleImplPlaced\(\{std::forward<F>\(f\)\},\s*token\);', 'TP_scheduleImplPlaced();'),
    ('R17', r'scheduleImpl\(\{std::forward<F>\(f\)\},\s*token\);', 'TP_scheduleImpl();'),
    ('R4', r'cost_\s*==\s*TaskCost::kHeavy', 'g_cost_heavy'),
    ('R2', r'\btrue\b', '1'), ('R2', r'\bfalse\b', '0'),
]
INVOKE = r'(?<![\w.>:])(?:task|f|func|fn|work|t)\s*\(\s*\)|\(\*\s*\w+\s*\)\s*\(\s*\)|\bgen\([^()]*\)\s*\(\s*\)|std::move\(\w+\)\s*\(\s*\)'


def opt(subs):
    return [x + ('opt',) if len(x) == 3 else x for x in subs]


def sites(ctx, name, pieces):
    """R13: a queueing primitive is rendered by its invocation sites only"""
    n = 0
    prov = None
    for p in pieces:
        n += len(re.findall(INVOKE, p.text))
        prov = prov or p
    p = prov
    p.rules = [('R13', n)] if n else [('R13-none', 1)]
    X.write_piece(ctx.gen, name + '.sites.inc', '  /* %d invocation site(s) of a task/functor object in the body text */\n' % n + '  G_invoke_f();\n' * n, p, ctx.extract_log)


def build(ctx):
    r = ctx.repo
    def em(name, f, sig, within=None, extra=(), must=('R17',)):
        pc = r.function(f, sig, within=within)
        ctx.emit(name + '.body.inc', pc, subs=list(extra) + opt(SUBS), must_fire=list(must))
    sites(ctx, 'TP_scheduleImpl', [r.function(TP, r'DISPENSO_INLINE\s+void\s+ThreadPool::scheduleImpl\s*\([^)]*\)'),
                                   r.function(TP, r'DISPENSO_INLINE\s+void\s+enqueueToCentralQueue\s*\([^)]*\)')])
    sites(ctx, 'TP_scheduleImplPlaced', [r.function(TP, r'DISPENSO_INLINE\s+void\s+ThreadPool::scheduleImplPlaced\s*\([^)]*\)'),
                                         r.function(TP, r'DISPENSO_INLINE\s+void\s+enqueueToCentralQueue\s*\([^)]*\)'),
                                         r.function(TP, r'void\s+conditionallyWake\s*\(\s*\)')])
    sites(ctx, 'TP_scheduleBulkEnqueue', [r.function(TP, r'void\s+ThreadPool::scheduleBulkEnqueue\s*\([^)]*\)')])
    em('TP_forceEnqueue', TP, r'inline\s+void\s+ThreadPool::forceEnqueue\s*\(\s*F&&\s+f\s*,\s*moodycamel::ProducerToken\*\s+token\s*\)', must=('R13', 'R17', 'R7'))
    em('TP_schedule_fq', TP, r'inline\s+void\s+ThreadPool::schedule\s*\(\s*F&&\s+f\s*,\s*ForceQueuingTag\s*\)')
    em('TP_schedule_tok_fq', TP, r'inline\s+void\s+ThreadPool::schedule\s*\(\s*moodycamel::ProducerToken&\s+token\s*,\s*F&&\s+f\s*,\s*ForceQueuingTag\s*\)')
    em('TP_schedulePlaced_fq', TP, r'inline\s+void\s+ThreadPool::schedulePlaced\s*\(\s*F&&\s+f\s*,\s*ForceQueuingTag\s*\)')
    em('TP_schedulePlaced_tok_fq', TP, r'inline\s+void\s+ThreadPool::schedulePlaced\s*\(\s*moodycamel::ProducerToken&\s+token\s*,\s*F&&\s+f\s*,\s*ForceQueuingTag\s*\)')
    em('TS_schedule_fq', TS, r'void\s+schedule\s*\(\s*F&&\s+f\s*,\s*ForceQueuingTag\s+fq\s*\)', within=r'class\s+TaskSet\s*:\s*public\s+TaskSetBase\s*(?=\{)')
    em('CTS_schedule_fq', TS, r'void\s+schedule\s*\(\s*F&&\s+f\s*,\s*ForceQueuingTag\s+fq\s*\)', within=r'class\s+ConcurrentTaskSet\s*:\s*public\s+TaskSetBase\s*(?=\{)')
    em('CTS_schedulePlaced_fq', TS, r'void\s+schedulePlaced\s*\(\s*F&&\s+f\s*,\s*ForceQueuingTag\s*\)', within=r'class\s+ConcurrentTaskSet\s*:\s*public\s+TaskSetBase\s*(?=\{)')
    # the bulk entry points must forward to scheduleBulkImplForceQueue
    txt = r.text(TS)
    if len(re.findall(r'void\s+scheduleBulk\s*\(\s*size_t\s+count\s*,\s*Generator&&\s+gen\s*,\s*ForceQueuingTag\s*\)\s*\{\s*scheduleBulkImplForceQueue\(count,\s*std::forward<Generator>\(gen\),\s*(?:&token_|nullptr)\);\s*\}', txt)) != 2:
        raise X.ExtractionError('scheduleBulk(count, gen, ForceQueuingTag) no longer forwards to scheduleBulkImplForceQueue in both task-set classes')
    pc = r.function(TI, r'void\s+scheduleBulkImplForceQueue\s*\([^)]*\)')
    m = re.search(r'pool_\.scheduleBulkEnqueue\(\s*toEnqueue\s*,\s*\[[^\]]*\]\s*\(size_t\s+\w+\)\s*\{([^{}]*)\}\s*,\s*token\s*\);', pc.text)
    if not m:
        raise X.ExtractionError('scheduleBulkImplForceQueue: call of pool_.scheduleBulkEnqueue with a generator lambda not found')
    ninv = len(re.findall(INVOKE, m.group(1)))
    ctx.emit('TSB_scheduleBulkImplForceQueue.body.inc', pc, must_fire=['R17', 'LC'], typemap={'ssize_t': 'ssize_t'},
             subs=[('R17', r'pool_\.scheduleBulkEnqueue\(\s*toEnqueue\s*,\s*\[[^\]]*\]\s*\(size_t\s+\w+\)\s*\{[^{}]*\}\s*,\s*token\s*\);',
                    '{ ' + 'G_invoke_f(); ' * ninv + 'TP_scheduleBulkEnqueue((int)toEnqueue); }   /* generator lambda rendered by its invocation sites */', 1),
                   ('R17', r'pool_\.numThreads\(\)', 'g_numThreads', 1),
                   ('R17', r'(?<![\w.>])canceled\(\)', 'TSB_canceled()', 1),
                   ('R7', r'outstandingTaskCount_\.fetch_add\(([^;]*?),\s*std::memory_order_\w+\);', r'G_outstanding_add(\1);', 1),
                   ('R3', r'std::min\(count - i,\s*chunkSize\)', '((count - i) < chunkSize ? (count - i) : chunkSize)', 1),
                   ('LC', r'while\s*\(i < count\)\s*\{', 'while (i < count) __CPROVER_assigns(i, g_enqueued, g_invoked) __CPROVER_loop_invariant(i <= count && g_invoked == 0 && g_enqueued == (int)i && chunkSize >= 1) __CPROVER_decreases(count - i) {', 1)])
    S = 'specs/c47_forcequeue.c'
    units = []
    for fn, rep, lc in (('TP_scheduleImpl', [], False), ('TP_scheduleImplPlaced', [], False), ('TP_scheduleBulkEnqueue', [], False),
                        ('TP_forceEnqueue', ['TP_scheduleImpl', 'TP_scheduleImplPlaced'], False),
                        ('TP_schedule_fq', ['TP_forceEnqueue'], False), ('TP_schedule_tok_fq', ['TP_forceEnqueue'], False),
                        ('TP_schedulePlaced_fq', ['TP_forceEnqueue'], False), ('TP_schedulePlaced_tok_fq', ['TP_forceEnqueue'], False),
                        ('TS_schedule_fq', ['TP_schedule_tok_fq', 'TP_schedulePlaced_tok_fq', 'TP_schedule_fq', 'TP_schedulePlaced_fq'], False),
                        ('CTS_schedule_fq', ['TP_schedule_tok_fq', 'TP_schedulePlaced_tok_fq', 'TP_schedule_fq', 'TP_schedulePlaced_fq'], False),
                        ('CTS_schedulePlaced_fq', ['TP_schedule_tok_fq', 'TP_schedulePlaced_tok_fq', 'TP_schedule_fq', 'TP_schedulePlaced_fq'], False),
                        ('TSB_scheduleBulkImplForceQueue', ['TP_scheduleBulkEnqueue'], True)):
        units.append(Unit(fn.replace('TP_', 'ThreadPool::').replace('CTS_', 'ConcurrentTaskSet::').replace('TSB_', 'TaskSetBase::').replace('TS_', 'TaskSet::'), 'cbmc', S, fn,
                          replace=rep, loop_contracts=lc, expect=[r'postcondition'], timeout=300,
                          replay=dict(prog='replay/c47_replay.cpp', args=lambda ce, u: [])))
    return units
