"""C02 -- task-set wait is a completion barrier (credit ledger on outstandingTaskCount_ + the wait loops)."""
from driver import Unit
import extract as X
import importlib.util, os
sp = importlib.util.spec_from_file_location('c04mod', os.path.join(os.path.dirname(__file__), 'c04.py'))
c04 = importlib.util.module_from_spec(sp)
sp.loader.exec_module(c04)

LEVEL = 'proof'
TRUSTED_BASE = c04.TRUSTED_BASE + ['the barrier is proved RELATIVE to C01: the pool runs every packaged task handed to it exactly once (assumed)',
                                   'FutureImplBase::run lowers the task-set counter only after the future is published as ready (proved under C18)']
ASSUMPTIONS = c04.ASSUMPTIONS + ['the wait loops are verified for partial correctness only (they spin until the count reaches zero: termination is the progress property C06/C09, not decided)',
                                 'tryExecuteNext* run other queued tasks (arbitrary effect on the count, which is re-read)']
EXPLANATION = 'credit discipline: count raised before a packaged task exists / is handed over, lowered exactly once after its body; wait returns only after an acquire load of zero'


def build(ctx):
    units = c04.build(ctx)
    keep = ('packageTask (packaged body)', 'packageTaskNoIncrement (packaged body)', 'TaskSet::schedule', 'ConcurrentTaskSet::schedule', 'ConcurrentTaskSet::schedulePlaced',
            'TaskSetBase::scheduleBulkImpl', 'TaskSetBase::scheduleBulkImplPlaced', 'TaskSetBase::scheduleBulkImplForceQueue')
    units = [u for u in units if u.name in keep]
    for u in units:
        u.replay = None
    wu = c04.wait_units()
    def budget(ce, u):      # the budget of the verifier's counterexample (harness variable m), clamped to something runnable
        try:
            return [str(min(int(str((ce or {}).get('m', '0')).rstrip('ul')), 1000))]
        except ValueError:
            return ['0']
    for u in wu:
        u.replay = dict(prog='replay/c02_replay.cpp', args=budget, no_rlimit=True)
    return units + wu
