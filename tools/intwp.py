#!/usr/bin/env python3
"""intwp -- verification-condition generator over mathematical integers for a C integer subset.

Reads a preprocessed C translation unit whose functions carry CBMC-syntax contracts
(__CPROVER_requires / __CPROVER_ensures / __CPROVER_loop_invariant / __CPROVER_decreases /
__CPROVER_assert / __CPROVER_assume) and produces, for one function, one SMT-LIB query per proof
obligation.  Machine arithmetic is *not* treated as mathematical: every C operation is modelled
exactly (integer promotions, usual arithmetic conversions, unsigned wrap-around as `mod 2^W`,
implementation-defined narrowing as two's-complement wrap), and signed overflow, division by zero
and out-of-range shifts become obligations of their own.

Why it exists: bit-blasting 64-bit `/` and `*` is out of reach of every SAT/SMT back end installed
here (DESIGN.md section 1); NIA over Int decides the same obligations in about a second.

Supported subset (anything else raises Unsupported -> the driver reports exit 2, never a verdict):
  types      bool, (u)int8..64_t, char/short/int/long/long long (+unsigned), size_t, ssize_t,
             ptrdiff_t, mathint (spec only: unbounded), typedef'd structs of those, T* to struct
             (treated as the struct itself: no aliasing), fixed-size arrays of integers via SMT arrays
  statements declarations, assignments (= += -= *= /= %= ++ --), if/else, while, do-while, for
             (loops need __CPROVER_loop_invariant), return, blocks, __CPROVER_assert/assume
  exprs      arithmetic, comparison, logical (short-circuit), ?:, casts, field access, calls,
             compound literals (T){..}, shifts by constants, & with 2^k-1 masks
  calls      callee with a contract: precondition becomes an obligation, postcondition is assumed
             (modular); callee without a contract: executed inline (spec helpers such as MIN/MAX).
"""
import re, sys, json, subprocess, os, time, hashlib
from concurrent.futures import ThreadPoolExecutor


class Unsupported(Exception):
    pass


# ---------------------------------------------------------------- lexer
TOK_RE = re.compile(r"""
    (?P<ws>\s+)
  | (?P<num>0[xX][0-9a-fA-F]+[uUlL]*|\d+[uUlL]*)
  | (?P<id>[A-Za-z_][A-Za-z_0-9]*)
  | (?P<str>"(?:[^"\\]|\\.)*")
  | (?P<op>==>|<<=|>>=|\+\+|--|->|<<|>>|<=|>=|==|!=|&&|\|\||\+=|-=|\*=|/=|%=|&=|\|=|\^=|[-+*/%<>=!~&|^?:;,.(){}\[\]])
""", re.X)


def lex(text):
    toks = []
    pos = 0
    line = 1
    while pos < len(text):
        m = TOK_RE.match(text, pos)
        if not m:
            raise Unsupported("lex error at line %d: %r" % (line, text[pos:pos + 30]))
        kind = m.lastgroup
        s = m.group()
        if kind != 'ws':
            toks.append((kind, s, line))
        line += s.count('\n')
        pos = m.end()
    toks.append(('eof', '', line))
    return toks


# ---------------------------------------------------------------- types
class CType:
    pass


class IntT(CType):
    def __init__(self, bits, signed, name=None, isbool=False):
        self.bits, self.signed, self.isbool = bits, signed, isbool
        self.name = name or (("int" if signed else "uint") + str(bits))

    def lo(self):
        return 0 if (self.isbool or not self.signed) else -(1 << (self.bits - 1))

    def hi(self):
        if self.isbool:
            return 1
        return (1 << (self.bits - (1 if self.signed else 0))) - 1

    def __repr__(self):
        return self.name

    def same(self, o):
        return isinstance(o, IntT) and (self.bits, self.signed, self.isbool) == (o.bits, o.signed, o.isbool)


class MathT(CType):
    name = 'mathint'

    def __repr__(self):
        return 'mathint'


class StructT(CType):
    def __init__(self, name, fields):
        self.name, self.fields = name, fields  # list of (fname, ctype)

    def field(self, n):
        for f, t in self.fields:
            if f == n:
                return t
        raise Unsupported("no field %s in %s" % (n, self.name))

    def __repr__(self):
        return 'struct ' + self.name


class PtrT(CType):
    def __init__(self, to):
        self.to = to

    def __repr__(self):
        return repr(self.to) + '*'


class ArrT(CType):
    def __init__(self, elem, n):
        self.elem, self.n = elem, n

    def __repr__(self):
        return '%r[%s]' % (self.elem, self.n)


class VoidT(CType):
    def __repr__(self):
        return 'void'


BOOL = IntT(8, False, 'bool', isbool=True)
INT = IntT(32, True, 'int')
UINT = IntT(32, False, 'unsigned')
LONG = IntT(64, True, 'long')
ULONG = IntT(64, False, 'unsigned long')
MATH = MathT()
VOID = VoidT()

BASE_TYPES = {
    'bool': BOOL, '_Bool': BOOL,
    'int8_t': IntT(8, True), 'uint8_t': IntT(8, False), 'int16_t': IntT(16, True), 'uint16_t': IntT(16, False),
    'int32_t': IntT(32, True), 'uint32_t': IntT(32, False), 'int64_t': IntT(64, True), 'uint64_t': IntT(64, False),
    'size_t': IntT(64, False), 'ssize_t': IntT(64, True), 'ptrdiff_t': IntT(64, True), 'uintptr_t': IntT(64, False),
    'intptr_t': IntT(64, True), 'mathint': MATH, 'void': VOID,
}
KW_TYPEWORDS = {'char', 'short', 'int', 'long', 'signed', 'unsigned'}


def words_to_type(words):
    w = list(words)
    signed = True
    if 'unsigned' in w:
        signed = False
    w = [x for x in w if x not in ('signed', 'unsigned')]
    if w == ['char']:
        bits = 8
    elif w in (['short'], ['short', 'int']):
        bits = 16
    elif w in ([], ['int']):
        bits = 32
    elif w in (['long'], ['long', 'int'], ['long', 'long'], ['long', 'long', 'int']):
        bits = 64
    else:
        raise Unsupported("type words %r" % (words,))
    return IntT(bits, signed)


# ---------------------------------------------------------------- AST (tuples)
# expressions: ('num', value, ctype) ('var', name) ('bin', op, a, b) ('un', op, a) ('cast', type, e)
#   ('cond', c, a, b) ('call', name, args) ('field', e, name) ('index', e, i) ('assign', op, lhs, rhs)
#   ('postinc', e, +1/-1) ('preinc', e, +1/-1) ('complit', type, [exprs]) ('retval',) ('old', e)
#   ('forall'|'exists', [(type,name)], body)
# statements: ('decl', type, name, init|None) ('expr', e) ('if', c, a, b) ('while', c, body, contract)
#   ('dowhile', body, c, contract) ('for', init, c, step, body, contract) ('return', e|None)
#   ('block', [stmts]) ('assert', e, msg) ('assume', e) ('break',) ('continue',)

class Parser:
    def __init__(self, text):
        self.toks = lex(text)
        self.i = 0
        self.typedefs = dict(BASE_TYPES)
        self.structs = {}
        self.funcs = {}       # name -> dict(ret, params, requires, ensures, body, line)
        self.order = []

    # token helpers
    def peek(self, k=0):
        return self.toks[min(self.i + k, len(self.toks) - 1)]

    def next(self):
        t = self.toks[self.i]
        self.i += 1
        return t

    def at(self, s):
        return self.peek()[1] == s and self.peek()[0] in ('op', 'id')

    def accept(self, s):
        if self.at(s):
            self.i += 1
            return True
        return False

    def expect(self, s):
        if not self.accept(s):
            t = self.peek()
            raise Unsupported("line %d: expected %r, got %r" % (t[2], s, t[1]))

    # types
    def is_type_start(self, k=0):
        kind, s, _ = self.peek(k)
        if kind != 'id':
            return False
        return s in self.typedefs or s in KW_TYPEWORDS or s in ('const', 'struct', 'static', 'inline', 'volatile', 'extern')

    def parse_type(self):
        words = []
        base = None
        while True:
            kind, s, _ = self.peek()
            if kind != 'id':
                break
            if s in ('const', 'static', 'inline', 'volatile', 'extern', 'register'):
                self.next()
            elif s == 'struct':
                self.next()
                name = None
                if self.peek()[0] == 'id':
                    name = self.next()[1]
                if self.at('{'):
                    base = self.parse_struct_body(name)
                else:
                    if name not in self.structs:
                        raise Unsupported("unknown struct " + str(name))
                    base = self.structs[name]
            elif s in KW_TYPEWORDS:
                words.append(self.next()[1])
            elif s in self.typedefs and base is None and not words:
                base = self.typedefs[self.next()[1]]
            else:
                break
        if base is None:
            if not words:
                t = self.peek()
                raise Unsupported("line %d: type expected at %r" % (t[2], t[1]))
            base = words_to_type(words)
        while self.at('*') or self.at('const'):
            if self.accept('*'):
                base = PtrT(base)
            else:
                self.next()
        return base

    def parse_struct_body(self, name):
        self.expect('{')
        fields = []
        while not self.at('}'):
            t = self.parse_type()
            while True:
                fname = self.next()[1]
                ft = t
                if self.accept('['):
                    n = self.parse_expr()
                    self.expect(']')
                    ft = ArrT(t, n)
                fields.append((fname, ft))
                if not self.accept(','):
                    break
            self.expect(';')
        self.expect('}')
        st = StructT(name or '<anon>', fields)
        if name:
            self.structs[name] = st
        return st

    # top level
    def parse_unit(self):
        while self.peek()[0] != 'eof':
            if self.accept(';'):
                continue
            if self.at('typedef'):
                self.next()
                t = self.parse_type()
                name = self.next()[1]
                self.expect(';')
                self.typedefs[name] = t
                if isinstance(t, StructT) and t.name == '<anon>':
                    t.name = name
                continue
            t = self.parse_type()
            if self.accept(';'):
                continue  # struct declaration only
            name = self.next()[1]
            if self.at('('):
                self.parse_function(t, name)
            else:
                raise Unsupported("global variable %s not supported" % name)
        return self

    def parse_function(self, ret, name):
        line = self.peek()[2]
        self.expect('(')
        params = []
        if self.at('void') and self.peek(1)[1] == ')':
            self.next()
        while not self.at(')'):
            pt = self.parse_type()
            pn = self.next()[1]
            if self.accept('['):
                n = self.parse_expr() if not self.at(']') else ('num', 1 << 62, LONG)
                self.expect(']')
                pt = ArrT(pt, n)
            params.append((pn, pt))
            if not self.accept(','):
                break
        self.expect(')')
        requires, ensures = [], []
        while self.peek()[1].startswith('__CPROVER_'):
            k = self.next()[1]
            self.expect('(')
            if k == '__CPROVER_requires':
                requires.append(self.parse_expr())
            elif k == '__CPROVER_ensures':
                ensures.append(self.parse_expr())
            elif k in ('__CPROVER_assigns', '__CPROVER_frees'):
                depth = 1
                while depth:
                    s = self.next()[1]
                    depth += (s == '(') - (s == ')')
                continue
            else:
                raise Unsupported("contract clause " + k)
            self.expect(')')
        body = None
        if self.at('{'):
            body = self.parse_block()
        else:
            self.expect(';')
        f = dict(ret=ret, params=params, requires=requires, ensures=ensures, body=body, line=line, name=name)
        if name not in self.funcs or body is not None:
            self.funcs[name] = f
            self.order.append(name)

    # statements
    def parse_block(self):
        self.expect('{')
        out = []
        while not self.at('}'):
            out.append(self.parse_stmt())
        self.expect('}')
        return ('block', out)

    def parse_loop_contract(self):
        c = dict(inv=[], dec=None, assigns=None)
        while self.peek()[1] in ('__CPROVER_loop_invariant', '__CPROVER_decreases', '__CPROVER_assigns'):
            k = self.next()[1]
            self.expect('(')
            if k == '__CPROVER_loop_invariant':
                c['inv'].append(self.parse_expr())
            elif k == '__CPROVER_decreases':
                c['dec'] = self.parse_expr()
            else:
                names = []
                while not self.at(')'):
                    names.append(self.parse_assign())
                    if not self.accept(','):
                        break
                c['assigns'] = names
            self.expect(')')
        return c

    def parse_stmt(self):
        line = self.peek()[2]
        if self.at('{'):
            return self.parse_block()
        if self.accept(';'):
            return ('block', [])
        if self.accept('if'):
            self.expect('(')
            c = self.parse_expr()
            self.expect(')')
            a = self.parse_stmt()
            b = self.parse_stmt() if self.accept('else') else ('block', [])
            return ('if', c, a, b, line)
        if self.accept('while'):
            self.expect('(')
            c = self.parse_expr()
            self.expect(')')
            lc = self.parse_loop_contract()
            return ('while', c, self.parse_stmt(), lc, line)
        if self.accept('do'):
            lc0 = self.parse_loop_contract()
            body = self.parse_stmt()
            self.expect('while')
            self.expect('(')
            c = self.parse_expr()
            self.expect(')')
            lc = self.parse_loop_contract()
            for k in ('inv',):
                lc[k] = lc0[k] + lc[k]
            lc['dec'] = lc['dec'] or lc0['dec']
            self.expect(';')
            return ('dowhile', body, c, lc, line)
        if self.accept('for'):
            self.expect('(')
            init = self.parse_stmt() if not self.accept(';') else ('block', [])
            c = self.parse_expr() if not self.at(';') else ('num', 1, INT)
            self.expect(';')
            step = self.parse_expr() if not self.at(')') else None
            self.expect(')')
            lc = self.parse_loop_contract()
            return ('for', init, c, step, self.parse_stmt(), lc, line)
        if self.accept('return'):
            e = None if self.at(';') else self.parse_expr()
            self.expect(';')
            return ('return', e, line)
        if self.accept('break'):
            self.expect(';')
            return ('break', line)
        if self.accept('continue'):
            self.expect(';')
            return ('continue', line)
        if self.at('__CPROVER_assert'):
            self.next()
            self.expect('(')
            e = self.parse_assign()
            msg = ''
            if self.accept(','):
                msg = self.next()[1].strip('"')
            self.expect(')')
            self.expect(';')
            return ('assert', e, msg, line)
        if self.at('__CPROVER_assume'):
            self.next()
            self.expect('(')
            e = self.parse_expr()
            self.expect(')')
            self.expect(';')
            return ('assume', e, line)
        if self.is_type_start() and not (self.peek(1)[1] in ('.', '=', '(', '[', '->') and self.peek()[1] not in KW_TYPEWORDS and self.peek()[1] not in ('const', 'struct', 'static')):
            t = self.parse_type()
            decls = []
            while True:
                name = self.next()[1]
                vt = t
                if self.accept('['):
                    n = self.parse_expr()
                    self.expect(']')
                    vt = ArrT(t, n)
                init = None
                if self.accept('='):
                    if self.at('{'):
                        init = self.parse_braces(vt)
                    else:
                        init = self.parse_assign()
                decls.append(('decl', vt, name, init, line))
                if not self.accept(','):
                    break
            self.expect(';')
            return decls[0] if len(decls) == 1 else ('seq', decls)
        e = self.parse_expr()
        self.expect(';')
        return ('expr', e, line)

    def parse_braces(self, t):
        self.expect('{')
        items = []
        while not self.at('}'):
            items.append(self.parse_braces(None) if self.at('{') else self.parse_assign())
            if not self.accept(','):
                break
        self.expect('}')
        return ('complit', t, items)

    # expressions (precedence climbing)
    BIN = [('||',), ('&&',), ('|',), ('^',), ('&',), ('==', '!='), ('<', '>', '<=', '>='), ('<<', '>>'), ('+', '-'), ('*', '/', '%')]

    def parse_expr(self):
        e = self.parse_assign()
        while self.accept(','):
            e = ('comma', e, self.parse_assign())
        return e

    def parse_assign(self):
        lhs = self.parse_implies()
        for op in ('=', '+=', '-=', '*=', '/=', '%=', '&=', '|=', '^=', '<<=', '>>='):
            if self.at(op):
                self.next()
                return ('assign', op, lhs, self.parse_assign())
        return lhs

    def parse_implies(self):
        a = self.parse_cond()
        if self.accept('==>'):
            b = self.parse_implies()
            return ('bin', '==>', a, b)
        return a

    def parse_cond(self):
        c = self.parse_bin(0)
        if self.accept('?'):
            a = self.parse_expr()
            self.expect(':')
            b = self.parse_cond()
            return ('cond', c, a, b)
        return c

    def parse_bin(self, lvl):
        if lvl == len(self.BIN):
            return self.parse_unary()
        a = self.parse_bin(lvl + 1)
        while self.peek()[0] == 'op' and self.peek()[1] in self.BIN[lvl]:
            op = self.next()[1]
            b = self.parse_bin(lvl + 1)
            a = ('bin', op, a, b)
        return a

    def looks_like_cast(self):
        if not self.at('('):
            return False
        kind, s, _ = self.peek(1)
        return kind == 'id' and (s in self.typedefs or s in KW_TYPEWORDS or s in ('const', 'struct'))

    def parse_unary(self):
        if self.looks_like_cast():
            self.next()
            t = self.parse_type()
            self.expect(')')
            if self.at('{'):
                return self.parse_postfix_from(self.parse_braces(t))
            return ('cast', t, self.parse_unary())
        for op in ('!', '-', '~', '+'):
            if self.at(op) and self.peek()[0] == 'op':
                self.next()
                return ('un', op, self.parse_unary())
        if self.accept('++'):
            return ('preinc', self.parse_unary(), 1)
        if self.accept('--'):
            return ('preinc', self.parse_unary(), -1)
        if self.at('&') or self.at('*'):
            op = self.next()[1]
            return ('un', 'addr' if op == '&' else 'deref', self.parse_unary())
        if self.at('sizeof'):
            self.next()
            self.expect('(')
            t = self.parse_type()
            self.expect(')')
            if isinstance(t, IntT):
                return ('num', t.bits // 8, ULONG)
            raise Unsupported("sizeof non-integer")
        return self.parse_postfix_from(self.parse_primary())

    def parse_primary(self):
        kind, s, line = self.next()
        if kind == 'num':
            m = re.match(r'(0[xX][0-9a-fA-F]+|\d+)([uUlL]*)$', s)
            v = int(m.group(1), 0)
            suf = m.group(2).lower()
            uns = 'u' in suf
            lng = 'l' in suf
            if s[0] == '0' and len(m.group(1)) > 1 and not s.lower().startswith('0x'):
                v = int(m.group(1), 8)
            cands = [INT, UINT, LONG, ULONG]
            if uns:
                cands = [UINT, ULONG]
            elif not s.lower().startswith('0x'):
                cands = [INT, LONG, ULONG]
            if lng:
                cands = [c for c in cands if c.bits == 64]
            for c in cands:
                if c.lo() <= v <= c.hi():
                    return ('num', v, c)
            raise Unsupported("literal too large " + s)
        if kind == 'id':
            if s == '__CPROVER_return_value':
                return ('retval',)
            if s in ('__CPROVER_old',):
                self.expect('(')
                e = self.parse_expr()
                self.expect(')')
                return ('old', e)
            if s == '__CPROVER_loop_entry':
                self.expect('(')
                e = self.parse_expr()
                self.expect(')')
                return ('loop_entry', e)
            if s in ('__CPROVER_forall', '__CPROVER_exists'):
                self.expect('{')
                t = self.parse_type()
                n = self.next()[1]
                self.expect(';')
                body = self.parse_expr()
                self.expect('}')
                return ('quant', s == '__CPROVER_forall', t, n, body)
            if s in ('true', 'false'):
                return ('num', 1 if s == 'true' else 0, INT)
            return ('var', s)
        if kind == 'op' and s == '(':
            e = self.parse_expr()
            self.expect(')')
            return e
        raise Unsupported("line %d: unexpected token %r" % (line, s))

    def parse_postfix_from(self, e):
        while True:
            if self.accept('.') or self.accept('->'):
                e = ('field', e, self.next()[1])
            elif self.accept('['):
                i = self.parse_expr()
                self.expect(']')
                e = ('index', e, i)
            elif self.at('(') and e[0] == 'var':
                self.next()
                args = []
                while not self.at(')'):
                    args.append(self.parse_assign())
                    if not self.accept(','):
                        break
                self.expect(')')
                e = ('call', e[1], args)
            elif self.accept('++'):
                e = ('postinc', e, 1)
            elif self.accept('--'):
                e = ('postinc', e, -1)
            else:
                return e


# ---------------------------------------------------------------- SMT helpers
def smt_int(v):
    return str(v) if v >= 0 else "(- %d)" % (-v)


def S(op, *args):
    return "(" + op + " " + " ".join(args) + ")"


class Val:
    """symbolic value: term (SMT string), sort 'I' or 'B', ctype"""
    __slots__ = ('t', 'sort', 'ct')

    def __init__(self, t, sort, ct):
        self.t, self.sort, self.ct = t, sort, ct


def as_int(v):
    if v.sort == 'I':
        return v.t
    return S('ite', v.t, '1', '0')


def as_bool(v):
    if v.sort == 'B':
        return v.t
    return S('not', S('=', v.t, '0'))


PRELUDE = """(set-logic ALL)
(define-fun tdiv ((a Int) (b Int)) Int (ite (>= a 0) (div a b) (- (div (- a) b))))
(define-fun tmod ((a Int) (b Int)) Int (- a (* b (tdiv a b))))
"""


class Obligation:
    def __init__(self, name, cls, line, desc, decls, asserts, goal, fn):
        self.name, self.cls, self.line, self.desc = name, cls, line, desc
        self.decls, self.asserts, self.goal, self.fn = decls, asserts, goal, fn
        self.status = None
        self.model = None
        self.solver = None
        self.secs = 0.0

    def smt(self, get_model=True):
        out = [PRELUDE]
        out += ["(declare-const %s %s)" % (n, s) for n, s in self.decls]
        out += ["(assert %s)" % a for a in self.asserts]
        out.append("(assert (not %s))" % self.goal)
        out.append("(check-sat)")
        if get_model:
            out.append("(get-model)")
        return "\n".join(out) + "\n"


class State:
    def __init__(self, env, guard):
        self.env = env      # name -> Val | dict (struct) | ('arr', term, elemtype, n)
        self.guard = guard  # list of Bool terms (conjunction)

    def copy(self):
        def cp(v):
            return {k: cp(x) for k, x in v.items()} if isinstance(v, dict) else v
        return State({k: cp(v) for k, v in self.env.items()}, list(self.guard))


class VCGen:
    def __init__(self, unit, fname, signed_wrap=False, inline_depth=8):
        self.u = unit
        self.fname = fname
        self.decls = []          # (name, sort)
        self.defs = []           # global assertions (definitions of SSA consts, type ranges)
        self.obls = []
        self.counter = 0
        self.signed_wrap = signed_wrap
        self.returns = []        # (guard list, value)
        self.inline_depth = inline_depth
        self.cur_fn = fname
        self.names = {}
        self.inputs = {}         # param leaf name -> smt const

    # ----- fresh constants
    def fresh(self, base, sort='Int'):
        self.counter += 1
        n = "%s!%d" % (re.sub(r'[^A-Za-z0-9_.]', '_', base), self.counter)
        self.decls.append((n, sort))
        return n

    def define(self, base, v):
        """bind value to a fresh const to keep terms small"""
        if isinstance(v, Val):
            if len(v.t) < 40:
                return v
            n = self.fresh(base, 'Int' if v.sort == 'I' else 'Bool')
            self.defs.append(S('=', n, v.t))
            return Val(n, v.sort, v.ct)
        return v

    def havoc(self, base, ct):
        if isinstance(ct, (IntT,)):
            n = self.fresh(base)
            self.defs.append(S('and', S('<=', smt_int(ct.lo()), n), S('<=', n, smt_int(ct.hi()))))
            return Val(n, 'I', ct)
        if isinstance(ct, MathT):
            return Val(self.fresh(base), 'I', ct)
        if isinstance(ct, StructT):
            return {f: self.havoc(base + '.' + f, t) for f, t in ct.fields}
        if isinstance(ct, PtrT) and isinstance(ct.to, StructT):
            return self.havoc(base, ct.to)
        if isinstance(ct, ArrT):
            if isinstance(ct.elem, IntT):
                n = self.fresh(base, '(Array Int Int)')
                # element type ranges are asserted per read (see 'index'), not by a quantified axiom
                return ('arr', n, ct.elem, ct.n)
            raise Unsupported("array of non-integers")
        raise Unsupported("havoc of type %r" % (ct,))

    # ----- obligations
    def oblige(self, st, cls, line, desc, cond_term):
        idx = sum(1 for o in self.obls if o.cls == cls and o.fn == self.cur_fn) + 1
        name = "%s.%s.%d" % (self.cur_fn, cls, idx)
        self.obls.append(Obligation(name, cls, line, desc, list(self.decls), list(self.defs) + list(st.guard), cond_term, self.cur_fn))

    # ----- conversions
    def convert(self, v, to, st=None, explicit=True, line=0):
        if isinstance(to, MathT):
            return Val(as_int(v), 'I', to)
        if isinstance(v.ct, StructT) or isinstance(to, StructT):
            return v
        if not isinstance(to, IntT):
            raise Unsupported("conversion to %r" % (to,))
        if to.isbool:
            return Val(as_bool(v), 'B', to)
        src = v.ct
        t = as_int(v)
        if isinstance(src, IntT) and src.lo() >= to.lo() and src.hi() <= to.hi():
            return Val(t, 'I', to)
        if v.sort == 'B':
            return Val(t, 'I', to)
        m = re.fullmatch(r'\d+|\(- \d+\)', t)
        if m:
            c = int(t.strip('()').replace(' ', ''))
            if to.lo() <= c <= to.hi():
                return Val(t, 'I', to)
        mod = smt_int(1 << to.bits)
        if not to.signed:
            r = S('mod', t, mod)
        else:
            half = smt_int(1 << (to.bits - 1))
            r = S('-', S('mod', S('+', t, half), mod), half)
        # fast path for the solver: value unchanged when already in range
        inr = S('and', S('<=', smt_int(to.lo()), t), S('<=', t, smt_int(to.hi())))
        r = S('ite', inr, t, r)
        if st is not None:
            self.oblige(st, 'conversion', line, "value-preserving conversion %r -> %r" % (src, to), inr)
        return self.define('cv', Val(r, 'I', to))

    @staticmethod
    def promote(ct):
        if isinstance(ct, MathT):
            return ct
        if ct.bits < 32 or ct.isbool:
            return INT
        return ct

    @staticmethod
    def common(a, b):
        if isinstance(a, MathT) or isinstance(b, MathT):
            return MATH
        a, b = VCGen.promote(a), VCGen.promote(b)
        if a.same(b):
            return a
        if a.signed == b.signed:
            return a if a.bits >= b.bits else b
        s, u = (a, b) if a.signed else (b, a)
        if u.bits >= s.bits:
            return IntT(u.bits, False)
        return IntT(s.bits, True)

    # ----- arithmetic result in type ct from mathematical term m
    def arith_result(self, st, m, ct, what, line):
        if isinstance(ct, MathT):
            return Val(m, 'I', ct)
        m = self.define('ar', Val(m, 'I', ct)).t
        inr = S('and', S('<=', smt_int(ct.lo()), m), S('<=', m, smt_int(ct.hi())))
        if ct.signed:
            self.oblige(st, 'overflow', line, "signed overflow in " + what, inr)
            if not self.signed_wrap:
                return Val(m, 'I', ct)
            half = smt_int(1 << (ct.bits - 1))
            mod = smt_int(1 << ct.bits)
            return self.define('w', Val(S('ite', inr, m, S('-', S('mod', S('+', m, half), mod), half)), 'I', ct))
        mod = smt_int(1 << ct.bits)
        return self.define('w', Val(S('ite', inr, m, S('mod', m, mod)), 'I', ct))

    # ----- lvalues
    def lv_path(self, e):
        if e[0] == 'var':
            return [e[1]]
        if e[0] == 'field':
            return self.lv_path(e[1]) + [e[2]]
        if e[0] == 'un' and e[1] in ('deref', 'addr'):
            return self.lv_path(e[2])
        raise Unsupported("lvalue %r" % (e[0],))

    def lookup(self, st, path):
        if path[0] not in st.env:
            raise Unsupported("unknown variable " + path[0])
        v = st.env[path[0]]
        for p in path[1:]:
            if not isinstance(v, dict) or p not in v:
                raise Unsupported("bad field path " + ".".join(path))
            v = v[p]
        return v

    def store(self, st, path, val):
        if len(path) == 1:
            st.env[path[0]] = val
            return
        v = st.env[path[0]]
        for p in path[1:-1]:
            v = v[p]
        v[path[-1]] = val

    def type_of_path(self, st, path):
        v = self.lookup(st, path)
        return v

    # ----- expression evaluation
    def ev(self, e, st, line=0):
        k = e[0]
        if k == 'num':
            return Val(smt_int(e[1]), 'I', e[2])
        if k == 'var':
            return self.lookup(st, [e[1]])
        if k == 'un' and e[1] in ('deref', 'addr'):
            return self.ev(e[2], st, line)
        if k == 'field':
            base = self.ev(e[1], st, line)
            if isinstance(base, dict) and e[2] in base:
                return base[e[2]]
            raise Unsupported("field %s of non-struct" % e[2])
        if k == 'retval':
            return st.env['__retval']
        if k == 'old':
            return self.ev(e[1], State(st.env['__old'], st.guard), line)
        if k == 'loop_entry':
            if '__loop_entry' not in st.env:
                raise Unsupported("__CPROVER_loop_entry outside a loop contract")
            return self.ev(e[1], State(st.env['__loop_entry'], st.guard), line)
        if k == 'comma':
            self.ev(e[1], st, line)
            return self.ev(e[2], st, line)
        if k == 'cast':
            v = self.ev(e[2], st, line)
            if isinstance(e[1], VoidT):
                return v
            if isinstance(v, dict):
                return v
            return self.convert(v, e[1], None, True, line)
        if k == 'complit':
            t = e[1]
            if isinstance(t, StructT):
                out = {}
                for (f, ft), ie in zip(t.fields, e[2]):
                    iv = self.ev(ie, st, line)
                    out[f] = iv if isinstance(iv, dict) else self.convert(iv, ft, None, False, line)
                if len(e[2]) != len(t.fields):
                    raise Unsupported("partial struct initializer")
                return out
            raise Unsupported("compound literal of %r" % (t,))
        if k == 'index':
            a = self.ev(e[1], st, line)
            i = self.ev(e[2], st, line)
            if not (isinstance(a, tuple) and a[0] == 'arr'):
                raise Unsupported("index of non-array")
            it = as_int(i)
            n = self.ev(a[3], st, line)
            self.oblige(st, 'bounds', line, "array index in bounds", S('and', S('<=', '0', it), S('<', it, as_int(n))))
            rd = self.fresh('rd')
            self.defs.append(S('=', rd, S('select', a[1], it)))
            if a[2].isbool:
                self.defs.append(S('or', S('=', rd, '0'), S('=', rd, '1')))
                return Val(S('=', rd, '1'), 'B', a[2])
            self.defs.append(S('and', S('<=', smt_int(a[2].lo()), rd), S('<=', rd, smt_int(a[2].hi()))))
            return Val(rd, 'I', a[2])
        if k == 'un':
            op = e[1]
            if op == '!':
                return Val(S('not', as_bool(self.ev(e[2], st, line))), 'B', INT)
            v = self.ev(e[2], st, line)
            ct = self.promote(v.ct)
            t = as_int(v)
            if op == '+':
                return Val(t, 'I', ct)
            if op == '-':
                return self.arith_result(st, S('-', t), ct, "unary minus", line)
            if op == '~':
                if isinstance(ct, MathT):
                    raise Unsupported("~ on mathint")
                return self.arith_result(st, S('-', S('-', t), '1') if ct.signed else S('-', smt_int(ct.hi()), t), ct, "~", line)
            raise Unsupported("unary " + op)
        if k == 'cond':
            c = as_bool(self.ev(e[1], st, line))
            sa = State(st.env, st.guard + [c])
            sb = State(st.env, st.guard + [S('not', c)])
            a = self.ev(e[2], sa, line)
            b = self.ev(e[3], sb, line)
            if isinstance(a, dict):
                return self.merge_val(c, a, b)
            if a.sort == 'B' and b.sort == 'B':
                return Val(S('ite', c, a.t, b.t), 'B', INT)
            ct = self.common(a.ct, b.ct)
            a2 = self.convert(a, ct, None, False, line)
            b2 = self.convert(b, ct, None, False, line)
            return self.define('c', Val(S('ite', c, as_int(a2), as_int(b2)), 'I', ct))
        if k == 'bin':
            return self.ev_bin(e, st, line)
        if k == 'quant':
            _, isall, t, n, body = e
            qn = n + "!q%d" % (self.counter)
            self.counter += 1
            env2 = dict(st.env)
            env2[n] = Val(qn, 'I', t)
            # obligations inside quantifier bodies are not generated (spec only)
            sub = VCGen(self.u, self.fname)
            sub.decls = self.decls
            sub.defs = self.defs
            sub.counter = self.counter + 1000
            body_v = as_bool(sub.ev(body, State(env2, st.guard), line))
            self.counter = sub.counter
            rng = S('and', S('<=', smt_int(t.lo()), qn), S('<=', qn, smt_int(t.hi()))) if isinstance(t, IntT) else 'true'
            if isall:
                return Val("(forall ((%s Int)) (=> %s %s))" % (qn, rng, body_v), 'B', INT)
            return Val("(exists ((%s Int)) (and %s %s))" % (qn, rng, body_v), 'B', INT)
        if k == 'assign':
            return self.ev_assign(e, st, line)
        if k in ('preinc', 'postinc'):
            old = self.ev(e[1], st, line)
            one = ('num', 1, INT)
            new = self.ev_assign(('assign', '+=' if e[2] > 0 else '-=', e[1], one), st, line)
            return new if k == 'preinc' else old
        if k == 'call':
            return self.ev_call(e, st, line)
        raise Unsupported("expression kind " + k)

    def ev_bin(self, e, st, line):
        _, op, ea, eb = e
        if op in ('&&', '||', '==>'):
            a = as_bool(self.ev(ea, st, line))
            g = a if op in ('&&', '==>') else S('not', a)
            b = as_bool(self.ev(eb, State(st.env, st.guard + [g]), line))
            return Val(S({'&&': 'and', '||': 'or', '==>': '=>'}[op], a, b), 'B', INT)
        a = self.ev(ea, st, line)
        b = self.ev(eb, st, line)
        if isinstance(a, dict) or isinstance(b, dict):
            raise Unsupported("binary op on struct")
        if op in ('<<', '>>'):
            ct = self.promote(a.ct)
            av = self.convert(a, ct, None, False, line)
            m = re.fullmatch(r'\d+', as_int(b))
            if not m:
                raise Unsupported("shift by non-constant")
            c = int(as_int(b))
            if not isinstance(ct, MathT) and not (0 <= c < ct.bits):
                self.oblige(st, 'shift', line, "shift distance in range", 'false')
            if op == '<<':
                if not isinstance(ct, MathT) and ct.signed:
                    self.oblige(st, 'shift', line, "left shift of negative value", S('>=', as_int(av), '0'))
                return self.arith_result(st, S('*', as_int(av), smt_int(1 << c)), ct, "<<", line)
            return Val(S('div', as_int(av), smt_int(1 << c)), 'I', ct)
        if op in ('==', '!=', '<', '>', '<=', '>='):
            if a.sort == 'B' and b.sort == 'B' and op in ('==', '!='):
                t = S('=', a.t, b.t)
                return Val(t if op == '==' else S('not', t), 'B', INT)
            ct = self.common(a.ct, b.ct)
            at = as_int(self.convert(a, ct, None, False, line))
            bt = as_int(self.convert(b, ct, None, False, line))
            sm = {'==': '=', '<': '<', '>': '>', '<=': '<=', '>=': '>='}
            if op == '!=':
                return Val(S('not', S('=', at, bt)), 'B', INT)
            return Val(S(sm[op], at, bt), 'B', INT)
        ct = self.common(a.ct, b.ct)
        at = as_int(self.convert(a, ct, None, False, line))
        bt = as_int(self.convert(b, ct, None, False, line))
        if op in ('+', '-', '*'):
            return self.arith_result(st, S(op, at, bt), ct, op, line)
        if op in ('/', '%'):
            self.oblige(st, 'division-by-zero', line, "division by zero", S('not', S('=', bt, '0')))
            if isinstance(ct, MathT):
                return Val(S('tdiv' if op == '/' else 'tmod', at, bt), 'I', ct)
            if ct.signed and op == '/':
                self.oblige(st, 'overflow', line, "signed division overflow",
                            S('not', S('and', S('=', at, smt_int(ct.lo())), S('=', bt, '(- 1)'))))
            if not ct.signed or True:
                r = S('tdiv' if op == '/' else 'tmod', at, bt)
            return self.define('dv', Val(r, 'I', ct))
        if op == '&':
            for x, y in ((at, bt), (bt, at)):
                if re.fullmatch(r'\d+', y) and (int(y) & (int(y) + 1)) == 0 and not isinstance(ct, MathT):
                    # x & (2^k - 1): low k bits (two's complement => mod for either sign)
                    return self.define('m', Val(S('mod', x, smt_int(int(y) + 1)), 'I', ct))
        if op in ('&', '|', '^') and not isinstance(ct, MathT):
            # general bitwise operator: bit decomposition over Int (two's complement of the operand type's width)
            w = ct.bits
            def bits_of(x):
                ux = S('mod', x, smt_int(1 << w)) if ct.signed else x
                bs = [self.fresh('bit', 'Bool') for _ in range(w)]
                self.defs.append(S('=', ux, S('+', *[S('ite', b, smt_int(1 << i), '0') for i, b in enumerate(bs)])))
                return bs
            ab, bb = bits_of(at), bits_of(bt)
            comb = {'&': 'and', '|': 'or', '^': 'xor'}[op]
            r = S('+', *[S('ite', S(comb, x, y), smt_int(1 << i), '0') for i, (x, y) in enumerate(zip(ab, bb))])
            if ct.signed:
                half = smt_int(1 << (w - 1))
                r = S('ite', S('>=', r, half), S('-', r, smt_int(1 << w)), r)
            return self.define('bw', Val(r, 'I', ct))
        raise Unsupported("binary operator " + op)

    def ev_assign(self, e, st, line):
        _, op, lhs, rhs = e
        if lhs[0] == 'index':
            a = self.ev(lhs[1], st, line)
            i = self.ev(lhs[2], st, line)
            if op != '=':
                raise Unsupported("compound assignment to array element")
            v = self.convert(self.ev(rhs, st, line), a[2], None, False, line)
            it = as_int(i)
            n = self.ev(a[3], st, line)
            self.oblige(st, 'bounds', line, "array index in bounds", S('and', S('<=', '0', it), S('<', it, as_int(n))))
            nn = self.fresh('arr', '(Array Int Int)')
            self.defs.append(S('=', nn, S('store', a[1], it, as_int(v))))
            self.store(st, self.lv_path(lhs[1]), ('arr', nn, a[2], a[3]))
            return v
        path = self.lv_path(lhs)
        cur = self.lookup(st, path)
        if op == '=':
            v = self.ev(rhs, st, line)
        else:
            v = self.ev_bin(('bin', op[:-1], lhs, rhs), st, line)
        if isinstance(cur, dict):
            if not isinstance(v, dict):
                raise Unsupported("struct assignment from scalar")
            self.store(st, path, {k: x for k, x in v.items()})
            return v
        v = self.convert(v, cur.ct, None, False, line)
        v = self.define(".".join(path), v)
        self.store(st, path, v)
        return v

    def ev_call(self, e, st, line):
        _, name, args = e
        if name not in self.u.funcs:
            raise Unsupported("call to unknown function " + name)
        f = self.u.funcs[name]
        argv = [self.ev(a, st, line) for a in args]
        if len(argv) != len(f['params']):
            raise Unsupported("arity mismatch calling " + name)
        env = {}
        for (pn, pt), av in zip(f['params'], argv):
            env[pn] = av if isinstance(av, dict) or isinstance(av, tuple) else self.define(pn, self.convert(av, pt.to if isinstance(pt, PtrT) else pt, None, False, line))
        if f['requires'] or f['ensures'] or f['body'] is None:
            # modular: check pre, assume post
            cst = State(env, st.guard)
            for r in f['requires']:
                self.oblige(st, 'precondition', line, "precondition of %s" % name, as_bool(self.ev(r, cst, line)))
            if isinstance(f['ret'], VoidT):
                return Val('0', 'I', INT)
            rv = self.havoc(name + '.ret', f['ret'])
            env2 = dict(env)
            env2['__retval'] = rv
            env2['__old'] = env
            for en in f['ensures']:
                post = as_bool(self.ev(en, State(env2, list(st.guard)), line))
                # recorded globally (guarded by the current path) so that it survives sub-expression contexts (?:, &&, ||)
                self.defs.append(S('=>', self.conj(st.guard), post) if st.guard else post)
            return rv
        # inline (spec helper)
        if self.inline_depth <= 0:
            raise Unsupported("inline depth exceeded at " + name)
        saved = (self.returns, self.exec_fn)
        self.returns = []
        self.exec_fn = name
        self.inline_depth -= 1
        cst = State(env, list(st.guard))
        self.exec(f['body'], cst)
        rets = self.returns
        self.returns, self.exec_fn = saved
        self.inline_depth += 1
        if isinstance(f['ret'], VoidT):
            return Val('0', 'I', INT)
        if not rets:
            raise Unsupported("inlined function %s has no return" % name)
        val = rets[-1][1]
        for g, v, _ in reversed(rets[:-1]):
            val = self.merge_val(self.conj(g[len(st.guard):]), v, val)
        return val

    @staticmethod
    def conj(terms):
        terms = [t for t in terms if t != 'true']
        if not terms:
            return 'true'
        if len(terms) == 1:
            return terms[0]
        return S('and', *terms)

    def merge_val(self, c, a, b):
        if isinstance(a, dict):
            return {k: self.merge_val(c, a[k], b[k]) for k in a}
        if isinstance(a, tuple):
            if a[1] == b[1]:
                return a
            n = self.fresh('arrm', '(Array Int Int)')
            self.defs.append(S('=', n, S('ite', c, a[1], b[1])))
            return ('arr', n, a[2], a[3])
        if a.t == b.t and a.sort == b.sort:
            return a
        if a.sort == 'B' and b.sort == 'B':
            return self.define('mg', Val(S('ite', c, a.t, b.t), 'B', a.ct))
        return self.define('mg', Val(S('ite', c, as_int(a), as_int(b)), 'I', a.ct))

    # ----- statements
    def exec(self, s, st):
        k = s[0]
        if k == 'block':
            saved = set(st.env.keys())
            for x in s[1]:
                self.exec(x, st)
            return
        if k == 'seq':
            for x in s[1]:
                self.exec(x, st)
            return
        if k == 'decl':
            _, t, name, init, line = s
            if init is None:
                st.env[name] = self.havoc(name, t)
            else:
                if init[0] == 'complit' and init[1] is None:
                    init = ('complit', t, init[2])
                v = self.ev(init, st, line)
                if isinstance(v, dict) or isinstance(v, tuple):
                    st.env[name] = v
                else:
                    st.env[name] = self.define(name, self.convert(v, t, None, False, line))
            return
        if k == 'expr':
            self.ev(s[1], st, s[2])
            return
        if k == 'assert':
            self.oblige(st, 'assertion', s[3], s[2], as_bool(self.ev(s[1], st, s[3])))
            st.guard.append(as_bool(self.ev(s[1], st, s[3])))
            return
        if k == 'assume':
            st.guard.append(as_bool(self.ev(s[1], st, s[2])))
            return
        if k == 'return':
            v = None
            if s[1] is not None:
                v = self.ev(s[1], st, s[2])
                rt = self.u.funcs[self.exec_fn]['ret']
                if isinstance(v, Val) and not isinstance(rt, (VoidT, StructT)):
                    v = self.convert(v, rt, None, False, s[2])
            self.returns.append((list(st.guard), v, st.copy()))
            st.guard.append('false')
            return
        if k == 'if':
            _, c, a, b, line = s
            cv = as_bool(self.ev(c, st, line))
            cn = self.define('br', Val(cv, 'B', INT)).t
            sa = st.copy()
            sa.guard.append(cn)
            sb = st.copy()
            sb.guard.append(S('not', cn))
            self.exec(a, sa)
            self.exec(b, sb)
            self.merge_states(st, cn, sa, sb)
            return
        if k in ('while', 'dowhile', 'for'):
            return self.exec_loop(s, st)
        raise Unsupported("statement kind " + k)

    def merge_states(self, st, c, sa, sb):
        base_len = len(st.guard)
        ga = sa.guard[base_len + 1:]
        gb = sb.guard[base_len + 1:]
        # guards after the branch: (c and ga) or (not c and gb)
        dead_a = 'false' in ga
        dead_b = 'false' in gb
        for name in list(st.env.keys()):
            va, vb = sa.env.get(name), sb.env.get(name)
            if va is None or vb is None:
                continue
            if dead_a:
                st.env[name] = vb
            elif dead_b:
                st.env[name] = va
            else:
                st.env[name] = self.merge_val(c, va, vb)
        if dead_a and dead_b:
            st.guard.append('false')
        elif dead_a:
            st.guard.append(S('not', c))
            st.guard.extend(gb)
        elif dead_b:
            st.guard.append(c)
            st.guard.extend(ga)
        else:
            if ga or gb:
                st.guard.append(S('ite', c, self.conj(ga), self.conj(gb)))

    def assigned_vars(self, s, acc):
        if isinstance(s, tuple):
            if s and s[0] == 'assign':
                try:
                    acc.add(tuple(self.lv_path(s[2] if s[2][0] != 'index' else s[2][1])))
                except Unsupported:
                    pass
            if s and s[0] in ('preinc', 'postinc'):
                acc.add(tuple(self.lv_path(s[1])))
            for x in s:
                self.assigned_vars(x, acc)
        elif isinstance(s, list):
            for x in s:
                self.assigned_vars(x, acc)

    def exec_loop(self, s, st):
        k = s[0]
        if k == 'while':
            _, c, body, lc, line = s
            init, step = None, None
        elif k == 'dowhile':
            _, body, c, lc, line = s
            init, step = None, None
        else:
            _, init, c, step, body, lc, line = s
        if not lc['inv']:
            raise Unsupported("loop without invariant at line %d" % line)
        if init is not None:
            self.exec(init, st)
        st.env['__loop_entry'] = dict(st.copy().env)   # values at loop entry, for __CPROVER_loop_entry(e)
        # base case
        for inv in lc['inv']:
            self.oblige(st, 'loop_invariant_base', line, "loop invariant holds on entry", as_bool(self.ev(inv, st, line)))
        # havoc assigned variables
        acc = set()
        self.assigned_vars(body, acc)
        if step is not None:
            self.assigned_vars(step, acc)
        self.assigned_vars(c, acc)
        declared = set()
        def decls_in(x):
            if isinstance(x, tuple):
                if x and x[0] == 'decl':
                    declared.add(x[2])
                for y in x:
                    decls_in(y)
            elif isinstance(x, list):
                for y in x:
                    decls_in(y)
        decls_in(body)
        for path in sorted(acc):
            if path[0] in declared or path[0] not in st.env:
                continue
            cur = self.lookup(st, list(path))
            if isinstance(cur, dict):
                raise Unsupported("loop assigns whole struct")
            if isinstance(cur, tuple):
                self.store(st, list(path), self.havoc(".".join(path), ArrT(cur[2], cur[3])))
            else:
                self.store(st, list(path), self.havoc(".".join(path), cur.ct))
        for inv in lc['inv']:
            st.guard.append(as_bool(self.ev(inv, st, line)))
        it = st.copy()   # arbitrary iteration
        def measure(state):
            return as_int(self.ev(lc['dec'], state, line)) if lc['dec'] is not None else None
        if k == 'dowhile':
            m0 = measure(it)
            self.exec(body, it)
            cv = as_bool(self.ev(c, it, line))
            cont = it.copy()
            cont.guard.append(cv)
            for inv in lc['inv']:
                self.oblige(cont, 'loop_invariant_step', line, "loop invariant preserved", as_bool(self.ev(inv, cont, line)))
            if m0 is not None:
                self.oblige(cont, 'decreases', line, "loop measure decreases and is bounded below",
                            S('and', S('>=', m0, '0'), S('<', measure(cont), m0)))
            it.guard.append(S('not', cv))
            st.env, st.guard = it.env, it.guard
            return
        cv = as_bool(self.ev(c, it, line))
        exit_state = it.copy()
        exit_state.guard.append(S('not', cv))
        it.guard.append(cv)
        m0 = measure(it)
        self.exec(body, it)
        if step is not None:
            self.ev(step, it, line)
        for inv in lc['inv']:
            self.oblige(it, 'loop_invariant_step', line, "loop invariant preserved", as_bool(self.ev(inv, it, line)))
        if m0 is not None:
            self.oblige(it, 'decreases', line, "loop measure decreases and is bounded below",
                        S('and', S('>=', m0, '0'), S('<', measure(it), m0)))
        st.env, st.guard = exit_state.env, exit_state.guard

    # ----- entry
    def run(self):
        f = self.u.funcs[self.fname]
        if f['body'] is None:
            raise Unsupported("no body for " + self.fname)
        self.exec_fn = self.fname
        env = {}
        for pn, pt in f['params']:
            env[pn] = self.havoc(pn, pt)
        self.params = {pn: env[pn] for pn, _ in f['params']}
        st = State(env, [])
        old = st.copy().env
        for r in f['requires']:
            st.guard.append(as_bool(self.ev(r, st, f['line'])))
        n_before = len(self.obls)
        self.exec(f['body'], st)
        if isinstance(f['ret'], VoidT) and 'false' not in st.guard:
            self.returns.append((list(st.guard), None, st.copy()))
        for g, v, rst in self.returns:
            env2 = dict(rst.env)
            # postconditions speak about parameters' entry values (by-value params) unless pointer
            for pn, pt in f['params']:
                if not isinstance(pt, (PtrT, ArrT)):
                    env2[pn] = old[pn]
            env2['__retval'] = v
            env2['__old'] = old
            pst = State(env2, g)
            for i, en in enumerate(f['ensures']):
                t = as_bool(self.ev(en, pst, f['line']))
                idx = i + 1
                name = "%s.postcondition.%d" % (self.fname, idx)
                self.obls.append(Obligation(name, 'postcondition', f['line'], "ensures clause %d of %s" % (idx, self.fname),
                                            list(self.decls), list(self.defs) + list(g), t, self.fname))
        # reachability (vacuity) query: precondition satisfiable and some return reachable
        reach = [self.conj(g) for g, _, _ in self.returns]
        self.cover = Obligation(self.fname + ".cover.exit", 'cover', f['line'], "some return is reachable under the precondition",
                                list(self.decls), list(self.defs), S('not', S('or', *reach) if len(reach) > 1 else (reach[0] if reach else 'false')), self.fname)
        return self.obls


# ---------------------------------------------------------------- solving
def run_solver(cmd, text, timeout):
    t0 = time.time()
    try:
        p = subprocess.run(cmd, input=text, capture_output=True, text=True, timeout=timeout)
        out = p.stdout.strip()
    except subprocess.TimeoutExpired:
        return 'timeout', '', time.time() - t0
    first = out.split('\n', 1)[0].strip() if out else 'error'
    return first, out, time.time() - t0


def parse_model(out):
    model = {}
    for m in re.finditer(r'\(define-fun\s+(\|[^|]+\||\S+)\s+\(\)\s+Int\s+(\(- \d+\)|\d+)\)', out):
        model[m.group(1).strip('|')] = int(m.group(2).strip('()').replace(' ', ''))
    for m in re.finditer(r'\(define-fun\s+(\|[^|]+\||\S+)\s+\(\)\s+Bool\s+(true|false)\)', out):
        model[m.group(1).strip('|')] = (m.group(2) == 'true')
    return model


SOLVERS = (('z3-new', lambda t: ['z3-new', '-in', '-T:%d' % t]),
           ('cvc5', lambda t: ['cvc5', '--lang=smt2', '--produce-models', '--nl-ext-tplanes', '--tlimit=%d' % (t * 1000), '-']))


import threading
_SEM = threading.Semaphore(int(os.environ.get('INTWP_RACES', '10')))   # concurrent solver races (1-2 processes each)


def _run_race(path, names, timeout):
    """run the named solvers concurrently on file `path`; first decisive answer (unsat/sat) wins"""
    t0 = time.time()
    procs = []
    _SEM.acquire()
    for name, mk in SOLVERS:
        if name not in names:
            continue
        cmd = [c for c in mk(timeout) if c not in ('-in', '-')] + [path]
        procs.append((name, subprocess.Popen(cmd, stdout=subprocess.PIPE, stderr=subprocess.DEVNULL, text=True)))
    pending = dict(procs)
    result = None
    try:
        while pending and time.time() - t0 < timeout + 5:
            for name, p in list(pending.items()):
                if p.poll() is not None:
                    out = p.stdout.read().strip()
                    first = out.split('\n', 1)[0].strip() if out else 'error'
                    del pending[name]
                    if first in ('unsat', 'sat'):
                        result = (name, first, out)
                        break
            if result:
                break
            time.sleep(0.005)
    finally:
        for name, p in procs:
            if p.poll() is None:
                p.kill()
            p.wait()
        _SEM.release()
    return result


def discharge(o, timeout=60, want_sat=False):
    """z3-new alone for a few seconds (most obligations take 0.1 s); then z3-new and cvc5 raced with the full timeout.
    returns status in {'proved','failed','unknown'}"""
    import tempfile
    text = o.smt()
    t0 = time.time()
    with tempfile.NamedTemporaryFile('w', suffix='.smt2', delete=False, dir=os.environ.get('INTWP_TMP', '/var/tmp')) as f:
        f.write(text)
        path = f.name
    try:
        result = _run_race(path, ('z3-new',), min(4, timeout))
        if result is None:
            result = _run_race(path, ('z3-new', 'cvc5'), timeout)
    finally:
        os.unlink(path)
    if result is None:
        # falsification assist: the same query restricted to small values of every integer constant. Only `sat` counts
        # (a model of the restricted query is a model of the original one); `unsat` here proves nothing.
        small = [S('and', S('<=', '(- 4096)', n), S('<=', n, '4096')) for n, srt in o.decls if srt == 'Int']
        o2 = Obligation(o.name, o.cls, o.line, o.desc, o.decls, o.asserts + small, o.goal, o.fn)
        with tempfile.NamedTemporaryFile('w', suffix='.smt2', delete=False, dir=os.environ.get('INTWP_TMP', '/var/tmp')) as f:
            f.write(o2.smt())
            path2 = f.name
        try:
            r2 = _run_race(path2, ('z3-new', 'cvc5'), min(timeout, 30))
        finally:
            os.unlink(path2)
        if r2 is not None and r2[1] == 'sat':
            result = (r2[0] + '(small-domain search)', 'sat', r2[2])
    o.secs = time.time() - t0
    if result is None:
        o.status, o.solver = 'unknown', 'z3-new+cvc5'
    elif result[1] == 'unsat':
        o.status, o.solver = 'proved', result[0]
    else:
        o.status, o.solver = 'failed', result[0]
        o.model = parse_model(result[2])
    return o


def verify(text, fname, timeout=60, jobs=16, signed_wrap=False, only=None):
    return verify_unit(Parser(text).parse_unit(), fname, timeout, jobs, signed_wrap, only)


def verify_unit(unit, fname, timeout=60, jobs=16, signed_wrap=False, only=None):
    if fname not in unit.funcs:
        raise Unsupported("function %s not found" % fname)
    g = VCGen(unit, fname, signed_wrap=signed_wrap)
    obls = g.run()
    if only:
        obls = [o for o in obls if re.search(only, o.name)]
    with ThreadPoolExecutor(max_workers=max(1, jobs // 2)) as ex:
        list(ex.map(lambda o: discharge(o, timeout), obls))
    # cover query: expecting sat of (defs and reach) i.e. our "goal" negated is reach... goal = not reach; assert not goal = reach
    cov = g.cover
    discharge(cov, timeout)
    cover_ok = (cov.status == 'failed')   # 'failed' == sat == reachable
    params = {}
    def leafs(prefix, v):
        if isinstance(v, dict):
            for k, x in v.items():
                leafs(prefix + '.' + k, x)
        elif isinstance(v, Val):
            params[prefix] = v.t
    for pn, pv in g.params.items():
        leafs(pn, pv)
    return dict(obligations=obls, cover_ok=cover_ok, cover_status=cov.status, params=params)


def main():
    import argparse
    ap = argparse.ArgumentParser()
    ap.add_argument('file')
    ap.add_argument('--function', required=True)
    ap.add_argument('--timeout', type=int, default=60)
    ap.add_argument('--signed-wrap', action='store_true')
    ap.add_argument('--only')
    ap.add_argument('--dump')
    ap.add_argument('--json')
    a = ap.parse_args()
    text = open(a.file).read()
    try:
        r = verify(text, a.function, a.timeout, signed_wrap=a.signed_wrap, only=a.only)
    except Unsupported as ex:
        print("UNSUPPORTED:", ex)
        sys.exit(2)
    bad = 0
    for o in r['obligations']:
        print("[%s] line %s %s: %s (%s, %.2fs)" % (o.name, o.line, o.desc, o.status.upper(), o.solver, o.secs))
        if o.status != 'proved':
            bad += 1
            if o.model is not None:
                inputs = {k: o.model.get(v) for k, v in r['params'].items()}
                print("    counterexample inputs:", inputs)
        if a.dump:
            os.makedirs(a.dump, exist_ok=True)
            open(os.path.join(a.dump, o.name + '.smt2'), 'w').write(o.smt())
    print("cover(exit reachable):", r['cover_ok'])
    print("%d obligations, %d not proved" % (len(r['obligations']), bad))
    sys.exit(1 if bad else 0)


if __name__ == '__main__':
    main()
