#!/bin/bash
# seed_matrix.sh [seed-id ...]: apply every seeded change (seeded/<id>/patch.diff) to a scratch worktree of /repo HEAD, run the check of the
# property it breaks there (VERIF_REPO, never /repo itself), and write seeded/MATRIX.md: exit code, failing units / obligations.
cd /verif
ids=("$@"); [ ${#ids[@]} -eq 0 ] && ids=($(ls seeded | grep -E '^C[0-9]+_'))
out=seeded/MATRIX.md
# MERGE=1: keep the rows of all other seeds from the existing table and replace / add only the given ones
echo "| seed | property | check exit | what the check reported |" > $out.tmp
echo "|---|---|---|---|" >> $out.tmp
if [ -n "$MERGE" ] && [ -f $out ]; then
  pat=$(printf "%s\n" "${ids[@]}" | sed "s/^/^[|] /; s/$/ [|]/" | paste -sd"|")
  tail -n +3 $out | grep -vE "$pat" >> $out.tmp
fi
for id in "${ids[@]}"; do
  prop=${id%%_*}
  [ -f seeded/$id/patch.diff ] || continue
  log=$(tools/try_seed.sh seeded/$id/patch.diff $prop --tier quick 2>&1)
  rc=$(echo "$log" | grep -oE "try_seed exit=[0-9]+" | grep -oE "[0-9]+$")
  if echo "$log" | grep -q "patch does not apply"; then what="patch does not apply to the current HEAD (superseded by a fix: commit)"; rc="-";
  else what=$(echo "$log" | grep -E "failed obligation|EXTRACTION-ERROR|UNDECIDED" | sed -E 's/ce=\{.*//; s/^ *//' | cut -c1-170 | sort -u | head -3 | tr '\n' ';' | sed 's/|/\\|/g'); fi
  verdict="MISSED"; [ "$rc" = "1" ] && verdict="caught"; [ "$rc" = "2" ] && verdict="undecided (exit 2)"; [ "$rc" = "-" ] && verdict="n/a"
  echo "| $id | $prop | $rc ($verdict) | $what |" >> $out.tmp
  echo "$id $rc"
done
{ head -2 $out.tmp; tail -n +3 $out.tmp | sort -V; } > $out && rm -f $out.tmp
