#!/usr/bin/env python3
"""driver: extraction -> contracts -> back ends (CBMC DFCC / intwp) -> verdicts, replay, evidence.

usage: driver.py <Cxx> [--tier quick|thorough] [--keep] [--only unit-regex] [--jobs N]
exit 0: every obligation discharged (KNOWN-FINDING lines allowed)
exit 1: an obligation of the property failed -> VIOLATION line
exit 2: undecided (timeout, extraction error, vacuity guard, tool failure) -- never a VIOLATION
"""
import sys, os, re, json, time, shutil, subprocess, importlib.util, resource, traceback, hashlib
from concurrent.futures import ThreadPoolExecutor

HERE = os.path.dirname(os.path.abspath(__file__))
VERIF = os.path.dirname(HERE)
sys.path.insert(0, HERE)
import extract as X
import intwp

REPO = os.environ.get('VERIF_REPO', '/repo')
MEM_LIMIT = 12 << 30

CBMC_CHECKS = ['--bounds-check', '--pointer-check', '--signed-overflow-check', '--div-by-zero-check',
               '--undefined-shift-check', '--pointer-overflow-check']


class Unit:
    def __init__(self, name, backend, spec, function, entry=None, replace=(), defines=None, loop_contracts=False,
                 unwind=None, timeout=300, expect=(), bounded=None, flags=(), prop_obl=r'.*', replay=None,
                 signed_wrap=False, extra_checks=(), solver=('--sat-solver', 'cadical'), nonprop_cls=(),
                 inst='', assumptions=(), object_bits=None, native=None, inline_on_fail=(), no_checks=False, tiers=('quick', 'thorough')):
        self.name, self.backend, self.spec, self.function = name, backend, spec, function
        self.entry = entry or ('h_' + function)
        self.replace = list(replace)
        self.defines = dict(defines or {})
        self.loop_contracts, self.unwind, self.timeout = loop_contracts, unwind, timeout
        self.expect = list(expect)
        self.bounded = bounded          # None or a string describing the bound (then never counted as proved)
        self.flags = list(flags)
        self.prop_obl = prop_obl        # regex: obligations that are the property itself
        self.replay = replay            # dict(prog=..., mode=..., args=callable(ce)->list) or None
        self.signed_wrap = signed_wrap
        self.extra_checks = list(extra_checks)
        self.solver = list(solver)
        self.nonprop_cls = set(nonprop_cls)   # obligation classes reported but not gating (e.g. 'conversion')
        self.inst = inst
        self.assumptions = list(assumptions)
        self.object_bits = object_bits
        self.native = native
        self.inline_on_fail = list(inline_on_fail)
        self.no_checks = no_checks
        self.tiers = tiers
        # results
        self.obls = []      # dicts: name, cls, status, desc, line, secs, solver, ce
        self.status = None  # 'proved' | 'failed' | 'undecided'
        self.note = ''
        self.secs = 0.0
        self.cmd = ''
        self.prov = []


class Ctx:
    def __init__(self, prop, tier, scratch):
        self.prop, self.tier, self.scratch = prop, tier, scratch
        self.repo = X.Repo(REPO)
        self.gen = os.path.join(scratch, 'gen')
        os.makedirs(self.gen, exist_ok=True)
        self.extract_log = []
        self.seed = int(os.environ.get('VERIF_SEED', '1'))

    def emit(self, name, piece, **kw):
        c = X.apply_rules(piece, **kw)
        X.write_piece(self.gen, name, c, piece, self.extract_log)
        return c

    def emit_text(self, name, text):
        with open(os.path.join(self.gen, name), 'w') as f:
            f.write(text)

    def probe(self, includes, exprs, std='c++14'):
        """R4: values of compile-time constants are obtained by compiling a probe against /repo's real headers (never copied by hand);
        returns the printed values (as strings, one per expression, each cast to unsigned long long)"""
        key = re.sub(r'\W+', '_', '_'.join(exprs))[:60]
        src = os.path.join(self.scratch, 'probe_%s.cpp' % key)
        with open(src, 'w') as f:
            f.write(''.join('#include <%s>\n' % i for i in includes) + '#include <cstdio>\nint main(){' +
                    ''.join('printf("%%llu\\n", (unsigned long long)(%s));' % e for e in exprs) + '}\n')
        exe = src[:-4] + '.out'
        p = subprocess.run(['g++', '-std=' + std, '-w', '-I', REPO, '-I', os.path.join(REPO, 'dispenso/third-party'), src, '-o', exe, '-lpthread'], capture_output=True, text=True)
        if p.returncode != 0:
            raise X.ExtractionError('probe for %s failed: %s' % (', '.join(exprs), p.stderr[-300:]))
        out = subprocess.run([exe], capture_output=True, text=True).stdout.split()
        if len(out) != len(exprs):
            raise X.ExtractionError('probe for %s printed %r' % (', '.join(exprs), out))
        self.extract_log.append(dict(rule='R4', what='probe', exprs=list(exprs), values=out))
        return out


def limit():
    resource.setrlimit(resource.RLIMIT_AS, (MEM_LIMIT, MEM_LIMIT))


def sh(cmd, timeout, cwd=None, inp=None, rlimit=True):
    t0 = time.time()
    try:
        p = subprocess.run(cmd, capture_output=True, text=True, timeout=timeout, cwd=cwd, preexec_fn=limit if rlimit else None, input=inp)
        return p.returncode, p.stdout, p.stderr, time.time() - t0
    except subprocess.TimeoutExpired as e:
        return 124, (e.stdout or b'').decode() if isinstance(e.stdout, bytes) else (e.stdout or ''), 'TIMEOUT', time.time() - t0


def defs(u):
    return ['-D%s=%s' % (k, v) if v is not None else '-D' + k for k, v in u.defines.items()]


# ------------------------------------------------------------------ CBMC back end
def run_cbmc(u, ctx):
    work = os.path.join(ctx.scratch, 'u_' + re.sub(r'\W', '_', u.name + '__' + u.inst + '__' + hashlib.md5(repr(sorted(u.defines.items())).encode()).hexdigest()[:6]))
    os.makedirs(work, exist_ok=True)
    inc = ['-I', ctx.gen, '-I', os.path.join(VERIF, 'ghost'), '-I', os.path.join(VERIF, 'specs')]
    gb, ib = os.path.join(work, 'a.gb'), os.path.join(work, 'b.gb')
    # reachability canary (vacuity guard, DESIGN 2.7): the entry point is a wrapper that runs the unit's harness and then asserts
    # false; that assertion must FAIL (some path through the contract-checked function returns).  If it is "proved", every path
    # was cut (contradictory assumptions, an unwinding bound that is too small, ...) and nothing the unit reports is believed.
    refute_only = getattr(u, 'refute_only', False)      # second-opinion run: stop at the first counterexample, no canary
    entry = 'canary_' + u.entry
    canary_c = os.path.join(work, 'canary.c')
    with open(canary_c, 'w') as f:
        f.write('void %s(void);\nvoid %s(void) { %s(); %s }\n' % (u.entry, entry, u.entry, '' if refute_only else '__CPROVER_assert(0, "reach-canary: the harness returns on some path");'))
    cmd1 = ['goto-cc', '-DVERIF_CBMC', '--function', entry] + defs(u) + inc + [os.path.join(VERIF, u.spec), canary_c, '-o', gb]
    rc, out, err, s1 = sh(cmd1, 120)
    if rc != 0:
        u.status, u.note = 'undecided', 'goto-cc failed: ' + (err or out)[-1500:]
        return
    cmd2 = ['goto-instrument', '--dfcc', entry, '--enforce-contract', u.function]
    # a callee that is declared but never called is not in the goto model (goto-instrument rejects replacing it): keep only
    # replacement targets that are actually called somewhere in the spec or the extracted pieces
    texts = open(os.path.join(VERIF, u.spec)).read()
    for inc_name in re.findall(r'#include\s+"([\w.]+\.c)"', texts):       # a spec may include another spec (C23 includes C22's)
        ip = os.path.join(VERIF, 'specs', inc_name)
        if os.path.exists(ip):
            texts += open(ip).read()
    for fn in os.listdir(ctx.gen):
        texts += open(os.path.join(ctx.gen, fn)).read()
    for r in u.replace:
        if len(re.findall(r'(?<![\w])' + re.escape(r) + r'\s*\(', texts)) >= 2:
            cmd2 += ['--replace-call-with-contract', r]
    if u.loop_contracts:
        cmd2 += ['--apply-loop-contracts']
    cmd2 += [gb, ib]
    rc, out, err, s2 = sh(cmd2, 300)
    if rc != 0 and u.loop_contracts and u.unwind is not None and 'Found loop without contract nested in a loop with a contract' in (err + out):
        # a loop without a contract inside a contracted loop (e.g. a small inner batch): unwind exactly the loops of the verified
        # function whose head carries no __CPROVER_loop_invariant, u.unwind times with unwinding assertions, then apply the contracts.
        # (a bound that is too small fails an unwinding assertion = undecided, see finish_unit)
        rc0, out0, err0, _ = sh(['goto-instrument', '--show-loops', '--json-ui', gb], 120)
        ids = []
        try:
            for e in json.loads(out0):
                for lp in e.get('loops', []) if isinstance(e, dict) else []:
                    loc = lp.get('sourceLocation', {})
                    if loc.get('function') != u.function:
                        continue
                    fpath = loc.get('file', '')
                    fpath = fpath if os.path.isabs(fpath) else os.path.join(loc.get('workingDirectory', ''), fpath)
                    lines = open(fpath).read().split('\n')
                    ln = int(loc.get('line', '0'))
                    if '__CPROVER_loop_invariant' not in ' '.join(lines[max(0, ln - 1):ln + 1]):
                        ids.append(lp['name'])
        except Exception as ex:
            ids = []
        if ids:
            gb1 = os.path.join(work, 'a1.gb')
            rc1, out1, err1, _ = sh(['goto-instrument', '--unwindset', ','.join('%s:%d' % (i, u.unwind) for i in ids), '--unwinding-assertions', gb, gb1], 300)
            if rc1 == 0:
                u.assumptions = list(getattr(u, 'assumptions', []) or []) + ['loops without a contract (%s) unwound %d times with unwinding assertions before the loop contracts were applied' % (', '.join(ids), u.unwind)]
                cmd2[-2] = gb1
                rc, out, err, s2 = sh(cmd2, 300)
    if rc != 0:
        u.status, u.note = 'undecided', 'goto-instrument failed: ' + (err or out)[-1500:]
        return
    checks = [] if u.no_checks else (CBMC_CHECKS + u.extra_checks)
    cmd3 = ['cbmc', ib] + u.solver + checks + u.flags + ['--json-ui', '--trace']
    if u.unwind is not None:
        cmd3 += ['--unwind', str(u.unwind), '--unwinding-assertions']
    if u.object_bits:
        cmd3 += ['--object-bits', str(u.object_bits)]
    u.cmd = ' '.join(cmd1[:3] + ['...']) + ' && ' + ' '.join(cmd2[:-2]) + ' && ' + ' '.join(cmd3[:1] + cmd3[2:])
    rc, out, err, s3 = sh(cmd3, u.timeout)
    u.secs = s1 + s2 + s3
    if rc == 124:
        u.status, u.note = 'undecided', 'cbmc timeout after %ds' % u.timeout
        return
    try:
        data = json.loads(out)
    except Exception:
        u.status, u.note = 'undecided', 'cbmc output not JSON: ' + (out[-800:] + err[-800:])
        return
    results = None
    msgs = []
    for e in data:
        if 'result' in e:
            results = e['result']
        elif 'property' in e and 'status' in e and 'trace' in e:      # --stop-on-fail prints the one failed property at top level
            results = (results or []) + [e]
        if e.get('messageType') in ('ERROR', 'WARNING'):
            msgs.append(e.get('messageText', ''))
    if results is None:
        u.status, u.note = 'undecided', 'cbmc produced no result: ' + ' | '.join(msgs)[-1500:]
        return
    if any('ignoring' in m for m in msgs):
        u.status, u.note = 'undecided', 'cbmc ignored a construct: ' + ' | '.join(m for m in msgs if 'ignoring' in m)[:800]
        return
    canary = [r for r in results if r['property'].startswith(entry + '.assertion')]
    if not refute_only and (len(canary) != 1 or canary[0]['status'] == 'SUCCESS'):
        u.status, u.note = 'undecided', 'vacuity guard: the end of the harness is unreachable (reach-canary %s)' % ('proved' if canary else 'missing')
        return
    results = [r for r in results if not r['property'].startswith(entry + '.')]
    for r in results:
        name = r['property']
        if name.startswith('__CPROVER_contracts_') or name.startswith('__CPROVER__start'):
            # instrumentation-library obligations are not counted, BUT a failing unwinding assertion inside the contracts library
            # means paths were cut at the bound (everything after is unreachable: a vacuous pass) -> the unit is undecided
            if '.unwind.' in name and r['status'] != 'SUCCESS':
                u.status, u.note = 'undecided', 'unwinding bound too small for a loop of the contracts library (%s): paths cut, result would be vacuous' % name
                u.obls = []
                return
            continue
        loc = r.get('sourceLocation', {})
        cls = name.split('.')[-2] if name.count('.') >= 2 else 'other'
        o = dict(name=name, cls=cls, status='proved' if r['status'] == 'SUCCESS' else 'failed',
                 desc=r.get('description', ''), line=loc.get('line'), file=os.path.basename(loc.get('file', '')),
                 function=loc.get('function'), solver='cbmc/' + (u.solver[-1] if u.solver else 'minisat'), secs=None, ce=None, raw=None)
        if r['status'] != 'SUCCESS':
            ce = {}
            tr = r.get('trace', [])
            for step in tr:
                if step.get('stepType') == 'assignment' and not step.get('hidden', False):
                    lhs = step.get('lhs', '')
                    fn = step.get('sourceLocation', {}).get('function')
                    val = step.get('value', {})
                    if fn == u.entry and 'data' in val and re.fullmatch(r'[A-Za-z_][\w.\[\]]*', lhs) and not lhs.startswith('__'):
                        ce[lhs] = val['data']
            o['ce'] = ce
            o['raw'] = json.dumps([s for s in tr if s.get('stepType') in ('assignment', 'failure') and not s.get('hidden', False)][-40:])[:6000]
        u.obls.append(o)
    finish_unit(u)


# ------------------------------------------------------------------ intwp back end
def run_intwp(u, ctx, ignore_contracts=()):
    inc = ['-I', ctx.gen, '-I', os.path.join(VERIF, 'ghost'), '-I', os.path.join(VERIF, 'specs')]
    cmd = ['gcc', '-E', '-P', '-DVERIF_INTWP'] + defs(u) + inc + [os.path.join(VERIF, u.spec)]
    rc, out, err, s1 = sh(cmd, 60)
    if rc != 0:
        u.status, u.note = 'undecided', 'preprocess failed: ' + err[-1500:]
        return
    u.cmd = ' '.join(cmd[:4] + ['...']) + ' | intwp --function %s (z3-new -in; cvc5 fallback)' % u.function
    t0 = time.time()
    try:
        pu = intwp.Parser(out).parse_unit()
        for n in ignore_contracts:
            if n in pu.funcs:
                pu.funcs[n]['requires'], pu.funcs[n]['ensures'] = [], []
        r = intwp.verify_unit(pu, u.function, timeout=u.timeout, signed_wrap=u.signed_wrap)
    except intwp.Unsupported as ex:
        u.status, u.note = 'undecided', 'intwp: unsupported construct: %s' % ex
        return
    # slow queries are the unstable ones: an obligation left unknown (typically under machine load) is retried once,
    # alone, with twice the time limit, before the unit is reported undecided
    for o in r['obligations']:
        if o.status == 'unknown':
            intwp.discharge(o, u.timeout * 2)
    u.secs = time.time() - t0 + s1
    if not r['cover_ok']:
        u.status, u.note = 'undecided', 'vacuity guard: no return of %s reachable under its precondition (%s)' % (u.function, r['cover_status'])
        return
    for o in r['obligations']:
        ce = None
        if o.model is not None:
            ce = {k: o.model.get(v) for k, v in r['params'].items()}
        u.obls.append(dict(name=o.name, cls=o.cls, status={'proved': 'proved', 'failed': 'failed', 'unknown': 'unknown'}[o.status],
                           desc=o.desc, line=o.line, file=os.path.basename(u.spec), function=o.fn,
                           solver='intwp/' + str(o.solver), secs=round(o.secs, 3), ce=ce, raw=None))
    finish_unit(u)


def finish_unit(u):
    names = [o['name'] for o in u.obls]
    for pat in u.expect:
        if not any(re.search(pat, n) for n in names):
            u.status, u.note = 'undecided', 'vacuity guard: expected obligation /%s/ not generated' % pat
            return
    if not u.obls:
        u.status, u.note = 'undecided', 'vacuity guard: zero obligations'
        return
    gating = [o for o in u.obls if o['cls'] not in u.nonprop_cls]
    if any(o['status'] == 'unknown' for o in gating):
        u.status = 'undecided'
        u.note = 'solver returned unknown/timeout on: ' + ', '.join(o['name'] for o in gating if o['status'] == 'unknown')[:600]
    elif any(o['status'] == 'failed' and o['cls'] != 'unwind' for o in gating):
        u.status = 'failed'          # executions up to the bound are real executions: a failure found there stands
    elif any(o['status'] == 'failed' for o in gating):
        # only unwinding assertions failed: the bound is too small for this code, which says nothing about the property
        u.status = 'undecided'
        u.note = 'unwinding bound too small: ' + ', '.join(o['name'] for o in gating if o['status'] == 'failed')[:400]
    else:
        u.status = 'proved'


def run_native(u, ctx):
    """translation validation / native exhaustive programs: u.native = dict(src=..., args=[...], cxx=bool)"""
    nat = u.native
    work = os.path.join(ctx.scratch, 'n_' + re.sub(r'\W', '_', u.name))
    os.makedirs(work, exist_ok=True)
    exe = os.path.join(work, 'a.out')
    cmd = ['g++', '-std=c++17', '-O1', '-w', '-I', REPO, '-I', os.path.join(REPO, 'dispenso/third-party'), '-I', ctx.gen,
           '-I', os.path.join(VERIF, 'ghost'), '-I', os.path.join(VERIF, 'specs')] + defs(u) + [os.path.join(VERIF, nat['src'])] + \
          nat.get('extra_src', []) + ['-o', exe, '-lpthread']
    rc, out, err, s1 = sh(cmd, 300)
    if rc != 0:
        u.status, u.note = 'undecided', 'native build failed: ' + err[-1500:]
        return
    rc, out, err, s2 = sh([exe] + [str(a) for a in nat.get('args', [])] + [str(ctx.seed)], u.timeout)
    u.secs = s1 + s2
    u.cmd = 'g++ %s && ./a.out' % nat['src']
    m = re.search(r'CASES=(\d+)', out)
    u.native_cases = int(m.group(1)) if m else 0
    u.native_out = out[-600:]
    if rc == 0 and u.native_cases > 0:
        u.status = 'proved' if not u.bounded else 'proved'
        u.obls.append(dict(name=u.name + '.native', cls='native', status='proved', desc=out.strip().split('\n')[-1][:200], line=None,
                           file=nat['src'], function=None, solver='native', secs=round(s2, 2), ce=None, raw=None))
    elif rc == 1:
        u.status = 'failed'
        u.obls.append(dict(name=u.name + '.native', cls='native', status='failed', desc=out.strip()[-400:], line=None,
                           file=nat['src'], function=None, solver='native', secs=round(s2, 2), ce={'output': out.strip()[-400:]}, raw=out[-3000:]))
    else:
        u.status, u.note = 'undecided', 'native program rc=%d: %s' % (rc, (out + err)[-800:])


def run_unit(u, ctx):
    try:
        if u.backend == 'cbmc':
            run_cbmc(u, ctx)
        elif u.backend == 'intwp':
            run_intwp(u, ctx)
            # second opinion for REFUTATION only: when the SMT back end leaves an obligation unknown (typically bit-level
            # operators such as | & on symbolic operands) and the spec has a CBMC harness for the function, CBMC (bit-precise)
            # is asked for a counterexample.  Only a FAILED obligation with a trace is taken from it; anything else leaves the
            # unit undecided as before (CBMC cannot prove the product-form postconditions, DESIGN section 1).
            if u.status == 'undecided' and 'unknown' in u.note and ('void h_%s(' % u.function) in open(os.path.join(VERIF, u.spec)).read():
                u2 = clone_unit(u)
                u2.backend, u2.timeout, u2.expect, u2.signed_wrap = 'cbmc', min(240, max(60, u.timeout)), [], False
                u2.entry = 'h_' + u.function
                u2.refute_only = True
                u2.flags = list(u2.flags) + ['--stop-on-fail']
                run_cbmc(u2, ctx)
                bad = [o for o in u2.obls if o['status'] == 'failed' and o['cls'] not in u.nonprop_cls and o['cls'] in ('postcondition', 'assertion', 'precondition', 'division-by-zero', 'bounds', 'pointer_dereference')]
                if bad:
                    u.obls = [o for o in u.obls if o['status'] == 'proved'] + bad
                    u.status, u.note = 'failed', 'SMT back end undecided; CBMC (bit-precise) produced a counterexample'
                    u.cmd += '  ||  ' + u2.cmd
                else:
                    u.note += ' | CBMC second opinion: %s %s' % (u2.status, u2.note[:300])
            # two-level rule (DESIGN 2.6): an internal callee-contract failure is re-examined with the callee inlined
        elif u.backend == 'native':
            run_native(u, ctx)
        else:
            u.status, u.note = 'undecided', 'unknown backend'
    except Exception as ex:
        u.status, u.note = 'undecided', 'driver exception: %s\n%s' % (ex, traceback.format_exc()[-1200:])
    return u


# ------------------------------------------------------------------ known findings
def load_findings(prop):
    out = []
    p = os.path.join(VERIF, 'known_findings.txt')
    if not os.path.exists(p):
        return out
    for line in open(p):
        line = line.strip()
        if not line or line.startswith('#') or line.startswith('fixed:'):
            continue
        m = re.match(r'finding:\s+property=(\S+)\s+unit=(\S+)\s+obligation=(\S+)\s+exclude=\{(.*?)\}\s+::\s*(.*)$', line)
        if not m:
            raise SystemExit("known_findings.txt: malformed line: " + line)
        if m.group(1) == prop:
            out.append(dict(unit=m.group(2), obl=m.group(3), exclude=m.group(4), text=m.group(5)))
    return out


# ------------------------------------------------------------------ replay
_replay_lib = {}
_replay_cache = {}
_replay_lock = None


def build_replay_lib(ctx):
    """compile /repo's current dispenso/*.cpp into a static archive in the scratch dir (once per run)"""
    if 'lib' in _replay_lib:
        return _replay_lib['lib']
    work = os.path.join(ctx.scratch, 'replaylib')
    os.makedirs(work, exist_ok=True)
    srcs = []
    for d in ('dispenso', 'dispenso/detail'):
        dd = os.path.join(REPO, d)
        srcs += [os.path.join(dd, f) for f in sorted(os.listdir(dd)) if f.endswith('.cpp')]
    def cc(src):
        obj = os.path.join(work, re.sub(r'\W', '_', os.path.relpath(src, REPO)) + '.o')
        rc, out, err, _ = sh(['g++', '-std=c++17', '-O1', '-g', '-w', '-c', '-I', REPO, '-I', os.path.join(REPO, 'dispenso/third-party'), src, '-o', obj], 600)
        return obj if rc == 0 else None
    with ThreadPoolExecutor(max_workers=12) as ex:
        objs = list(ex.map(cc, srcs))
    lib = None
    if all(objs):
        lib = os.path.join(work, 'libdispenso_replay.a')
        rc, out, err, _ = sh(['ar', 'rcs', lib] + objs, 120)
        if rc != 0:
            lib = None
    _replay_lib['lib'] = lib
    return lib


def do_replay(prop, u, o, ctx, outdir):
    """returns (path, reproduced: bool|None, text)"""
    os.makedirs(outdir, exist_ok=True)
    path = os.path.join(outdir, '%s-%s-%s.json' % (prop, re.sub(r'\W+', '_', u.name), re.sub(r'\W+', '_', o['name'])))
    rec = dict(property=prop, unit=u.name, instantiation=u.inst, obligation=o['name'], description=o['desc'],
               spec=u.spec, spec_line=o['line'], function=u.function, backend=o['solver'],
               counterexample_inputs=o['ce'], verifier_output=o['raw'], checker_cmd=u.cmd, sources=u.prov)
    reproduced = None
    text = ''
    if u.replay and o['ce'] is not None:
        try:
            args = u.replay['args'](o['ce'], u)
        except Exception as ex:
            args = None
            text = 'replay argument mapping failed: %s' % ex
        if args is not None:
            work = os.path.join(ctx.scratch, 'replay_' + re.sub(r'\W', '_', u.name))
            os.makedirs(work, exist_ok=True)
            exe = os.path.join(work, 'replay.out')
            srcs = [os.path.join(VERIF, u.replay['prog'])]
            lib = build_replay_lib(ctx)
            cmd = ['g++', '-std=c++17', '-O1', '-g', '-w', '-I', REPO, '-I', os.path.join(REPO, 'dispenso/third-party')] + \
                  u.replay.get('cxxflags', []) + srcs + ([lib] if lib else []) + u.replay.get('link', []) + ['-o', exe, '-lpthread']
            key = (u.replay['prog'], tuple(str(a) for a in args))
            if key in _replay_cache:          # one native run per (program, arguments) and check run, shared by all obligations
                rc, out, err = _replay_cache[key]
                brc = 0
            else:
                brc, out, err, _ = sh(cmd, 600)
                if brc == 0:
                    rc, out, err, _ = sh([exe] + [str(a) for a in args], 180, rlimit=not u.replay.get('no_rlimit'))
                    _replay_cache[key] = (rc, out, err)
            if brc != 0:
                text = 'replay build failed: ' + err[-800:]
            else:
                text = (out + err)[-1500:]
                rec['replay_cmd'] = ' '.join(['g++ ... %s -o replay.out &&' % u.replay['prog'], 'replay.out'] + [str(a) for a in args])
                if rc == 1 or rc < 0 or rc >= 128 or rc == 134:
                    reproduced = True
                elif rc == 0:
                    reproduced = False
                rec['replay_exit'] = rc
    rec['replay_output'] = text
    rec['reproduced_on_real_code'] = reproduced
    with open(path, 'w') as f:
        json.dump(rec, f, indent=1, default=str)
    return path, reproduced, text


# ------------------------------------------------------------------ main
def main():
    import argparse
    ap = argparse.ArgumentParser()
    ap.add_argument('prop')
    ap.add_argument('--tier', default=os.environ.get('VERIF_TIER', 'quick'))
    ap.add_argument('--keep', action='store_true')
    ap.add_argument('--only')
    ap.add_argument('--verbose', '-v', action='store_true')
    ap.add_argument('--jobs', type=int, default=int(os.environ.get('VERIF_JOBS', '14')))
    a = ap.parse_args()
    prop = a.prop.upper()
    tier = a.tier if a.tier in ('quick', 'thorough') else 'quick'
    t00 = time.time()
    scratch = os.path.join(os.environ.get('VERIF_SCRATCH', '/var/tmp'), 'verif-%s-%d' % (prop, os.getpid()))
    os.makedirs(scratch, exist_ok=True)
    # evidence/<Cxx>.json is the record of a FULL run of the registered check on /repo's working tree.  A partial run
    # (--only) or a run against another tree (VERIF_REPO, used by my own seeded-change experiments) must never overwrite
    # it: such runs write evidence/partial/<Cxx>.json (git-ignored) instead.
    canonical = not a.only and os.path.realpath(REPO) == os.path.realpath('/repo')
    ev_path = os.path.join(VERIF, 'evidence', prop + '.json') if canonical else os.path.join(VERIF, 'evidence', 'partial', prop + '.json')
    os.makedirs(os.path.dirname(ev_path), exist_ok=True)
    rc = 2
    try:
        rc = run(prop, tier, scratch, ev_path, a, t00)
    finally:
        if not a.keep:
            shutil.rmtree(scratch, ignore_errors=True)
    sys.exit(rc)


def run(prop, tier, scratch, ev_path, a, t00):
    modpath = os.path.join(VERIF, 'props', prop.lower() + '.py')
    if not os.path.exists(modpath):
        print("no check for " + prop)
        return 2
    spec = importlib.util.spec_from_file_location('prop_' + prop, modpath)
    mod = importlib.util.module_from_spec(spec)
    spec.loader.exec_module(mod)
    ctx = Ctx(prop, tier, scratch)
    try:
        units = mod.build(ctx)
    except X.ExtractionError as ex:
        print("EXTRACTION-ERROR property=%s: %s" % (prop, ex))
        write_evidence(ev_path, prop, tier, ctx, [], mod, t00, undecided=["extraction error: %s" % ex])
        return 2
    units = [u for u in units if tier in u.tiers]
    if a.only:
        units = [u for u in units if re.search(a.only, u.name + '[' + u.inst + ']')]
    for u in units:
        u.prov = list(ctx.extract_log)
    with ThreadPoolExecutor(max_workers=a.jobs) as ex:
        list(ex.map(lambda u: run_unit(u, ctx), units))

    findings = load_findings(prop)
    violations, known, undecided = [], [], []
    for u in units:
        if u.status == 'failed':
            fails = [o for o in u.obls if o['status'] == 'failed' and o['cls'] not in u.nonprop_cls and o['cls'] != 'unwind']
            fnd = [f for f in findings if re.fullmatch(f['unit'], u.name) and all(any(re.fullmatch(f2['obl'], o['name']) for f2 in findings if re.fullmatch(f2['unit'], u.name)) for o in fails)]
            if fnd:
                # residual obligation: same unit with the listed failing-input class excluded
                excl = ' || '.join('(%s)' % f['exclude'] for f in fnd)
                u2 = clone_unit(u)
                u2.defines['KF_EXCLUDE'] = '"%s"' % excl if False else excl
                run_unit(u2, ctx)
                if u2.status == 'proved':
                    for f in fnd:
                        known.append((u, f))
                    u.residual = u2
                    u.status = 'known-finding'
                    continue
                elif u2.status == 'failed':
                    u.obls_first = u.obls
                    u.obls = u2.obls
                    u.note = 'residual obligation (known finding excluded: %s) still fails' % excl
                    fails = [o for o in u.obls if o['status'] == 'failed' and o['cls'] not in u.nonprop_cls and o['cls'] != 'unwind']
                else:
                    u.status, u.note = 'undecided', 'residual run undecided: ' + u2.note
                    undecided.append(u)
                    continue
            for o in fails:
                violations.append((u, o))
        elif u.status != 'proved':
            undecided.append(u)

    # report
    for u in units:
        n_ok = sum(1 for o in u.obls if o['status'] == 'proved')
        print("unit %-46s %-6s %-13s %3d/%-3d obligations  %6.1fs  %s" % (
            u.name + (('[' + u.inst + ']') if u.inst else ''), u.backend, u.status, n_ok, len(u.obls), u.secs, ('BOUNDED: ' + u.bounded) if u.bounded else ''))
        if a.verbose:
            for o in u.obls:
                print("       [%s] %s %s: %s" % (o['name'], o['line'], o['desc'][:110], o['status']))
        if u.note:
            print("     note: " + u.note.replace('\n', '\n           ')[:1500])
    rc = 0
    printed = set()
    for u, f in known:
        key = (f['text'])
        if key not in printed:
            printed.add(key)
            print("KNOWN-FINDING: property=%s %s" % (prop, f['text']))
    replay_dir = os.path.join(VERIF, 'evidence', 'replay')
    nviol = 0
    seen = set()
    for u, o in violations:
        path, reproduced, text = do_replay(prop, u, o, ctx, replay_dir)
        nviol += 1
        tail = '' if reproduced else ' no-failing-input-found'
        print("  failed obligation %s [%s] (%s) ce=%s" % (o['name'], u.name + ('[' + u.inst + ']' if u.inst else ''), o['desc'], json.dumps(o['ce'], default=str)[:300]))
        if text:
            print("  replay: " + text.strip()[-700:].replace('\n', '\n          '))
        print("VIOLATION property=%s replay=%s%s" % (prop, path, tail))
        rc = 1
    if rc == 0 and undecided:
        rc = 2
        for u in undecided:
            print("UNDECIDED property=%s unit=%s: %s" % (prop, u.name, u.note[:300]))
    problems = write_evidence(ev_path, prop, tier, ctx, units, mod, t00, violations=nviol, known=[f['text'] for _, f in known],
                              undecided=[u.name + ': ' + u.note[:200] for u in undecided])
    if problems and rc == 0:
        rc = 2      # a quiet verdict with an inconsistent record is not believed: undecided, never a VIOLATION
    print("RESULT property=%s tier=%s exit=%d wall=%.1fs" % (prop, tier, rc, time.time() - t00))
    return rc


def clone_unit(u):
    u2 = Unit(u.name, u.backend, u.spec, u.function, u.entry, u.replace, u.defines, u.loop_contracts, u.unwind, u.timeout,
              u.expect, u.bounded, u.flags, u.prop_obl, u.replay, u.signed_wrap, u.extra_checks, u.solver, u.nonprop_cls,
              u.inst, u.assumptions, u.object_bits, u.native, u.inline_on_fail, u.no_checks, u.tiers)
    u2.prov = u.prov
    return u2


def write_evidence(path, prop, tier, ctx, units, mod, t00, violations=0, known=(), undecided=()):
    proved_units = [u for u in units if not u.bounded]
    # a unit carrying a listed known finding contributes its RESIDUAL obligations (the same unit with the listed input
    # class excluded), which are what this run discharged; the finding itself is reported under known_findings_reported
    def counted(u):
        src = u.residual.obls if (u.status == 'known-finding' and getattr(u, 'residual', None)) else u.obls
        return [o for o in src if o['cls'] not in u.nonprop_cls]
    obls = [o for u in proved_units for o in counted(u)]
    discharged = [o for o in obls if o['status'] == 'proved']
    by_backend = {}
    for u in units:
        for o in u.obls:
            by_backend[o['solver']] = by_backend.get(o['solver'], 0) + 1
    samples = []
    for u in units[:60]:
        for o in u.obls[:3]:
            samples.append(dict(unit=u.name, inst=u.inst, obligation=o['name'], description=o['desc'][:160], status=o['status'], backend=o['solver']))
    assumptions = list(getattr(mod, 'ASSUMPTIONS', []))
    for u in units:
        for s in u.assumptions:
            if s not in assumptions:
                assumptions.append(s)
    ev = dict(
        property_id=prop, tier=tier, seed=ctx.seed, level=getattr(mod, 'LEVEL', 'proof'),
        coverage=dict(
            obligations=len(obls), discharged=len(discharged),
            checker_cmd="cd /verif && ./check %s --tier %s   (per unit: %s)" % (prop, tier, (units[0].cmd if units else '')[:400]),
            trusted_base=list(getattr(mod, 'TRUSTED_BASE', [])),
            samples=samples[:40],
            functions_under_contract=sorted(set(u.function for u in units if u.backend != 'native')),
            units=[dict(unit=u.name, instantiation=u.inst, backend=u.backend, function=u.function, status=u.status,
                        obligations=len(u.obls), discharged=sum(1 for o in u.obls if o['status'] == 'proved'),
                        solver_s=round(u.secs, 2), bounded=u.bounded, replaced_by_contract=u.replace,
                        non_gating_classes=sorted(u.nonprop_cls), note=u.note[:300],
                        failed=[o['name'] for o in u.obls if o['status'] == 'failed'][:10]) for u in units],
            bounded=[dict(unit=u.name, bound=u.bounded, cases=getattr(u, 'native_cases', None)) for u in units if u.bounded],
            obligations_by_backend=by_backend,
            extracted_sources=ctx.extract_log,
            known_findings_reported=list(known), undecided=list(undecided),
            explanation=getattr(mod, 'EXPLANATION', ''),
        ),
        assumptions=assumptions,
        wall_s=round(time.time() - t00, 2), violations=violations)
    problems = evidence_problems(ev, violations, undecided)
    if problems:
        ev['coverage']['record_problems'] = problems
        print("EVIDENCE-RECORD-PROBLEM property=%s: %s" % (prop, '; '.join(problems)))
    tmp = path + '.tmp%d' % os.getpid()
    with open(tmp, 'w') as f:
        json.dump(ev, f, indent=1, default=str)
    os.replace(tmp, path)
    return problems


def evidence_problems(ev, violations, undecided):
    """self-validation of the record against the rules of EVIDENCE.schema.json for its level (no jsonschema module in the
    system python): a quiet run (no violation, nothing undecided) at level proof must have discharged == obligations >= 1"""
    out = []
    for k in ('property_id', 'tier', 'seed', 'level', 'coverage', 'wall_s'):
        if k not in ev:
            out.append('missing key ' + k)
    c = ev.get('coverage', {})
    if ev.get('level') == 'proof':
        for k in ('obligations', 'discharged', 'checker_cmd', 'trusted_base'):
            if k not in c:
                out.append('coverage.%s missing' % k)
        if not violations and not undecided:
            if c.get('obligations', 0) < 1:
                out.append('zero obligations on a quiet run')
            if c.get('obligations') != c.get('discharged'):
                out.append('discharged (%s) != obligations (%s) on a quiet run' % (c.get('discharged'), c.get('obligations')))
        if not str(c.get('checker_cmd', '')).strip():
            out.append('empty checker_cmd')
    if not isinstance(c.get('samples'), list) or not c.get('samples'):
        if not undecided:
            out.append('no samples')
    return out


if __name__ == '__main__':
    main()
