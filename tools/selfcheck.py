#!/usr/bin/env python3
"""setup: verify the tools the checks need are present (offline), nothing is built ahead of time"""
import shutil, sys
missing = [t for t in ('cbmc', 'goto-cc', 'goto-instrument', 'z3-new', 'cvc5', 'gcc', 'g++') if not shutil.which(t)]
if missing:
    print("missing tools:", missing)
    sys.exit(1)
print("tools ok")
