#!/usr/bin/env python3
"""Mechanical C++-subset -> C extraction of dispenso functions (DESIGN.md section 2.2).

The body text of a function (or an anchored statement slice of it) is copied from /repo's current
working tree and passed through a fixed list of token rewrites.  Every application is logged;
a rule listed as must-fire that did not fire, an anchor that matches 0 or >1 times, or a C++-only
token left in the output raises ExtractionError (driver: exit 2, never a VIOLATION).
"""
import re, os, hashlib, json


class ExtractionError(Exception):
    pass


def strip_comments(text):
    """replace comments by spaces, keep newlines and string literals"""
    out = []
    i, n = 0, len(text)
    while i < n:
        c = text[i]
        if c == '"' or c == "'":
            j = i + 1
            while j < n and text[j] != c:
                j += 2 if text[j] == '\\' else 1
            out.append(text[i:j + 1])
            i = j + 1
        elif text.startswith('//', i):
            j = text.find('\n', i)
            j = n if j < 0 else j
            out.append(' ' * (j - i))
            i = j
        elif text.startswith('/*', i):
            j = text.find('*/', i + 2)
            j = n if j < 0 else j + 2
            out.append(''.join(ch if ch == '\n' else ' ' for ch in text[i:j]))
            i = j
        else:
            out.append(c)
            i += 1
    return ''.join(out)


def match_balanced(text, i, open_ch='(', close_ch=')'):
    """text[i] == open_ch; returns index just past the matching close"""
    assert text[i] == open_ch, (text[i:i + 20], open_ch)
    depth = 0
    j = i
    n = len(text)
    while j < n:
        c = text[j]
        if c == '"' or c == "'":
            k = j + 1
            while k < n and text[k] != c:
                k += 2 if text[k] == '\\' else 1
            j = k + 1
            continue
        if c == open_ch:
            depth += 1
        elif c == close_ch:
            depth -= 1
            if depth == 0:
                return j + 1
        j += 1
    raise ExtractionError("unbalanced %s at offset %d" % (open_ch, i))


class Piece:
    """an extracted piece of text with provenance"""

    def __init__(self, relpath, text, start_off, end_off, full):
        self.relpath, self.text = relpath, text
        self.line_start = full.count('\n', 0, start_off) + 1
        self.line_end = full.count('\n', 0, end_off) + 1
        self.sha = hashlib.sha256(text.encode()).hexdigest()[:16]
        self.rules = []        # (rule id, count)

    def prov(self):
        return dict(file=self.relpath, lines=[self.line_start, self.line_end], sha256_16=self.sha,
                    rules=[list(r) for r in self.rules])


class Repo:
    def __init__(self, root='/repo'):
        self.root = root
        self.cache = {}

    def text(self, relpath):
        if relpath not in self.cache:
            p = os.path.join(self.root, relpath)
            if not os.path.exists(p):
                raise ExtractionError("missing file " + relpath)
            self.cache[relpath] = strip_comments(open(p).read())
        return self.cache[relpath]

    def function(self, relpath, sig_regex, which=None, within=None, ctor=False):
        """locate `sig_regex` (must match exactly once unless which given), return Piece of the brace body.
        `within`: (start_regex) restrict the search to the brace block that follows the first match of it
        (e.g. a class body)."""
        full = self.text(relpath)
        lo, hi = 0, len(full)
        if within:
            m = re.search(within, full)
            if not m:
                raise ExtractionError("%s: scope anchor %r not found" % (relpath, within))
            b = full.find('{', m.end())
            lo, hi = b, match_balanced(full, b, '{', '}')
        ms = [m for m in re.finditer(sig_regex, full[lo:hi])]
        if which is None:
            if len(ms) != 1:
                raise ExtractionError("%s: signature %r matched %d times (need exactly 1)" % (relpath, sig_regex, len(ms)))
            m = ms[0]
        else:
            if len(ms) <= which:
                raise ExtractionError("%s: signature %r matched %d times (need > %d)" % (relpath, sig_regex, len(ms), which))
            m = ms[which]
        j = lo + m.end()
        # skip to the opening brace of the body (allow const / noexcept / member-initialisers are not supported)
        k = j
        while k < hi and full[k] != '{':
            if full[k] == ';':
                raise ExtractionError("%s: %r is a declaration, not a definition" % (relpath, sig_regex))
            k += 1
        between = full[j:k].strip()
        init_stmts = ''
        if between.startswith(':') and ctor:
            # constructor member-initialiser list  ": a(e1), b(e2)"  ->  "a = e1; b = e2;" at the start of the body.
            # the list may contain braces-free parenthesised expressions only; find the real body brace after it
            pos = j + full[j:].index(':') + 1
            inits = []
            while True:
                m = re.match(r'\s*(\w+)\s*(?=\()', full[pos:])
                if not m:
                    raise ExtractionError("%s: cannot parse member-initialiser list of %r" % (relpath, sig_regex))
                a = pos + m.end()
                b = match_balanced(full, a, '(', ')')
                inits.append((m.group(1), full[a + 1:b - 1]))
                pos = b
                m2 = re.match(r'\s*,', full[pos:])
                if m2:
                    pos += m2.end()
                    continue
                break
            k = full.index('{', pos)
            if full[pos:k].strip():
                raise ExtractionError("%s: unexpected text after member-initialiser list of %r" % (relpath, sig_regex))
            init_stmts = ' '.join('%s = %s;' % (n, e) for n, e in inits)
        elif between and not re.fullmatch(r'(const|noexcept|override|DISPENSO_\w+|\s)*', between):
            raise ExtractionError("%s: unexpected text %r between signature and body" % (relpath, between))
        end = match_balanced(full, k, '{', '}')
        p = Piece(relpath, full[k:end], k, end, full)
        if init_stmts:
            p.text = '{ /* member-initialisers */ ' + init_stmts + p.text[1:]
        return p

    def struct_fields(self, relpath, decl_regex):
        """return Piece with the brace body of `struct X {...}` located by decl_regex"""
        return self.function(relpath, decl_regex)


_KW = set("if while for switch return sizeof static_cast reinterpret_cast const_cast dynamic_cast new delete assert alignof decltype catch "
          "defined static_assert throw typeid noexcept alignas".split())


_CONST_TYPES = {'size_t': 'size_t', 'ssize_t': 'ssize_t', 'int': 'int', 'unsigned': 'unsigned', 'uint32_t': 'uint32_t', 'int32_t': 'int32_t',
                'uint64_t': 'uint64_t', 'int64_t': 'int64_t', 'uint16_t': 'uint16_t', 'uint8_t': 'uint8_t', 'long': 'long', 'bool': 'bool'}


def const_subs(repo, relpath, piece, known=()):
    """R4 (class constants): for every identifier of the piece spelled kName that the unit does not define itself (`known`), look for
    `constexpr <integer type> kName = <integer literal>;` in the same source file and substitute the typed literal.  Anything else
    (computed initialisers, other types) is left alone and surfaces as a compile error = undecided, never as a guess."""
    txt = repo.text(relpath)
    out = []
    for name in sorted(set(re.findall(r'(?<![\w.>:])k[A-Z][A-Za-z0-9_]*\b', piece.text))):
        if name in known:
            continue
        ms = list(re.finditer(r'constexpr\s+(?:const\s+)?([\w:]+)\s+' + name + r'\s*=\s*(\d+)[uUlL]*\s*;', txt))
        if len(ms) != 1:
            continue
        ty = ms[0].group(1).replace('std::', '')
        if ty not in _CONST_TYPES:
            continue
        out.append(('R4', r'(?<![\w.>:])' + name + r'\b', '((%s)%s)' % (_CONST_TYPES[ty], ms[0].group(2)), 'opt'))
    return out



def inline_helpers(repo, relpath, piece, within=None, exclude=(), depth=3):
    """R19: a call to a helper defined in the same scope (class body or file) that is not itself rendered by a rule is inlined
    textually, so that a refactoring which moves statements into a new private helper is still followed:
      `helper(a, b);`            as a statement, helper returns void without an early return -> `{ body[a/p1, b/p2] }`
      `helper(a, b)`             inside an expression, helper body is a single `return e;`   -> `(e[a/p1, b/p2])`
    Parameters are substituted by the (parenthesised) argument expressions, which is exact for reference/pointer/value
    parameters when the arguments have no side effects (checked: no ++, --, = or call in an argument)."""
    full = repo.text(relpath)
    lo, hi = 0, len(full)
    if within:
        m = re.search(within, full)
        if m:
            b = full.find('{', m.end())
            lo, hi = b, match_balanced(full, b, '{', '}')
    scope = full[lo:hi]
    excl = set(exclude) | _KW
    fired = 0
    for _ in range(depth):
        changed = False
        for m in list(re.finditer(r'(?<![\w.>:~])([A-Za-z_]\w*)\s*\(', piece.text)):
            name = m.group(1)
            if name in excl:
                continue
            defs = list(re.finditer(r'(?:^|[;{}])\s*(?:(?:static|inline|constexpr|DISPENSO_INLINE)\s+)*([\w:<>&*\s]+?)\s+' + re.escape(name) + r'\s*\(([^()]*)\)\s*(?:const\s*)?(?:noexcept\s*)?\{', scope))
            if len(defs) != 1:
                continue
            d = defs[0]
            if re.search(r'\b(return|else|new|delete|throw|case|goto|typedef|using|struct|class)\s*$', d.group(1).strip()):
                continue
            bstart = lo + d.end() - 1
            bend = match_balanced(full, bstart, '{', '}')
            body = full[bstart + 1:bend - 1]
            params = []
            ptxt = d.group(2).strip()
            ok = True
            if ptxt and ptxt != 'void':
                for prm in split_args(ptxt):
                    pm = re.search(r'([A-Za-z_]\w*)\s*$', prm)
                    if not pm or '=' in prm:
                        ok = False
                        break
                    params.append(pm.group(1))
            if not ok:
                continue
            astart = m.end() - 1
            aend = match_balanced(piece.text, astart, '(', ')')
            args = split_args(piece.text[astart + 1:aend - 1])
            if len(args) != len(params) or any(re.search(r'\+\+|--|(?<![=!<>])=(?!=)|\w\s*\(', a) for a in args):
                continue
            def subst(text):
                for pn, a in zip(params, args):
                    rep = a if re.fullmatch(r'[A-Za-z_]\w*(?:(?:\.|->)[A-Za-z_]\w*)*', a) else '(' + a + ')'
                    text = re.sub(r'(?<![\w.>])' + re.escape(pn) + r'\b', lambda _m, rep=rep: rep, text)
                return text
            is_void = re.search(r'\bvoid\s*$', d.group(1).strip()) is not None
            before = piece.text[:m.start()].rstrip()
            after = re.match(r'\s*;', piece.text[aend:])
            single_ret = re.fullmatch(r'\s*return\s+([^;]*);\s*', body, re.S)
            if is_void and after and (not before or before[-1] in ';{})') and not re.search(r'\breturn\b', body):
                piece.text = piece.text[:m.start()] + '{ /* R19 inlined ' + name + ' */ ' + subst(body) + ' }' + piece.text[aend + after.end():]
            elif single_ret and not is_void:
                piece.text = piece.text[:m.start()] + '(/* R19 inlined ' + name + ' */ ' + subst(single_ret.group(1)) + ')' + piece.text[aend:]
            else:
                continue
            fired += 1
            changed = True
            break
        if not changed:
            break
    if fired:
        piece.rules = list(getattr(piece, 'rules', [])) + [('R19', fired)]
        piece.pre_rules = [('R19', fired)]
    return fired


def slice_between(piece, start_regex, end_regex, include_start=True, include_end=False):
    """statements of piece.text from the (unique) match of start_regex up to the (unique, first after start)
    match of end_regex"""
    t = piece.text
    ms = list(re.finditer(start_regex, t))
    if len(ms) != 1:
        raise ExtractionError("%s: slice start %r matched %d times" % (piece.relpath, start_regex, len(ms)))
    a = ms[0].start() if include_start else ms[0].end()
    me = list(re.finditer(end_regex, t[ms[0].end():]))
    if len(me) < 1:
        raise ExtractionError("%s: slice end %r not found after start" % (piece.relpath, end_regex))
    b = ms[0].end() + (me[0].end() if include_end else me[0].start())
    p = Piece.__new__(Piece)
    p.relpath = piece.relpath
    p.text = t[a:b]
    p.line_start = piece.line_start + t.count('\n', 0, a)
    p.line_end = piece.line_start + t.count('\n', 0, b)
    p.sha = hashlib.sha256(p.text.encode()).hexdigest()[:16]
    p.rules = []
    return p


# ------------------------------------------------------------------ rewrite rules
def _rewrite_call_like(text, head_regex, fn):
    """find head_regex followed by a balanced (...) and replace head+(args) by fn(match, args)"""
    out = []
    pos = 0
    count = 0
    while True:
        m = re.search(head_regex, text[pos:])
        if not m:
            break
        s = pos + m.start()
        e = pos + m.end()
        if e >= len(text) or text[e] not in '({':
            out.append(text[pos:e])
            pos = e
            continue
        close = match_balanced(text, e, text[e], ')' if text[e] == '(' else '}')
        args = text[e + 1:close - 1]
        out.append(text[pos:s])
        out.append(fn(m, args))
        pos = close
        count += 1
    out.append(text[pos:])
    return ''.join(out), count


def split_args(s):
    args, depth, cur = [], 0, []
    for ch in s:
        if ch in '([{<' and not (ch == '<'):
            depth += 1
        elif ch in ')]}':
            depth -= 1
        if ch == ',' and depth == 0:
            args.append(''.join(cur).strip())
            cur = []
        else:
            cur.append(ch)
    if ''.join(cur).strip():
        args.append(''.join(cur).strip())
    return args


def ctype_name(t, typemap):
    t = re.sub(r'\s+', ' ', t.strip())
    t = re.sub(r'^typename ', '', t)
    t = re.sub(r'^(std|detail|dispenso)::', '', t)
    if t in typemap:
        return typemap[t]
    if re.fullmatch(r'(u?int(8|16|32|64)_t|s?size_t|bool|ptrdiff_t|uintptr_t|char|int|unsigned|long|IntegerT|size_type|U|WideT|Wide)( ?\*)?', t):
        return t
    raise ExtractionError("cast to unknown type %r (add it to the unit's typemap)" % t)


def apply_rules(piece, typemap=None, subs=(), must_fire=(), drop=(), keep_this=False, ret_struct=None):
    """apply the generic rules R2,R3,R5,R6,R16 and the per-unit substitutions `subs`
    (rule id, regex, replacement[, expected count]).  Returns the C text."""
    typemap = typemap or {}
    t = piece.text
    fired = {}

    def note(rule, n):
        if n:
            fired[rule] = fired.get(rule, 0) + n

    # per-unit substitutions first (they see the original text)
    for sub in subs:
        rule, pat, rep = sub[0], sub[1], sub[2]
        if isinstance(pat, tuple) and pat[0] == 'call':
            # pattern (ending just before '(') followed by a balanced (...) and an optional ';': the whole statement is replaced
            n = 0
            while True:
                m = re.search(pat[1], t)
                if not m:
                    break
                b = t.index('(', m.end() - 1)
                e = match_balanced(t, b, '(', ')')
                m2 = re.match(r'\s*;', t[e:])
                if m2:
                    e += m2.end()
                t = t[:m.start()] + rep + t[e:]
                n += 1
                if n > 50:
                    raise ExtractionError("call substitution does not terminate")
        elif isinstance(pat, tuple) and pat[0] == 'block':
            # pattern followed by a balanced {...} block: the whole statement is replaced
            n = 0
            while True:
                m = re.search(pat[1], t)
                if not m:
                    break
                b = t.find('{', m.end() - 1) if t[m.end() - 1] != '{' else m.end() - 1
                e = match_balanced(t, b, '{', '}')
                t = t[:m.start()] + (rep(m) if callable(rep) else rep) + t[e:]
                n += 1
                if n > 50:
                    raise ExtractionError("block substitution does not terminate")
        else:
            t, n = re.subn(pat, rep, t)
        want = sub[3] if len(sub) > 3 else None
        if want == 'opt':
            note(rule, n)
            continue
        if n == 0 or (want is not None and n != want):
            raise ExtractionError("%s:%d: substitution %s %r fired %d times (expected %s)" % (
                piece.relpath, piece.line_start, rule, pat, n, want if want is not None else '>=1'))
        note(rule, n)

    # R10 braced return of an aggregate -> compound literal of the unit's declared return struct
    if ret_struct:
        t, n = re.subn(r'\breturn\s*\{', 'return (%s){' % ret_struct, t)
        note('R10', n)
    # R16 namespace prefixes
    t, n = re.subn(r'(?<![\w:])(?:::)?(?:dispenso::)?detail::', '', t)
    note('R16', n)
    t, n = re.subn(r'\bnullptr\b', '((void*)0)', t)
    note('R2', n)
    # R4 std::numeric_limits<T>::max()/min()/lowest() of the fixed-width integer types: the value the standard defines
    def numlim(m):
        tname, which = re.sub(r'\s+', '', m.group(1)), m.group(2)
        tname = re.sub(r'^std::', '', tname)
        widths = {'int8_t': (8, 1), 'uint8_t': (8, 0), 'int16_t': (16, 1), 'uint16_t': (16, 0), 'int32_t': (32, 1), 'uint32_t': (32, 0), 'int64_t': (64, 1),
                  'uint64_t': (64, 0), 'size_t': (64, 0), 'ssize_t': (64, 1), 'ptrdiff_t': (64, 1), 'intptr_t': (64, 1), 'uintptr_t': (64, 0), 'int': (32, 1), 'unsigned': (32, 0)}
        if tname not in widths:
            raise ExtractionError("std::numeric_limits of unknown type %r" % tname)
        bits, sg = widths[tname]
        if which == 'max':
            v = (1 << (bits - sg)) - 1
            lit = '%d%s' % (v, 'u' if not sg else '')
        else:
            lit = '0' if not sg else '(-%d - 1)' % ((1 << (bits - 1)) - 1)
        return '((%s)(%s))' % (tname, lit)
    t, n = re.subn(r'std::numeric_limits\s*<\s*([\w:\s]+?)\s*>\s*::\s*(max|min|lowest)\s*\(\s*\)', numlim, t)
    note('R4', n)
    # R2 casts
    for kw in ('static_cast', 'reinterpret_cast', 'const_cast'):
        def cast_fn(m, args, kw=kw):
            return '((%s)(%s))' % (ctype_name(m.group(1), typemap), args)
        while True:
            t2, n = _rewrite_call_like(t, kw + r'\s*<([^<>]*(?:<[^<>]*>[^<>]*)*)>\s*(?=\()', cast_fn)
            note('R2', n)
            if n == 0:
                break
            t = t2
    # R2b functional casts  T{e} / T(e) for known arithmetic type names
    tn = r'(?<![\w.>])(u?int(?:8|16|32|64)_t|s?size_t|IntegerT|size_type|ssize_t|U|WideT|Wide)'
    def fcast(m, args):
        return '((%s)(%s))' % (ctype_name(m.group(1), typemap), args)
    while True:
        t2, n = _rewrite_call_like(t, tn + r'(?=[{(])', fcast)
        note('R2', n)
        if n == 0:
            break
        t = t2
    # R3 std::min/max with explicit type
    def mm(m, args):
        a = split_args(args)
        if len(a) != 2:
            raise ExtractionError("std::%s with %d args" % (m.group(1), len(a)))
        return '%s_%s(%s, %s)' % (m.group(1).upper(), ctype_name(m.group(2), typemap), a[0], a[1])
    while True:
        t2, n = _rewrite_call_like(t, r'std::(min|max)\s*<\s*([\w: ]+?)\s*>\s*(?=\()', mm)
        note('R3', n)
        if n == 0:
            break
        t = t2
    # R5 hints / keywords without run-time meaning
    for pat in (r'\bDISPENSO_INLINE\b', r'\bconstexpr\b', r'\bnoexcept\b', r'\binline\b',
                r'\bDISPENSO_NO_THREAD_SAFETY_ANALYSIS\b', r'\bDISPENSO_TSAN_\w+\([^;]*\);', r'\btypename\b'):
        t, n = re.subn(pat, '', t)
        note('R5', n)
    t, n = _rewrite_call_like(t, r'\bDISPENSO_EXPECT\s*(?=\()', lambda m, a: '(%s)' % split_args(a)[0])
    note('R5', n)
    # R6 asserts become obligations
    cnt = [0]
    def asrt(m, args):
        cnt[0] += 1
        msg = re.sub(r'\s+', ' ', args).replace('"', "'")
        return '__CPROVER_assert(%s, "repo-assert: %s")' % (args, msg)
    t, n = _rewrite_call_like(t, r'(?<![\w.])assert\s*(?=\()', asrt)
    note('R6', n)
    # R12 std::move / std::forward are value copies in the C rendering
    t, n = _rewrite_call_like(t, r'std::(?:move|forward\s*<[^<>]*>)\s*(?=\()', lambda m, a: '(%s)' % a)
    note('R12', n)
    for d in drop:
        t, n = re.subn(d, '', t)
        if n == 0:
            raise ExtractionError("%s: drop pattern %r did not fire" % (piece.relpath, d))
        note('R5', n)
    for r in must_fire:
        if r not in fired:
            raise ExtractionError("%s:%d: must-fire rule %s did not fire" % (piece.relpath, piece.line_start, r))
    # residual C++-only tokens
    t_chk = strip_comments(re.sub(r'"(?:[^"\\]|\\.)*"', '""', t))   # residual check ignores comments and string literals
    resid = re.search(r'::|\btemplate\b|\bauto\b|\bnew\b|\bdelete\b|\bthrow\b|\btry\b|\bcatch\b|\bstd\b|(?<![\w\)\]])\[[^\[\]]*\]\s*[\(\{]|\busing\b|\bthis\b' if not keep_this else
                      r'::|\btemplate\b|\bauto\b|\bnew\b|\bdelete\b|\bthrow\b|\btry\b|\bcatch\b|\bstd\b|(?<![\w\)\]])\[[^\[\]]*\]\s*[\(\{]|\busing\b', t_chk)
    if resid:
        ln = piece.line_start + t_chk.count('\n', 0, resid.start())
        raise ExtractionError("%s:~%d: C++-only token %r left after rewriting" % (piece.relpath, ln, resid.group()))
    piece.rules = sorted(fired.items()) + list(getattr(piece, 'pre_rules', []))
    return t


def write_piece(gen_dir, name, ctext, piece, log):
    os.makedirs(gen_dir, exist_ok=True)
    path = os.path.join(gen_dir, name)
    with open(path, 'w') as f:
        f.write("/* extracted from %s:%d-%d sha256/16=%s  rules=%s */\n" % (
            piece.relpath, piece.line_start, piece.line_end, piece.sha, piece.rules))
        f.write(ctext)
        f.write("\n")
    d = piece.prov()
    d['out'] = name
    log.append(d)
    return path
