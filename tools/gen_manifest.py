#!/usr/bin/env python3
"""regenerate MANIFEST.json from props/registry.py (claimed checks) + not-applicable reasons"""
import json, os, sys, importlib.util
VERIF = os.path.dirname(os.path.dirname(os.path.abspath(__file__)))
spec = importlib.util.spec_from_file_location('registry', os.path.join(VERIF, 'props', 'registry.py'))
reg = importlib.util.module_from_spec(spec)
spec.loader.exec_module(reg)
props = [json.loads(l)['id'] for l in open(os.path.join(VERIF, 'properties.jsonl'))]
checks = []
for pid in props:
    if pid in reg.CLAIMED:
        c = reg.CLAIMED[pid]
        assert os.path.exists(os.path.join(VERIF, 'props', pid.lower() + '.py')), pid
        checks.append(dict(
            property_id=pid, quick_cmd="./check %s --tier quick" % pid, thorough_cmd="./check %s --tier thorough" % pid,
            evidence_file="/verif/evidence/%s.json" % pid, replay_cmd_template="cat {path}",
            engine="contracts", level_claimed=dict(category=c.get('category', 'proof'), text=c['text'], design_ref=c.get('design_ref', 'DESIGN.md section 5')),
            level_note=c['note'], technique=c['technique']))
na = [dict(property_id=pid, reason=reg.NOT_APPLICABLE[pid]) for pid in props if pid not in reg.CLAIMED]
m = dict(version=1, setup_cmd="python3 tools/selfcheck.py", hooks=dict(
    guard="DISPENSO_VERIF", enable="none needed: contracts live in /verif/specs and are spliced into code extracted from /repo's working tree at check time; no hook commit exists in /repo",
    baseline_off_cmd="cmake --build /repo/_build -j16 && ctest --test-dir /repo/_build -j8 --timeout 900", source_commits=list(getattr(reg, 'SOURCE_COMMITS', [])), add_only=True),
    engines=[dict(name="contracts", path="/verif/tools/driver.py", serves_properties=sorted(reg.CLAIMED),
                  kind_free_text="contract-based deductive verification of code extracted mechanically from /repo on every run: CBMC 6.11 DFCC (function + loop contracts, cadical) and, for nonlinear 64-bit integer arithmetic that no installed bit-level back end decides, tools/intwp.py (VC generator over Int with exact wrap semantics, z3-new/cvc5) reading the same CBMC-syntax contracts")],
    checks=checks, not_applicable=na, notes=reg.NOTES)
json.dump(m, open(os.path.join(VERIF, 'MANIFEST.json'), 'w'), indent=1)
print("MANIFEST.json: %d checks, %d not applicable" % (len(checks), len(na)))
