#!/usr/bin/env python3
"""re-validate every record under /verif/evidence against the level rules of EVIDENCE.schema.json and MANIFEST.json
(uses jsonschema when the interpreter has it, e.g. python3-vt; the structural rules below need nothing)"""
import json, glob, os, sys
HERE = os.path.dirname(os.path.abspath(__file__))
VERIF = os.path.dirname(HERE)
sys.path.insert(0, HERE)
from driver import evidence_problems
man = json.load(open(os.path.join(VERIF, 'MANIFEST.json')))
level = {c['property_id']: c['level_claimed']['category'] for c in man['checks']}
try:
    import jsonschema
    schema = json.load(open('/root/.vp/EVIDENCE.schema.json'))
except Exception:
    jsonschema = None
bad = 0
seen = set()
for f in sorted(glob.glob(os.path.join(VERIF, 'evidence', 'C*.json'))):
    e = json.load(open(f))
    pid = e.get('property_id')
    seen.add(pid)
    c = e.get('coverage', {})
    probs = evidence_problems(e, e.get('violations', 0), c.get('undecided', []))
    if e.get('violations', 0) or c.get('undecided'):
        probs.append('record of a non-quiet run (violations=%s undecided=%s)' % (e.get('violations'), len(c.get('undecided', []))))
    if level.get(pid) != e.get('level'):
        probs.append('level %s differs from MANIFEST level %s' % (e.get('level'), level.get(pid)))
    if os.path.basename(f) != '%s.json' % pid:
        probs.append('file name does not match property_id')
    if jsonschema:
        try:
            jsonschema.validate(e, schema)
        except Exception as ex:
            probs.append('schema: %s' % str(ex).split('\n')[0])
    print('%-4s %-6s obligations=%-6s discharged=%-6s %s' % (pid, e.get('tier'), c.get('obligations'), c.get('discharged'), 'OK' if not probs else 'PROBLEM: ' + '; '.join(probs)))
    bad += bool(probs)
for pid in sorted(set(level) - seen):
    print('%-4s no evidence file' % pid)
    bad += 1
sys.exit(1 if bad else 0)
