#!/bin/bash
# try_seed.sh <patch.diff> <Cxx> [check args...] : run a check against a scratch worktree of /repo HEAD with the patch applied
# (VERIF_REPO => the run writes evidence/partial/, never the canonical record).  The worktree is reset afterwards.
set -u
patch=$(readlink -f "$1"); prop=$2; shift 2
wt=/tmp/wt-try-$$
git -C /repo worktree add --detach $wt HEAD >/dev/null 2>&1 || { echo "cannot create worktree"; exit 2; }
git -C $wt apply "$patch" || { echo "patch does not apply"; git -C /repo worktree remove --force $wt; exit 2; }
cd /verif && VERIF_REPO=$wt ./check $prop "$@"; rc=$?
git -C /repo worktree remove --force $wt
echo "try_seed exit=$rc"
exit $rc
