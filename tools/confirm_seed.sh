#!/bin/bash
# confirm_seed.sh <worktree> <patchfile> <demo.cpp> <seed-id> <Cxx> : confirm a seeded change myself in a scratch worktree:
#   clean tree + patch -> builds, test-suite compared with BASELINE stable_pass, demo fails; clean tree -> demo passes.
# (no git stash: the stash is shared between worktrees)
set -u
wt=$1; patch=$2; demo=$3; sid=$4; prop=$5; out=/verif/seeded/$sid; work=/tmp/confirm-$sid; mkdir -p $out $work
cp $patch $work/patch.diff; cp $demo $work/demo.cpp
cd $wt || exit 2
git checkout -q -- dispenso && git apply $work/patch.diff || { echo "patch does not apply to the pinned tree"; exit 2; }
[ -d _build ] || cmake -G Ninja -S . -B _build -DCMAKE_BUILD_TYPE=RelWithDebInfo -DDISPENSO_BUILD_TESTS=ON -DFETCHCONTENT_SOURCE_DIR_GOOGLETEST=/usr/src/googletest -DFETCHCONTENT_TRY_FIND_PACKAGE_MODE=ALWAYS -DFETCHCONTENT_UPDATES_DISCONNECTED=ON > $work/cfg.log 2>&1
cmake --build _build -j12 > $work/build.log 2>&1 || { echo "build failed"; tail -5 $work/build.log; exit 1; }
ctest --test-dir _build -j6 --timeout 900 --output-junit $work/junit.xml > $work/ctest.log 2>&1
grep "tests passed" $work/ctest.log
python3 - $work/junit.xml <<'PY' > $work/suite.txt
import sys, json, xml.etree.ElementTree as ET
stable = set(s.split('::')[0].strip() for s in json.load(open('/root/.vp/BASELINE.json'))['stable_pass'])
root = ET.parse(sys.argv[1]).getroot()
failed = [tc.get('name') for tc in root.iter('testcase') if tc.find('failure') is not None or tc.get('status', '') in ('fail', 'failed')]
envfail = {'CpuSet.L2GroupsAreNonEmpty', 'CpuSet.L3GroupsAreNonEmpty'}   # fail on the unchanged tree in this sandbox (no cache topology exposed)
bad = [f for f in failed if f in stable and f not in envfail and not f.startswith('TimedTaskTest.') and not f.startswith('Priorty.')]
print("failed tests:", sorted(failed))
print("stable_pass tests failing (excluding sandbox-environment CpuSet topology tests and load-sensitive TimedTask/Priority timing tests):", bad)
PY
cat $work/suite.txt
build_demo() { g++ -std=c++17 -O1 -I $wt -I $wt/dispenso/third-party $work/demo.cpp $wt/dispenso/*.cpp $wt/dispenso/detail/*.cpp -lpthread -o $1 2> $work/demo_build.log; }
build_demo $work/demo_changed; $work/demo_changed > $work/demo_changed.out 2>&1; r1=$?; echo "demo with change: exit $r1"
git checkout -q -- dispenso
build_demo $work/demo_base; $work/demo_base > $work/demo_base.out 2>&1; r2=$?; echo "demo without change: exit $r2"
cp $work/patch.diff $out/patch.diff; cp $work/demo.cpp $out/demo.cpp
python3 - <<PY
import json
json.dump(dict(seed_id="$sid", property="$prop", demo_exit_with_change=$r1, demo_exit_without_change=$r2,
  suite=open("$work/suite.txt").read().strip().split("\n"), suite_summary=[l.strip() for l in open("$work/ctest.log") if "tests passed" in l],
  demo_with_change_tail=open("$work/demo_changed.out").read()[-600:], demo_without_change_tail=open("$work/demo_base.out").read()[-300:],
  ran=["git apply patch.diff on a clean worktree of the pinned commit", "cmake --build _build -j12", "ctest --test-dir _build -j6 --timeout 900",
       "g++ -std=c++17 -O1 demo.cpp dispenso/*.cpp dispenso/detail/*.cpp && ./demo (with change, then on the clean tree)"]), open("$out/meta.json","w"), indent=1)
PY
