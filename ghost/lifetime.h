/* R12: object lifetimes as ghost state (DESIGN 2.3).  The element type T is abstracted to an int tag (`T_tag`): copying and
 * moving are value copies of the tag, so throwing or self-referential element types are outside these proofs.
 * A storage cell is { T_tag value; bool live; bool moved_from; }.  Constructing into a live cell, destroying a dead cell,
 * reading a dead cell are assertion failures ("constructed / destroyed exactly once, never used outside its lifetime"). */
#ifndef VERIF_LIFETIME_H
#define VERIF_LIFETIME_H
typedef int T_tag;
typedef struct T_cell { T_tag value; int live; int moved_from; } T_cell;   /* live, moved_from are 0/1 */
extern unsigned g_T_constructed, g_T_destroyed;
static inline T_cell* T_construct_at(T_cell* c, T_tag v) {
  __CPROVER_assert(!c->live, "placement-new into storage that holds no live object");
  c->value = v; c->live = 1; c->moved_from = 0; g_T_constructed++;
  return c;
}
static inline void T_destroy_at(T_cell* c) {
  __CPROVER_assert(c->live, "destructor runs on a live object (no double destroy)");
  c->live = 0; g_T_destroyed++;
}
static inline T_tag T_read(const T_cell* c) {
  __CPROVER_assert(c->live, "object is read inside its lifetime");
  return c->value;
}
static inline T_tag T_move_from(T_cell* c) {   /* std::move(x) used as a constructor/assignment source: x stays alive, moved-from */
  __CPROVER_assert(c->live, "object is moved from inside its lifetime");
  c->moved_from = 1;
  return c->value;
}
#endif
