/* R7: std::atomic operations rendered as macros over plain variables, sequentially consistent (assumption A-SC).
 * Each macro first calls VERIF_INTERFERE() -- a point where other threads may act (defined by the spec of a unit that
 * verifies under a rely condition; empty for sequential local-protocol units) -- and records the memory order so that
 * ownership-transfer rules can be asserted by the spec. */
#ifndef VERIF_ATOMICS_H
#define VERIF_ATOMICS_H
#define MO_relaxed 0
#define MO_consume 1
#define MO_acquire 2
#define MO_release 3
#define MO_acq_rel 4
#define MO_seq_cst 5
#define MO_HAS_ACQUIRE(mo) ((mo) == MO_acquire || (mo) == MO_acq_rel || (mo) == MO_seq_cst || (mo) == MO_consume)
#define MO_HAS_RELEASE(mo) ((mo) == MO_release || (mo) == MO_acq_rel || (mo) == MO_seq_cst)
#ifndef VERIF_INTERFERE
#define VERIF_INTERFERE() ((void)0)
#endif
extern int g_last_mo;                 /* memory order of the last atomic operation of this thread */
#define A_NOTE(mo) (g_last_mo = (mo))
#endif
