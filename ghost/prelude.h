/* common prelude for specs: one contract text, two back ends.
 *   -DVERIF_CBMC  : goto-cc / CBMC (bit-precise).  mathint is __int128 (exact for products of 64-bit operands).
 *   -DVERIF_INTWP : intwp (tools/intwp.py) knows the fixed-width types natively; mathint is unbounded.
 *   neither       : native compilation (translation validation): contract clauses expand to nothing.
 */
#ifndef VERIF_PRELUDE_H
#define VERIF_PRELUDE_H
#if defined(VERIF_CBMC)
#include <stdint.h>
#include <stddef.h>
#include <stdbool.h>
#include <sys/types.h>
typedef __int128 mathint;
#elif defined(VERIF_INTWP)
/* built-in */
#else
#include <stdint.h>
#include <stddef.h>
#include <stdbool.h>
#include <sys/types.h>
typedef __int128 mathint;
#define __CPROVER_requires(x)
#define __CPROVER_ensures(x)
#define __CPROVER_assigns(...)
#define __CPROVER_loop_invariant(x)
#define __CPROVER_decreases(x)
#define __CPROVER_assert(c, m) ((void)0)
#define __CPROVER_assume(c) ((void)0)
#endif
/* R3: std::min<T>/std::max<T> are rendered as MIN_T / MAX_T */
#define DEF_MINMAX(T) static T MIN_##T(T a, T b) { return b < a ? b : a; } static T MAX_##T(T a, T b) { return a < b ? b : a; }
#define I64_MAX 9223372036854775807
#define I64_MIN (-9223372036854775807 - 1)
#define U64_MAX 18446744073709551615u
#endif
