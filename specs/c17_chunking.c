/* C17: dispenso::detail::staticChunkSize / staticChunkSizeGranular (dispenso/platform.h) verified against the
 * contracts in c17_chunking_decls.h.  Bodies are #included from the per-run extraction (gen/). */
#include "prelude.h"
#define C17_DEFINE_BODIES
#include "c17_chunking_decls.h"

StaticChunking staticChunkSize(ssize_t items, ssize_t chunks)
CONTRACT_staticChunkSize
#include "staticChunkSize.body.inc"

StaticChunking staticChunkSizeGranular(ssize_t items, ssize_t chunks, uint32_t granularity)
CONTRACT_staticChunkSizeGranular
#include "staticChunkSizeGranular.body.inc"

#ifdef VERIF_CBMC
void h_staticChunkSize(void) { ssize_t items, chunks; staticChunkSize(items, chunks); }
void h_staticChunkSizeGranular(void) { ssize_t items, chunks; uint32_t g; staticChunkSizeGranular(items, chunks, g); }
#endif
