/* C17: contracts for dispenso::detail::staticChunkSize / staticChunkSizeGranular (dispenso/platform.h).
 * Bodies are #included from the per-run extraction (gen/). Top-level postconditions are the property
 * statement: with T = transitionTaskIndex and C = ceilChunkSize, chunks [0,T) have C items and chunks
 * [T,chunks) have C-unit items (unit = 1, or the granularity); "cover every item exactly once" is
 * T*C + (chunks-T)*(C-unit) == items over mathematical integers; "larger first / differ by at most one
 * unit" is the shape (C before C-unit) together with 1 <= T <= chunks and C-unit >= 0 when it is used. */
#include "prelude.h"

typedef struct StaticChunking
#include "StaticChunking.fields.inc"
StaticChunking;

#define RV __CPROVER_return_value

StaticChunking staticChunkSize(ssize_t items, ssize_t chunks)
__CPROVER_requires(chunks >= 1 && items >= 0 && items <= I64_MAX - chunks)
#ifdef KF_EXCLUDE
__CPROVER_requires(!(KF_EXCLUDE))
#endif
__CPROVER_ensures(1 <= RV.transitionTaskIndex && RV.transitionTaskIndex <= chunks)
__CPROVER_ensures(RV.ceilChunkSize >= 0 && RV.ceilChunkSize <= items)
__CPROVER_ensures(RV.transitionTaskIndex < chunks ==> RV.ceilChunkSize >= 1)
__CPROVER_ensures(items > 0 ==> RV.ceilChunkSize >= 1)
/* cover exactly once (mathematical integers) */
__CPROVER_ensures((mathint)RV.transitionTaskIndex * RV.ceilChunkSize +
                  ((mathint)chunks - RV.transitionTaskIndex) * ((mathint)RV.ceilChunkSize - 1) == items)
__CPROVER_assigns()
#include "staticChunkSize.body.inc"

#ifndef SKIP_GRANULAR
StaticChunking staticChunkSizeGranular(ssize_t items, ssize_t chunks, uint32_t granularity)
__CPROVER_requires(chunks >= 1 && granularity >= 1 && items >= 0)
__CPROVER_requires(items % (ssize_t)granularity == 0)
__CPROVER_requires(items / (ssize_t)granularity <= I64_MAX - chunks)
#ifdef KF_EXCLUDE
__CPROVER_requires(!(KF_EXCLUDE))
#endif
__CPROVER_ensures(1 <= RV.transitionTaskIndex && RV.transitionTaskIndex <= chunks)
__CPROVER_ensures(RV.ceilChunkSize >= 0 && RV.ceilChunkSize <= items)
__CPROVER_ensures(RV.ceilChunkSize % (ssize_t)granularity == 0)
__CPROVER_ensures(RV.transitionTaskIndex < chunks ==> RV.ceilChunkSize >= (ssize_t)granularity)
__CPROVER_ensures(items > 0 ==> RV.ceilChunkSize >= (ssize_t)granularity)
__CPROVER_ensures((mathint)RV.transitionTaskIndex * RV.ceilChunkSize +
                  ((mathint)chunks - RV.transitionTaskIndex) * ((mathint)RV.ceilChunkSize - (mathint)granularity) == items)
__CPROVER_assigns()
#include "staticChunkSizeGranular.body.inc"
#endif

#ifdef VERIF_CBMC
void h_staticChunkSize(void) { ssize_t items, chunks; staticChunkSize(items, chunks); }
#ifndef SKIP_GRANULAR
void h_staticChunkSizeGranular(void) { ssize_t items, chunks; uint32_t g; staticChunkSizeGranular(items, chunks, g); }
#endif
#endif
