/* C36: ChaseLevDeque<T, Capacity> (dispenso/chase_lev_deque.h), one owner (push/pop at bottom_) and any number of thieves (steal at top_),
 * under rely/guarantee with sequentially consistent atomics (A-SC).  -DKCAP=<Capacity> (a power of two).
 *
 * State: top_ <= bottom_ + 1 (the owner's pop lowers bottom_ before it looks at top_), bottom_ - top_ <= Capacity; the elements are the
 * positions [top_, bottom_).  Ghosts:
 *   g_bsince  the largest bottom_ value published since top_ last changed (>= bottom_): a thief may still act on a bottom_ value it read before
 *             the owner lowered it, but only to take the position that has been top_ ever since;
 *   g_elem    the element currently stored at position top_ is in place (it stays put while top_ does not change: the owner removes the
 *             element at top_ only through the CAS on top_, and overwrites its slot only a whole lap later).
 * OWNER units (g_role == 1): before every atomic access thieves may advance top_:  top' == top, or (g_bsince > top and (top' == top + 1 or
 *   top' <= bottom_)); slots and bottom_ are untouched.  The owner's stores to bottom_ raise g_bsince; a change of top_ resets it to bottom_.
 * THIEF units (g_role == 2): before every atomic access the owner may push/pop (bottom_ moves inside top_-1 .. top_+Capacity; an empty position
 *   top_ may be filled) and anybody may advance top_ under the same rule; while top_ does not change an element in place at top_ stays in place.
 * Closure (what makes the owner's rely true of the thieves' code): a thief's successful CAS top_: t -> t+1 asserts g_bsince > t.
 * Memory-order discipline checked: the seq_cst fence between the owner's store to bottom_ and its load of top_ in both pops, and between a
 * thief's loads of top_ and bottom_; the publishing store of bottom_ in push is release; the CASes on top_ are seq_cst.
 * Not decided: anything that is only wrong under weaker-than-SC hardware orderings beyond that discipline. */
#include "prelude.h"
#include "atomics.h"
#define RV __CPROVER_return_value
typedef int T_tag;
int g_last_mo;
#define Capacity ((int64_t)KCAP)
#define kMask ((size_t)(KCAP - 1))
typedef struct Deq { int64_t top_; int64_t bottom_; T_tag slots[KCAP]; } Deq;
Deq* g_deq; int g_role;     /* 1 owner, 2 thief, 0 quiescent */
int64_t g_bsince; bool g_elem; T_tag g_elem_val;
bool g_bad_order, g_fence_sc, g_need_fence;
int g_taken; int64_t g_taken_pos; T_tag g_taken_val; bool g_by_cas;
_Bool nondet_bool(void); int64_t nondet_i64(void); int nondet_int(void);
#define POSB (((int64_t)1) << 60)
#define WF(d) ((d)->top_ >= 0 && (d)->top_ < POSB && (d)->bottom_ >= (d)->top_ - 1 && (d)->bottom_ - (d)->top_ <= Capacity && g_bsince >= (d)->bottom_ && g_bsince <= (d)->top_ + Capacity && \
               /* if bottom_ has been above top_ since top_ took its value, the element at top_ is still there (it leaves only through the CAS on top_) */ \
               (g_bsince > (d)->top_ ? (d)->bottom_ >= (d)->top_ : 1) && \
               ((g_role == 2 && (d)->bottom_ > (d)->top_) ? (g_elem && (d)->slots[((size_t)(d)->top_) & kMask] == g_elem_val) : 1))   /* (the owner reads its own slots: stable for it) */

static void thieves_act(Deq* d) {               /* any number of steals by other thieves */
  int64_t t = nondet_i64();
  __CPROVER_assume(t >= d->top_ && (t == d->top_ || (g_bsince > d->top_ && (t == d->top_ + 1 || t <= d->bottom_))));
  if (t != d->top_) { d->top_ = t; g_bsince = d->bottom_; g_elem = (d->bottom_ > t); g_elem_val = d->slots[((size_t)t) & kMask]; }
}
static void owner_acts(Deq* d) {                /* pushes and pops by the owner, as far as its own contracts allow */
  int64_t b = nondet_i64();
  __CPROVER_assume(b >= d->top_ - 1 && b - d->top_ <= Capacity);
  if (b > d->bottom_) {                         /* pushes: positions >= old bottom_ get new values; an element in place at top_ is not touched */
    for (size_t j = 0; j < KCAP; ++j) { bool keep = g_elem && j == (((size_t)d->top_) & kMask); if (!keep) d->slots[j] = nondet_int(); }
    if (!g_elem && b > d->top_) { g_elem = 1; g_elem_val = d->slots[((size_t)d->top_) & kMask]; }
    if (b > g_bsince) g_bsince = b;
  }
  /* pops above top_ only lower bottom_ (the element at top_ itself goes through the CAS on top_: covered by thieves_act) */
  d->bottom_ = b;
}
static void interfere(void) {
  Deq* d = g_deq;
  if (g_role == 1) thieves_act(d);
  else if (g_role == 2) { owner_acts(d); thieves_act(d); if (d->bottom_ > d->top_ && !g_elem) { g_elem = 1; g_elem_val = d->slots[((size_t)d->top_) & kMask]; } __CPROVER_assume(WF(d)); }
}
static int64_t A_LOAD_top(Deq* self, int mo) { interfere(); A_NOTE(mo);
  if (g_role == 1 && g_need_fence && !g_fence_sc && mo != MO_seq_cst) g_bad_order = 1;   /* owner pop: store bottom_; seq_cst fence; load top_ */
  if (g_role == 2) { if (!MO_HAS_ACQUIRE(mo)) g_bad_order = 1; g_need_fence = 1; g_fence_sc = 0; }   /* thief: load top_; seq_cst fence; load bottom_ */
  return self->top_; }
static int64_t A_LOAD_bottom(Deq* self, int mo) { interfere(); A_NOTE(mo);
  if (g_role == 2) { if (!MO_HAS_ACQUIRE(mo)) g_bad_order = 1; if (g_need_fence && !g_fence_sc) g_bad_order = 1; g_need_fence = 0; }
  return self->bottom_; }
static void A_STORE_bottom(Deq* self, int64_t v, int mo, bool publishes, bool lowers) { interfere(); A_NOTE(mo);
  __CPROVER_assert(g_role != 2, "guarantee: bottom_ is written by the owner only");
  if (publishes && !MO_HAS_RELEASE(mo)) g_bad_order = 1;     /* the store that makes a new element visible to thieves */
  self->bottom_ = v; if (v > g_bsince) g_bsince = v;
  if (lowers) { g_need_fence = 1; g_fence_sc = 0; }           /* the lowering store of a pop must be followed by a seq_cst fence before top_ is read */
}
static void A_FENCE(int mo) { A_NOTE(mo); if (mo == MO_seq_cst) g_fence_sc = 1; }
static bool A_CAS_top(Deq* self, int64_t* expected, int64_t desired, int mo, int mo_fail) { interfere(); A_NOTE(mo);
  if (self->top_ != *expected) { *expected = self->top_; return 0; }
  __CPROVER_assert(desired == *expected + 1, "guarantee: top_ advances by exactly one position per successful CAS");
  /* closure of the owner's rely: the position is taken on the strength of a bottom_ value published while top_ had this value */
  __CPROVER_assert(g_bsince > *expected, "a position is taken through top_ only if bottom_ was above it at some moment since top_ took this value");
  if (mo != MO_seq_cst) g_bad_order = 1;
  __CPROVER_assert(g_role != 2 || g_elem, "the position a thief takes through top_ holds an element in place");
  g_taken++; g_taken_pos = *expected; g_by_cas = 1; g_taken_val = self->slots[((size_t)*expected) & kMask];
  self->top_ = desired; g_bsince = self->bottom_; g_elem = (self->bottom_ > desired); g_elem_val = self->slots[((size_t)desired) & kMask];
  return 1;
}
size_t slotIndex(int64_t index)
__CPROVER_ensures(RV < KCAP && RV == (((size_t)index) & kMask))
__CPROVER_assigns()
#include "CL_slotIndex.body.inc"
/* a thief's access to a slot is a plain access to storage the owner may be writing: other threads may act right before it */
static T_tag* slotPtr(Deq* self, int64_t index) { if (g_role == 2) interfere(); return &self->slots[slotIndex(index)]; }

int64_t g_top0, g_bottom0; T_tag g_item_at_top0, g_newest0;
#define FR __CPROVER_assigns(*self, g_bsince, g_elem, g_elem_val, g_bad_order, g_fence_sc, g_need_fence, g_taken, g_taken_pos, g_taken_val, g_by_cas, g_last_mo)
#define PRE(role) (self == g_deq && (g_role == (role) || g_role == 0) && WF(self) && !g_bad_order && g_taken == 0 && !g_need_fence && g_top0 == self->top_ && g_bottom0 == self->bottom_ && self->bottom_ >= self->top_ && (g_bsince > self->top_ ==> self->bottom_ > self->top_))
#define POST (WF(self) && !g_bad_order && self->bottom_ >= self->top_ && self->bottom_ - self->top_ <= Capacity && g_taken <= 1)

/* owner: try_push */
bool CL_try_push(Deq* self, T_tag item)
__CPROVER_requires(PRE(1))
__CPROVER_ensures(self->top_ >= 0 && self->top_ < POSB + 100 && self->bottom_ >= self->top_ - 1) __CPROVER_ensures(g_bsince >= self->bottom_) __CPROVER_ensures(g_bsince <= self->top_ + Capacity) __CPROVER_ensures(g_bsince > self->top_ ? self->bottom_ >= self->top_ : 1) __CPROVER_ensures((g_role == 2 && self->bottom_ > self->top_) ? (g_elem && self->slots[((size_t)self->top_) & kMask] == g_elem_val) : 1) __CPROVER_ensures(!g_bad_order) __CPROVER_ensures(self->bottom_ >= self->top_) __CPROVER_ensures(self->bottom_ - self->top_ <= Capacity && g_taken == 0)
/* success: the element sits at the old bottom_ position and bottom_ moved up by one; failure: nothing changed on the owner's side */
__CPROVER_ensures(RV ==> (self->bottom_ == g_bottom0 + 1 && self->slots[((size_t)g_bottom0) & kMask] == item))
__CPROVER_ensures(!RV ==> self->bottom_ == g_bottom0)
/* never more than Capacity elements; quiescent: succeeds iff not full */
__CPROVER_ensures(g_role == 0 ==> (RV == (g_bottom0 - g_top0 < Capacity)))
FR
#include "CL_try_push.body.inc"

/* owner: try_pop -- on success exactly one position is taken, the newest one (old bottom_ - 1), either without a CAS while top_ is strictly
 * below it (then top_ <= bottom_ at exit keeps thieves off it) or through the CAS on top_ */
#define POP_OK(outv) ((outv) == g_newest0 && (g_by_cas ? (g_taken == 1 && g_taken_pos == g_bottom0 - 1 && self->top_ >= g_bottom0 && self->bottom_ == g_bottom0) \
                                                 : (g_taken == 0 && self->bottom_ == g_bottom0 - 1 && self->top_ <= self->bottom_ && \
                                                    /* no thief can still take that position: top_ has to change before it gets there (which forgets every stale bottom_), or no stale bottom_ above it exists */ \
                                                    (self->top_ < g_bottom0 - 1 || g_bsince <= g_bottom0 - 1))))
bool CL_try_pop(Deq* self, T_tag* out)
__CPROVER_requires(PRE(1))
__CPROVER_ensures(self->top_ >= 0 && self->top_ < POSB + 100 && self->bottom_ >= self->top_ - 1) __CPROVER_ensures(g_bsince >= self->bottom_) __CPROVER_ensures(g_bsince <= self->top_ + Capacity) __CPROVER_ensures(g_bsince > self->top_ ? self->bottom_ >= self->top_ : 1) __CPROVER_ensures((g_role == 2 && self->bottom_ > self->top_) ? (g_elem && self->slots[((size_t)self->top_) & kMask] == g_elem_val) : 1) __CPROVER_ensures(!g_bad_order) __CPROVER_ensures(self->bottom_ >= self->top_) __CPROVER_ensures(self->bottom_ - self->top_ <= Capacity && g_taken <= 1)
__CPROVER_ensures(RV ==> POP_OK(*out))
__CPROVER_ensures(!RV ==> (self->bottom_ == g_bottom0 && (g_taken == 0 || self->top_ >= g_bottom0)))
__CPROVER_ensures(g_role == 0 ==> (RV == (g_bottom0 > g_top0)))
__CPROVER_assigns(*self, *out, g_bsince, g_elem, g_elem_val, g_bad_order, g_fence_sc, g_need_fence, g_taken, g_taken_pos, g_taken_val, g_by_cas, g_last_mo)
#include "CL_try_pop.body.inc"
bool CL_try_pop_into(Deq* self, T_tag* storage)
__CPROVER_requires(PRE(1))
__CPROVER_ensures(self->top_ >= 0 && self->top_ < POSB + 100 && self->bottom_ >= self->top_ - 1) __CPROVER_ensures(g_bsince >= self->bottom_) __CPROVER_ensures(g_bsince <= self->top_ + Capacity) __CPROVER_ensures(g_bsince > self->top_ ? self->bottom_ >= self->top_ : 1) __CPROVER_ensures((g_role == 2 && self->bottom_ > self->top_) ? (g_elem && self->slots[((size_t)self->top_) & kMask] == g_elem_val) : 1) __CPROVER_ensures(!g_bad_order) __CPROVER_ensures(self->bottom_ >= self->top_) __CPROVER_ensures(self->bottom_ - self->top_ <= Capacity && g_taken <= 1)
__CPROVER_ensures(RV ==> POP_OK(*storage))
__CPROVER_ensures(!RV ==> (self->bottom_ == g_bottom0 && (g_taken == 0 || self->top_ >= g_bottom0)))
__CPROVER_ensures(g_role == 0 ==> (RV == (g_bottom0 > g_top0)))
__CPROVER_assigns(*self, *storage, g_bsince, g_elem, g_elem_val, g_bad_order, g_fence_sc, g_need_fence, g_taken, g_taken_pos, g_taken_val, g_by_cas, g_last_mo)
#include "CL_try_pop_into.body.inc"

/* thief: try_steal -- on success exactly one position was taken through the CAS on top_, and the value handed out is the element that was
 * in place at that position */
T_tag g_cas_elem;
bool CL_try_steal(Deq* self, T_tag* out)
__CPROVER_requires(PRE(2))
__CPROVER_ensures(self->top_ >= 0 && self->top_ < POSB + 100 && self->bottom_ >= self->top_ - 1) __CPROVER_ensures(g_bsince >= self->bottom_) __CPROVER_ensures(g_bsince <= self->top_ + Capacity) __CPROVER_ensures(g_bsince > self->top_ ? self->bottom_ >= self->top_ : 1) __CPROVER_ensures((g_role == 2 && self->bottom_ > self->top_) ? (g_elem && self->slots[((size_t)self->top_) & kMask] == g_elem_val) : 1) __CPROVER_ensures(!g_bad_order) __CPROVER_ensures(g_taken <= 1) __CPROVER_ensures(1)
__CPROVER_ensures(RV ==> (g_taken == 1 && g_by_cas && *out == g_taken_val))
__CPROVER_ensures(!RV ==> g_taken == 0)
__CPROVER_ensures(g_role == 0 ==> (RV == (g_bottom0 > g_top0) && (RV ==> (*out == g_item_at_top0 && self->top_ == g_top0 + 1))))
__CPROVER_assigns(*self, *out, g_bsince, g_elem, g_elem_val, g_bad_order, g_fence_sc, g_need_fence, g_taken, g_taken_pos, g_taken_val, g_by_cas, g_last_mo)
#include "CL_try_steal.body.inc"
bool CL_try_steal_into(Deq* self, T_tag* storage)
__CPROVER_requires(PRE(2))
__CPROVER_ensures(self->top_ >= 0 && self->top_ < POSB + 100 && self->bottom_ >= self->top_ - 1) __CPROVER_ensures(g_bsince >= self->bottom_) __CPROVER_ensures(g_bsince <= self->top_ + Capacity) __CPROVER_ensures(g_bsince > self->top_ ? self->bottom_ >= self->top_ : 1) __CPROVER_ensures((g_role == 2 && self->bottom_ > self->top_) ? (g_elem && self->slots[((size_t)self->top_) & kMask] == g_elem_val) : 1) __CPROVER_ensures(!g_bad_order) __CPROVER_ensures(g_taken <= 1) __CPROVER_ensures(1)
__CPROVER_ensures(RV ==> (g_taken == 1 && g_by_cas && *storage == g_taken_val))
__CPROVER_ensures(!RV ==> g_taken == 0)
__CPROVER_ensures(g_role == 0 ==> (RV == (g_bottom0 > g_top0) && (RV ==> (*storage == g_item_at_top0 && self->top_ == g_top0 + 1))))
__CPROVER_assigns(*self, *storage, g_bsince, g_elem, g_elem_val, g_bad_order, g_fence_sc, g_need_fence, g_taken, g_taken_pos, g_taken_val, g_by_cas, g_last_mo)
#include "CL_try_steal_into.body.inc"

bool CL_empty(const Deq* self) __CPROVER_requires(self == g_deq && g_role == 0 && WF(self)) __CPROVER_ensures(RV == (self->bottom_ <= self->top_)) __CPROVER_assigns(g_last_mo, g_bad_order, g_need_fence, g_fence_sc)
#include "CL_empty.body.inc"
size_t CL_size(const Deq* self) __CPROVER_requires(self == g_deq && g_role == 0 && WF(self) && self->bottom_ >= self->top_) __CPROVER_ensures(RV == (size_t)(self->bottom_ - self->top_) && RV <= KCAP) __CPROVER_assigns(g_last_mo, g_bad_order, g_need_fence, g_fence_sc)
#include "CL_size.body.inc"

#ifdef VERIF_CBMC
static void mk(Deq* d, int role) {
  g_deq = d; g_role = nondet_bool() ? role : 0; g_bad_order = 0; g_fence_sc = 0; g_need_fence = 0; g_taken = 0; g_by_cas = 0;
  d->top_ = nondet_i64(); d->bottom_ = nondet_i64(); for (size_t j = 0; j < KCAP; ++j) d->slots[j] = nondet_int();
  g_bsince = nondet_i64(); g_elem = nondet_bool(); g_elem_val = d->slots[((size_t)d->top_) & kMask];
  __CPROVER_assume(d->bottom_ >= d->top_ && WF(d) && (g_bsince > d->top_ ? d->bottom_ > d->top_ : 1));
  if (g_role == 0) __CPROVER_assume(g_bsince == d->bottom_);
  g_top0 = d->top_; g_bottom0 = d->bottom_; g_item_at_top0 = d->slots[((size_t)d->top_) & kMask]; g_newest0 = d->slots[((size_t)(d->bottom_ - 1)) & kMask];
}
void h_slotIndex(void) { int64_t i; slotIndex(i); }
void h_CL_try_push(void) { Deq d; mk(&d, 1); T_tag v; CL_try_push(&d, v); }
void h_CL_try_pop(void) { Deq d; mk(&d, 1); T_tag o; CL_try_pop(&d, &o); }
void h_CL_try_pop_into(void) { Deq d; mk(&d, 1); T_tag o; CL_try_pop_into(&d, &o); }
void h_CL_try_steal(void) { Deq d; mk(&d, 2); T_tag o; CL_try_steal(&d, &o); }
void h_CL_try_steal_into(void) { Deq d; mk(&d, 2); T_tag o; CL_try_steal_into(&d, &o); }
void h_CL_empty(void) { Deq d; mk(&d, 0); g_role = 0; CL_empty(&d); }
void h_CL_size(void) { Deq d; mk(&d, 0); g_role = 0; CL_size(&d); }
#endif
