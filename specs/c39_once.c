/* C39: OnceFunction (dispenso/once_function.h) and its callable storage (dispenso/detail/once_callable_impl.h).
 * The functor type F is abstract: two symbolic constants SIZEOF_F / ALIGNOF_F (any size >= 1, any power-of-two alignment <= 256
 * dividing the size) stand for sizeof(F) / alignof(F); the functor object is a T_cell (ghost lifetime), invoking it is a ghost event.
 * Verified: storage selection (inline <=> fits the 56-byte, 64-aligned buffer), the spill block is large and aligned enough and is
 * freed with the same size class it was allocated with, invoke(buf, run) invokes iff run and destroys exactly once, moves transfer
 * the obligation bytewise. */
#include "prelude.h"
#include "lifetime.h"
#define RV __CPROVER_return_value
unsigned g_T_constructed, g_T_destroyed;
size_t SIZEOF_F, ALIGNOF_F;                 /* symbolic type parameters */
#define F_OK (SIZEOF_F >= 1 && SIZEOF_F <= ((size_t)1 << 40) && ALIGNOF_F >= 1 && ALIGNOF_F <= 256 && (ALIGNOF_F & (ALIGNOF_F - 1)) == 0 && SIZEOF_F % ALIGNOF_F == 0)
#define kOnceFunctionInlineSize ((size_t)KINLINE)
DEF_MINMAX(size_t)
uint64_t nextPow2(uint64_t v)
__CPROVER_requires(v <= ((uint64_t)1 << 63))
__CPROVER_ensures(v >= 1 ==> (RV != 0 && (RV & (RV - 1)) == 0 && RV >= v && (RV >> 1) < v))
__CPROVER_assigns()
;   /* proved under C44 */

unsigned g_invoked;                        /* how often the functor's operator() ran */
/* ghost pool: one outstanding spill block */
size_t g_blk_size; bool g_blk_live; unsigned g_blk_frees; T_cell g_spill_obj;
static void G_invoke_functor(T_cell* f) { __CPROVER_assert(f->live == 1, "functor is invoked inside its lifetime"); g_invoked++; }
static T_cell* G_allocSmallBuffer(size_t kAllocSize) {
  __CPROVER_assert(!g_blk_live, "one spill block per OnceFunction");
  /* C41's contract: the block has kAllocSize bytes and is aligned to kAllocSize */
  g_blk_size = kAllocSize; g_blk_live = 1; g_spill_obj.live = 0; return &g_spill_obj;
}
static void G_deallocSmallBuffer(size_t kBufferSize, T_cell* p) {
  __CPROVER_assert(g_blk_live && p == &g_spill_obj, "the spill block is freed exactly once, and it is the block that was allocated");
  __CPROVER_assert(kBufferSize == g_blk_size, "the block is returned to the size class it came from");
  g_blk_live = 0; g_blk_frees++;
}

/* ---- storage selection: the integral_constant argument of createOnceCallable ---- */
bool once_select_inline(void)
__CPROVER_requires(F_OK)
/* inline storage is chosen exactly when the functor fits buf_ (56 bytes, alignas(64)) */
__CPROVER_ensures(RV == (SIZEOF_F <= 56 && ALIGNOF_F <= 64))
__CPROVER_ensures(RV ==> (SIZEOF_F <= kOnceFunctionInlineSize && 64 % ALIGNOF_F == 0))
__CPROVER_assigns()
{
  return
#include "once_select.expr.inc"
  ;
}

/* ---- spill size class: kAllocSize of the spill overload ---- */
size_t once_spill_alloc_size(void)
__CPROVER_requires(F_OK)
/* the block is big enough, and (being aligned to its own power-of-two size) aligned for F */
__CPROVER_ensures(RV >= SIZEOF_F && RV % ALIGNOF_F == 0 && (RV & (RV - 1)) == 0)
__CPROVER_assigns()
{
#include "once_spill_size.slice.inc"
  return kAllocSize;
}

/* ---- invoke trampolines ---- */
void invokeInline(T_cell* buf, bool run)
__CPROVER_requires(buf->live == 1 && g_invoked == 0 && g_T_destroyed == 0)
__CPROVER_ensures(g_invoked == (run ? 1u : 0u) && buf->live == 0 && g_T_destroyed == 1)
__CPROVER_assigns(*buf, g_invoked, g_T_destroyed)
#include "invokeInline.body.inc"

typedef struct SpillBuf { T_cell* ptr; } SpillBuf;     /* buf_[0..7] holds the pointer to the pool block */
void invokeSpill(SpillBuf* buf, bool run)
__CPROVER_requires(buf->ptr == &g_spill_obj && g_spill_obj.live == 1 && g_blk_live && g_blk_size == KSPILLSIZE && g_invoked == 0 && g_T_destroyed == 0 && g_blk_frees == 0)
__CPROVER_ensures(g_invoked == (run ? 1u : 0u) && g_spill_obj.live == 0 && g_T_destroyed == 1 && !g_blk_live && g_blk_frees == 1)
__CPROVER_assigns(g_spill_obj, g_invoked, g_T_destroyed, g_blk_live, g_blk_frees)
#include "invokeSpill.body.inc"

/* ---- OnceFunction: 56 bytes of storage + invoke pointer, moved bytewise ---- */
typedef struct OnceFunction { unsigned char buf_[KINLINE]; int invoke_; } OnceFunction;     /* invoke_: which trampoline (1 inline, 2 spill) */
int g_dispatch_calls; int g_dispatch_run;
static void G_dispatch(int which, unsigned char* buf, bool run) { g_dispatch_calls++; g_dispatch_run = run; }
void OnceFunction_move_ctor(OnceFunction* self, const OnceFunction* other)
__CPROVER_requires(__CPROVER_is_fresh(self, sizeof(*self)) && __CPROVER_is_fresh(other, sizeof(*other)))
/* the whole object (functor bytes / spill pointer and trampoline) is transferred */
__CPROVER_ensures(self->invoke_ == other->invoke_ && __CPROVER_forall { unsigned i; (i < KINLINE) ==> self->buf_[i] == other->buf_[i] })
__CPROVER_assigns(*self)
#include "OnceFunction_move_ctor.body.inc"

void OnceFunction_call(const OnceFunction* self)
__CPROVER_requires(g_dispatch_calls == 0)
__CPROVER_ensures(g_dispatch_calls == 1 && g_dispatch_run == 1)
__CPROVER_assigns(g_dispatch_calls, g_dispatch_run)
#include "OnceFunction_call.body.inc"
void OnceFunction_cleanupNotRun(OnceFunction* self)
__CPROVER_requires(g_dispatch_calls == 0)
__CPROVER_ensures(g_dispatch_calls == 1 && g_dispatch_run == 0)
__CPROVER_assigns(g_dispatch_calls, g_dispatch_run)
#include "OnceFunction_cleanupNotRun.body.inc"

#ifdef VERIF_CBMC
size_t nondet_size_t(void);
static void tp(void) { SIZEOF_F = nondet_size_t(); ALIGNOF_F = nondet_size_t(); g_invoked = 0; g_T_destroyed = 0; g_T_constructed = 0; g_blk_frees = 0; g_dispatch_calls = 0; }
void h_once_select_inline(void) { tp(); once_select_inline(); }
void h_once_spill_alloc_size(void) { tp(); once_spill_alloc_size(); }
void h_invokeInline(void) { tp(); T_cell f; f.live = 1; _Bool r; invokeInline(&f, r); }
void h_invokeSpill(void) { tp(); g_spill_obj.live = 1; g_blk_live = 1; g_blk_size = KSPILLSIZE; SpillBuf b; b.ptr = &g_spill_obj; _Bool r; invokeSpill(&b, r); }
void h_OnceFunction_move_ctor(void) { OnceFunction* a; OnceFunction* b; OnceFunction_move_ctor(a, b); }
void h_OnceFunction_call(void) { tp(); OnceFunction a; OnceFunction_call(&a); }
void h_OnceFunction_cleanupNotRun(void) { tp(); OnceFunction a; OnceFunction_cleanupNotRun(&a); }
#endif
