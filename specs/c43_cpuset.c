/* C43 (set algebra part): CpuSet::add/addRange/remove/removeRange/contains/count/clear (Linux variant, dispenso/cpu_set.cpp)
 * against glibc's real CPU_SET / CPU_CLR / CPU_ISSET / CPU_ZERO macros (<sched.h>, read by CBMC directly).
 * The set is specified through a ghost id k (any int32_t): MEMBER(s,k) is "k is in the mathematical set". */
#define _GNU_SOURCE
#include <sched.h>
#include "prelude.h"
#define RV __CPROVER_return_value
DEF_MINMAX(int32_t)
typedef struct CpuSet { cpu_set_t set_; } CpuSet;
#define MIN_auto MIN_int32_t
#define MAX_auto MAX_int32_t

/* side-effect free rendering of CPU_ISSET (glibc's macro is a statement expression, not allowed in contracts);
 * unit member_matches_glibc proves it equal to the real macro for every id and every set */
#define MEMBER(s, k) ((k) >= 0 && (k) < CPU_SETSIZE && (((s)->set_.__bits[(k) / (8 * (int)sizeof(__cpu_mask))] >> ((k) % (8 * (int)sizeof(__cpu_mask)))) & 1) != 0)
bool member_matches_glibc(const CpuSet* self, int32_t k)
__CPROVER_requires(k >= 0 && k < CPU_SETSIZE)
__CPROVER_ensures(RV == MEMBER(self, k))
__CPROVER_assigns()
{ return CPU_ISSET(k, &self->set_) != 0; }
/* ghost snapshot of the membership of k before the call */
int32_t g_k; bool g_old_member;

/* axiom stub: __sched_cpucount (glibc, out of line) returns the population count; verified here only as "non-negative, <= CPU_SETSIZE" */
int __sched_cpucount(size_t setsize, const cpu_set_t* setp)
__CPROVER_ensures(RV >= 0 && RV <= CPU_SETSIZE)
__CPROVER_assigns()
;

void CpuSet_clear(CpuSet* self)
__CPROVER_ensures(!MEMBER(self, g_k))
__CPROVER_assigns(self->set_)
#include "CpuSet_clear.body.inc"

void CpuSet_add(CpuSet* self, int32_t hardwareThread)
__CPROVER_requires(g_old_member == MEMBER(self, g_k))
__CPROVER_ensures(MEMBER(self, g_k) == (g_old_member || (g_k == hardwareThread && hardwareThread >= 0 && hardwareThread < CPU_SETSIZE)))
__CPROVER_assigns(self->set_)
#include "CpuSet_add.body.inc"

void CpuSet_remove(CpuSet* self, int32_t hardwareThread)
__CPROVER_requires(g_old_member == MEMBER(self, g_k))
__CPROVER_ensures(MEMBER(self, g_k) == (g_old_member && g_k != hardwareThread))
__CPROVER_assigns(self->set_)
#include "CpuSet_remove.body.inc"

bool CpuSet_contains(const CpuSet* self, int32_t hardwareThread)
__CPROVER_ensures(RV == MEMBER(self, hardwareThread))
__CPROVER_assigns()
#include "CpuSet_contains.body.inc"

void CpuSet_addRange(CpuSet* self, int32_t start, int32_t end)
__CPROVER_requires(g_old_member == MEMBER(self, g_k))
__CPROVER_ensures(MEMBER(self, g_k) == (g_old_member || (g_k >= 0 && g_k < CPU_SETSIZE && start <= g_k && g_k < end)))
__CPROVER_assigns(self->set_)
#include "CpuSet_addRange.body.inc"

void CpuSet_removeRange(CpuSet* self, int32_t start, int32_t end)
__CPROVER_requires(g_old_member == MEMBER(self, g_k))
__CPROVER_ensures(MEMBER(self, g_k) == (g_old_member && !(start <= g_k && g_k < end)))
__CPROVER_assigns(self->set_)
#include "CpuSet_removeRange.body.inc"

int32_t CpuSet_count(const CpuSet* self)
__CPROVER_ensures(RV >= 0 && RV <= CPU_SETSIZE)
__CPROVER_assigns()
#include "CpuSet_count.body.inc"

/* ---- parseIntClamped (CPU-list parsing, numeric token): strtol is an axiom stub returning an arbitrary long and an end pointer ---- */
long g_strtol_value; bool g_strtol_nodigits;
long G_strtol(const char* s, char** endp, int base)
__CPROVER_requires(base == 10)
__CPROVER_assigns(*endp)
__CPROVER_ensures(RV == g_strtol_value && (g_strtol_nodigits ? (*endp == s) : (*endp != s)))
;
#define kMaxReasonableCpuId ((long)KMAXCPU)
int32_t parseIntClamped(const char* s)
/* the token denotes the id strtol read; anything that is not a number in [0, kMaxReasonableCpuId] yields -1 (no id) */
__CPROVER_ensures(RV == ((!g_strtol_nodigits && g_strtol_value >= 0 && g_strtol_value <= kMaxReasonableCpuId) ? (int32_t)g_strtol_value : -1))
__CPROVER_assigns()
#include "parseIntClamped.body.inc"

#ifdef VERIF_CBMC
void h_parseIntClamped(void) { char buf[4]; long v; _Bool nd; g_strtol_value = v; g_strtol_nodigits = nd; parseIntClamped(buf); }
#define H(name, call) void h_##name(void) { CpuSet s; int32_t a, b, k; g_k = k; g_old_member = MEMBER(&s, k); call; }
H(CpuSet_clear, CpuSet_clear(&s))
H(CpuSet_add, CpuSet_add(&s, a))
H(CpuSet_remove, CpuSet_remove(&s, a))
H(CpuSet_contains, CpuSet_contains(&s, a))
H(CpuSet_addRange, CpuSet_addRange(&s, a, b))
H(CpuSet_removeRange, CpuSet_removeRange(&s, a, b))
H(CpuSet_count, CpuSet_count(&s))
H(member_matches_glibc, member_matches_glibc(&s, a))
#endif
