/* C33: ConcurrentVector concurrent growth -- the index arithmetic that decides WHICH bucket an index lives in and WHO allocates which
 * bucket (dispenso/concurrent_vector.h: bucketAndSubIndex; detail/concurrent_vector_impl.h: allocCheckIndex, both allocAsNecessaryImpl).
 * -DSTRATEGY=0|1|2 (kFullBufferAhead, kHalfBufferAhead, kAsNeeded).  firstBucketShift_ is symbolic (0..20).
 * Geometry (ghost): bucket 0 holds indices [0, L) with L = 1 << shift; bucket b >= 1 holds [L << (b-1), L << b), capacity L << (b-1).
 * Every bucket b has ONE trigger index TRIG(b) = START(b) + allocCheckIndex(CAP(b)); the growth that reserves the trigger index is the
 * one responsible for allocating bucket b+1.  Indices are handed out disjointly by size_.fetch_add (atomic RMW axiom), so "each bucket is
 * allocated by exactly one growth" is: a growth of [index, index+len) prepares bucket k (k >= 1)  <=>  TRIG(k-1) lies in [index, index+len).
 * The buffers_ table is rendered by probes: G_size_probe (first pass: is the entry still null?) and G_assign (second pass: tryAssignBuffer),
 * which record whether the ghost bucket g_b was visited and with which capacity; the answers of the null tests are arbitrary. */
#include "prelude.h"
#define RV __CPROVER_return_value
typedef struct BucketInfo { size_t bucket; size_t bucketIndex; size_t bucketCapacity; } BucketInfo;
typedef struct CV { size_t firstBucketShift_; size_t firstBucketLen_; } CV;
_Bool nondet_bool(void); size_t nondet_size_t(void);
#ifndef IDXBITS
#define IDXBITS 47
#endif
#define MAXIDX (((size_t)1) << IDXBITS)                  /* indices below 2^IDXBITS (47 = kMaxVectorSize bound) */
#define L(v) ((v)->firstBucketLen_)
/* (written without a negative shift distance: contract clauses are checked for undefined shifts without regard to the guard) */
#define CAP_(v, b) ((b) == 0 ? L(v) : ((L(v) << ((b) & 63)) >> 1))        /* b < 64 wherever it matters; the mask keeps the shift defined in every evaluation */
#define START_(v, b) ((b) == 0 ? (size_t)0 : ((L(v) << ((b) & 63)) >> 1))
#if STRATEGY == 0
#define CHECK(cap) ((size_t)0)
#elif STRATEGY == 1
#define CHECK(cap) ((cap) / 2)
#else
#define CHECK(cap) ((cap) - 1)
#endif
#define CVOK(v) ((v)->firstBucketShift_ <= 20 && (v)->firstBucketLen_ == (((size_t)1) << (v)->firstBucketShift_))

/* detail::log2 (C44: wrapper of bsr, axiom R18) */
size_t AX_log2(size_t v)
__CPROVER_requires(v >= 1)
__CPROVER_ensures(RV < 64 && (v >> RV) == 1)
__CPROVER_assigns()
{ size_t r = 0; while (v >>= 1) r++; return r; }

/* bucketAndSubIndex: the unique (bucket, offset) with index == START(bucket) + offset, offset < CAP(bucket) */
BucketInfo CV_bucketAndSubIndex(const CV* self, size_t index)
__CPROVER_requires(CVOK(self) && index < MAXIDX)
__CPROVER_ensures(RV.bucket < 48 && RV.bucketCapacity == CAP_(self, RV.bucket) && RV.bucketIndex < RV.bucketCapacity && index == START_(self, RV.bucket) + RV.bucketIndex)
__CPROVER_assigns()
#include "CV_bucketAndSubIndex.body.inc"

size_t CV_allocCheckIndex(size_t bucketCapacity)
__CPROVER_requires(bucketCapacity >= 1)
__CPROVER_ensures(RV == CHECK(bucketCapacity) && RV < bucketCapacity)
__CPROVER_assigns()
#include "CV_allocCheckIndex.body.inc"

/* ghost probes of the buffers_ table */
size_t g_b; bool g_probe, g_assign, g_single_alloc, g_saw_nonnull; size_t g_probe_cap, g_assign_cap, g_single_cap; int g_probe_n, g_assign_n;
/* publication: `while (!buffers_[b].load(acquire)) {}` returns only after an acquire load saw bucket b's buffer (termination: progress, not decided) */
size_t g_w; bool g_waited; bool nondet_bool(void);
static void G_wait_published(size_t bucket) { __CPROVER_assert(bucket < 64, "buffers_ index inside the table"); if (bucket == g_w) g_waited = 1; }
static bool G_is_null(size_t bucket) { __CPROVER_assert(bucket < 64, "buffers_ index inside the table"); return nondet_bool(); }
static bool G_size_probe(size_t bucket, size_t cap) { __CPROVER_assert(bucket < 64, "buffers_ index inside the table"); if (bucket == g_b) { g_probe = 1; g_probe_cap = cap; g_probe_n++; } return nondet_bool(); }
static bool G_assign(size_t bucket, size_t cap) { __CPROVER_assert(bucket < 64, "buffers_ index inside the table"); if (bucket == g_b) { g_assign = 1; g_assign_cap = cap; g_assign_n++; } return nondet_bool(); }
static void G_single_alloc(size_t bucket, size_t cap) { __CPROVER_assert(bucket < 64, "buffers_ index inside the table"); if (bucket == g_b) { g_single_alloc = 1; g_single_cap = cap; } }
static size_t G_alloc(size_t n) { return 1; }

#define TRIG(v, b) (START_(v, b) + CHECK(CAP_(v, b)))
/* single index (push_back / emplace_back): the growth that reserved `index` prepares bucket k  <=>  index is the trigger of bucket k-1 */
void CV_allocAsNecessary_one(const CV* self, BucketInfo binfo, size_t index)
__CPROVER_requires(CVOK(self) && index < MAXIDX && binfo.bucket < 48 && binfo.bucketCapacity == CAP_(self, binfo.bucket) && binfo.bucketIndex < binfo.bucketCapacity && index == START_(self, binfo.bucket) + binfo.bucketIndex)
__CPROVER_requires(g_b >= 1 && g_b <= 60 && g_b + self->firstBucketShift_ <= 60 && !g_single_alloc)   /* START(g_b) does not overflow */
/* (the single-index path sizes the new bucket as twice the current one: exact for b >= 1, generous by 2x when coming from bucket 0) */
__CPROVER_ensures(g_single_alloc ==> (index == TRIG(self, g_b - 1) && g_single_cap >= CAP_(self, g_b) && g_single_cap <= 2 * CAP_(self, g_b)))
__CPROVER_ensures((index == TRIG(self, g_b - 1)) ==> (g_single_alloc || g_saw_nonnull))
/* no element is lost: the caller constructs its element in bucket binfo.bucket right after this returns, so that bucket must have been seen published */
__CPROVER_ensures(g_w == binfo.bucket ==> g_waited)
__CPROVER_assigns(g_single_alloc, g_single_cap, g_saw_nonnull, g_waited)
#include "CV_allocAsNecessary_one.body.inc"

/* range growth (grow_by, grow_by_generator, grow_to_at_least, insert): [index, index + rangeLen) */
void CV_allocAsNecessary_range(const CV* self, BucketInfo binfo, ssize_t rangeLen, BucketInfo bend, size_t index)
__CPROVER_requires(CVOK(self) && rangeLen >= 1 && index < MAXIDX && index + (size_t)rangeLen < MAXIDX)
__CPROVER_requires(binfo.bucket < 48 && binfo.bucketCapacity == CAP_(self, binfo.bucket) && binfo.bucketIndex < binfo.bucketCapacity && index == START_(self, binfo.bucket) + binfo.bucketIndex)
__CPROVER_requires(bend.bucket < 48 && bend.bucketCapacity == CAP_(self, bend.bucket) && bend.bucketIndex < bend.bucketCapacity && index + (size_t)rangeLen == START_(self, bend.bucket) + bend.bucketIndex)
__CPROVER_requires(g_b >= 1 && g_b <= 60 && g_b + self->firstBucketShift_ <= 60 && !g_probe && !g_assign && g_probe_n == 0 && g_assign_n == 0)
/* responsibility: bucket g_b is prepared by this growth  <=>  the trigger index of bucket g_b - 1 is one of the indices it reserved */
__CPROVER_ensures(g_assign == (index <= TRIG(self, g_b - 1) && TRIG(self, g_b - 1) < index + (size_t)rangeLen))
/* the sizing pass and the assignment pass agree, visit a bucket at most once, and use the bucket's capacity */
__CPROVER_ensures(g_probe == g_assign && g_probe_n <= 1 && g_assign_n <= 1 && (g_assign ==> (g_assign_cap == CAP_(self, g_b) && g_probe_cap == CAP_(self, g_b))))
/* every bucket that holds one of the reserved indices [index, index + rangeLen) has been seen published before the elements are constructed */
__CPROVER_ensures((g_w >= binfo.bucket && g_w <= bend.bucket && (g_w < bend.bucket || bend.bucketIndex > 0)) ==> g_waited)
__CPROVER_assigns(g_probe, g_assign, g_probe_cap, g_assign_cap, g_probe_n, g_assign_n, g_waited)
#include "CV_allocAsNecessary_range.body.inc"

#ifdef VERIF_CBMC
static void mkcv(CV* v) { v->firstBucketShift_ = nondet_size_t(); __CPROVER_assume(v->firstBucketShift_ <= 20); v->firstBucketLen_ = ((size_t)1) << v->firstBucketShift_; }
void h_AX_log2(void) { size_t v; AX_log2(v); }
void h_CV_bucketAndSubIndex(void) { CV v; mkcv(&v); size_t i; CV_bucketAndSubIndex(&v, i); }
void h_CV_allocCheckIndex(void) { size_t c; CV_allocCheckIndex(c); }
void h_CV_allocAsNecessary_one(void) { CV v; mkcv(&v); size_t i = nondet_size_t(); __CPROVER_assume(i < MAXIDX); BucketInfo b = CV_bucketAndSubIndex(&v, i);
  g_b = nondet_size_t(); g_w = nondet_size_t(); g_waited = 0; g_single_alloc = 0; g_saw_nonnull = 0; CV_allocAsNecessary_one(&v, b, i); }
void h_CV_allocAsNecessary_range(void) { CV v; mkcv(&v); size_t i = nondet_size_t(); ssize_t n = (ssize_t)nondet_size_t(); __CPROVER_assume(i < MAXIDX && n >= 1 && (size_t)n < MAXIDX && i + (size_t)n < MAXIDX);
  BucketInfo b = CV_bucketAndSubIndex(&v, i); BucketInfo e = CV_bucketAndSubIndex(&v, i + (size_t)n);
  g_b = nondet_size_t(); g_w = nondet_size_t(); g_waited = 0; g_probe = 0; g_assign = 0; g_probe_n = 0; g_assign_n = 0; CV_allocAsNecessary_range(&v, b, n, e, i); }
#endif
