/* C35: SPSCRingBuffer<T, Capacity, RoundUp> (dispenso/spsc_ring_buffer.h) under rely/guarantee, one producer + one consumer.
 * -DKBUF=<kBufferSize> -DKPOW2=<0|1> come from the real header (probe).  Slots are T_cells (ghost lifetimes); storage_ bytes are
 * rendered as a slot array (elementAt(i) = &slots[i], with i < kBufferSize asserted).
 * Global invariant I (ghost slot index k): slots[k] is live  <=>  k lies in the cyclic interval [head_, tail_).
 * ROLE_PRODUCER units: before each atomic access the consumer may pop any number of the elements currently in the ring
 *   (head_ advances cyclically up to tail_, the slots it passes die); tail_ and the free slots are untouched.
 * ROLE_CONSUMER units: the producer may push into any number of free slots (tail_ advances cyclically, at most to head_-1,
 *   the slots it passes become live); head_ and the occupied slots are untouched. */
#include "prelude.h"
#include "lifetime.h"
#include "atomics.h"
#define RV __CPROVER_return_value
unsigned g_T_constructed, g_T_destroyed;
int g_last_mo;
#define kBufferSize ((size_t)KBUF)
#define kIsPowerOfTwo KPOW2
#define kMask ((size_t)(KBUF - 1))
typedef struct Ring { size_t head_; size_t tail_; T_cell slots[KBUF]; } Ring;
typedef struct OpResult { T_cell buf_; int has; } OpResult;   /* detail::OpResult<T>: storage + engaged flag (its own lifetime protocol is C40) */

Ring* g_ring; int g_role;       /* 1 = this thread is the producer, 2 = the consumer, 0 = quiescent (no interference) */
bool g_bad_order;               /* publication without release / observation without acquire */
_Bool nondet_bool(void); size_t nondet_size_t(void); int nondet_int(void);
#define CYC(a, b) (((b) + kBufferSize - (a)) % kBufferSize)                 /* cyclic distance a -> b */
#define INRANGE(k, h, t) (CYC(h, k) < CYC(h, t))                             /* k in cyclic [h, t) */
#define INV_K(r, k) (((r)->slots[k].live == 1) == INRANGE(k, (r)->head_, (r)->tail_))
#define WF(r) ((r)->head_ < kBufferSize && (r)->tail_ < kBufferSize)

static void others_act(void) {
  Ring* r = g_ring;
  if (g_role == 1) {            /* consumer pops m of the occupied slots */
    size_t m = nondet_size_t(); __CPROVER_assume(m <= CYC(r->head_, r->tail_));
    for (size_t j = 0; j < kBufferSize; ++j) if (CYC(r->head_, j) < m) { r->slots[j].live = 0; }
    r->head_ = (r->head_ + m) % kBufferSize;
  } else if (g_role == 2) {     /* producer pushes m elements into free slots (capacity is kBufferSize-1) */
    size_t m = nondet_size_t(); __CPROVER_assume(m <= kBufferSize - 1 - CYC(r->head_, r->tail_));
    for (size_t j = 0; j < kBufferSize; ++j) if (CYC(r->tail_, j) < m) { r->slots[j].live = 1; r->slots[j].value = nondet_int(); r->slots[j].moved_from = 0; }
    r->tail_ = (r->tail_ + m) % kBufferSize;
  }
}
#undef VERIF_INTERFERE
#define VERIF_INTERFERE() others_act()
static size_t A_LOAD_idx(const size_t* x, int mo, bool mine) { VERIF_INTERFERE(); A_NOTE(mo); if (!mine && !MO_HAS_ACQUIRE(mo)) g_bad_order = 1; return *x; }
static void A_STORE_idx(size_t* x, size_t v, int mo) { VERIF_INTERFERE(); A_NOTE(mo); if (!MO_HAS_RELEASE(mo)) g_bad_order = 1; *x = v; }
/* loads of the index this role owns may be relaxed; loads of the other role's index must be acquire */
#define LOAD_HEAD(mo) A_LOAD_idx(&self->head_, mo, g_role == 2 || g_role == 0)
#define LOAD_TAIL(mo) A_LOAD_idx(&self->tail_, mo, g_role == 1 || g_role == 0)

static size_t MIN_auto(size_t a, size_t b) { return b < a ? b : a; }
size_t increment(size_t index)
__CPROVER_requires(index < kBufferSize)
__CPROVER_ensures(RV == (index + 1) % kBufferSize)
__CPROVER_assigns()
#include "increment.body.inc"

static T_cell* elementAt(Ring* self, size_t index) {
  __CPROVER_assert(index < kBufferSize, "elementAt index inside storage_");
  return &self->slots[index];
}

/* ownership at the access itself: ring storage may be touched by the consumer only while the slot is published and not yet released
 * (inside the cyclic [head_, tail_) as the indices stand now), by the producer only while it is free (outside it) */
static void own_check(Ring* self, T_cell* c) {
  for (size_t j = 0; j < kBufferSize; ++j) if (c == &self->slots[j]) {
    if (g_role == 2) __CPROVER_assert(INRANGE(j, self->head_, self->tail_), "the consumer touches a slot only while it is published and not yet released (head_ not yet advanced past it)");
    if (g_role == 1) __CPROVER_assert(!INRANGE(j, self->head_, self->tail_), "the producer touches a slot only while it is free (tail_ not yet advanced past it)");
  }
}
static T_cell* S_construct_at(Ring* self, T_cell* c, T_tag v) { own_check(self, c); return T_construct_at(c, v); }
static void S_destroy_at(Ring* self, T_cell* c) { own_check(self, c); T_destroy_at(c); }
static T_tag S_move_from(Ring* self, T_cell* c) { own_check(self, c); return T_move_from(c); }

/* ------------- producer operations ------------- */
#define PRODUCER_PRE (self == g_ring && g_role == 1 && WF(self) && !g_bad_order && INV_K(self, g_k) && g_k < kBufferSize && g_occupancy0 == CYC(self->head_, self->tail_))
size_t g_k; size_t g_occupancy0;   /* ghost: number of elements in the ring at entry */
/* after the call: I still holds for the ghost slot; the ring never holds more than capacity(); index publication is release */
#define COMMON_POST (WF(self) && INV_K(self, g_k) && !g_bad_order && CYC(self->head_, self->tail_) <= kBufferSize - 1)

bool Ring_try_push_move(Ring* self, T_cell* item)
__CPROVER_requires(PRODUCER_PRE && item->live == 1)
__CPROVER_ensures(COMMON_POST)
/* true => exactly one element appended at the old tail with the pushed value; false => nothing changed on the producer side */
__CPROVER_ensures(RV ==> (self->tail_ == (__CPROVER_old(self->tail_) + 1) % kBufferSize && self->slots[__CPROVER_old(self->tail_)].value == __CPROVER_old(item->value) && g_T_constructed == 1))
__CPROVER_ensures(!RV ==> (self->tail_ == __CPROVER_old(self->tail_) && g_T_constructed == 0))
__CPROVER_assigns(*self, item->moved_from, g_last_mo, g_bad_order, g_T_constructed)
#include "Ring_try_push_move.body.inc"

bool Ring_try_push_copy(Ring* self, const T_cell* item)
__CPROVER_requires(PRODUCER_PRE && item->live == 1)
__CPROVER_ensures(COMMON_POST)
__CPROVER_ensures(RV ==> (self->tail_ == (__CPROVER_old(self->tail_) + 1) % kBufferSize && self->slots[__CPROVER_old(self->tail_)].value == item->value && g_T_constructed == 1))
__CPROVER_ensures(!RV ==> (self->tail_ == __CPROVER_old(self->tail_) && g_T_constructed == 0))
__CPROVER_assigns(*self, g_last_mo, g_bad_order, g_T_constructed)
#include "Ring_try_push_copy.body.inc"

bool Ring_try_emplace(Ring* self, T_tag args)
__CPROVER_requires(PRODUCER_PRE)
__CPROVER_ensures(COMMON_POST)
__CPROVER_ensures(RV ==> (self->tail_ == (__CPROVER_old(self->tail_) + 1) % kBufferSize && self->slots[__CPROVER_old(self->tail_)].value == args && g_T_constructed == 1))
__CPROVER_ensures(!RV ==> (self->tail_ == __CPROVER_old(self->tail_) && g_T_constructed == 0))
__CPROVER_assigns(*self, g_last_mo, g_bad_order, g_T_constructed)
#include "Ring_try_emplace.body.inc"

/* ------------- consumer operations ------------- */
#define CONSUMER_PRE (self == g_ring && g_role == 2 && WF(self) && !g_bad_order && INV_K(self, g_k) && g_k < kBufferSize && g_occupancy0 == CYC(self->head_, self->tail_))
T_tag g_head_value;   /* ghost: value of the oldest element at entry (if any) */
bool Ring_try_pop_ref(Ring* self, T_cell* item)
__CPROVER_requires(CONSUMER_PRE && item->live == 1 && (self->head_ != self->tail_ ==> self->slots[self->head_].value == g_head_value))
__CPROVER_ensures(COMMON_POST)
/* true => the oldest element was handed out and destroyed exactly once; head advanced by one */
__CPROVER_ensures(RV ==> (self->head_ == (__CPROVER_old(self->head_) + 1) % kBufferSize && (g_occupancy0 > 0 ==> item->value == g_head_value) && g_T_destroyed == 1))
__CPROVER_ensures(!RV ==> (self->head_ == __CPROVER_old(self->head_) && g_T_destroyed == 0))
/* a pop succeeds whenever the ring was non-empty at entry (elements never disappear on the consumer's side) */
__CPROVER_ensures(g_occupancy0 > 0 ==> RV)
__CPROVER_assigns(*self, *item, g_last_mo, g_bad_order, g_T_destroyed)
#include "Ring_try_pop_ref.body.inc"

bool Ring_try_pop_into(Ring* self, T_cell* storage)
__CPROVER_requires(CONSUMER_PRE && storage->live == 0 && (self->head_ != self->tail_ ==> self->slots[self->head_].value == g_head_value))
__CPROVER_ensures(COMMON_POST)
__CPROVER_ensures(RV ==> (self->head_ == (__CPROVER_old(self->head_) + 1) % kBufferSize && storage->live == 1 && (g_occupancy0 > 0 ==> storage->value == g_head_value) && g_T_destroyed == 1))
__CPROVER_ensures(!RV ==> (self->head_ == __CPROVER_old(self->head_) && g_T_destroyed == 0 && storage->live == 0))
__CPROVER_assigns(*self, *storage, g_last_mo, g_bad_order, g_T_destroyed, g_T_constructed)
#include "Ring_try_pop_into.body.inc"

/* OpResult<T> try_pop(): the element is move-constructed into the returned OpResult (one construction), the slot destroyed, then released */
static OpResult OpResult_empty(void) { OpResult r; r.has = 0; r.buf_.live = 0; r.buf_.value = 0; r.buf_.moved_from = 0; return r; }
static OpResult OpResult_from(T_tag v) { OpResult r; r.has = 1; r.buf_.live = 1; r.buf_.value = v; r.buf_.moved_from = 0; g_T_constructed++; return r; }
OpResult Ring_try_pop_opt(Ring* self)
__CPROVER_requires(CONSUMER_PRE && (self->head_ != self->tail_ ==> self->slots[self->head_].value == g_head_value))
__CPROVER_ensures(COMMON_POST)
__CPROVER_ensures(RV.has ==> (self->head_ == (__CPROVER_old(self->head_) + 1) % kBufferSize && RV.buf_.live == 1 && (g_occupancy0 > 0 ==> RV.buf_.value == g_head_value) && g_T_destroyed == 1))
__CPROVER_ensures(!RV.has ==> (self->head_ == __CPROVER_old(self->head_) && g_T_destroyed == 0 && RV.buf_.live == 0))
__CPROVER_assigns(*self, g_last_mo, g_bad_order, g_T_destroyed, g_T_constructed)
#include "Ring_try_pop_opt.body.inc"

/* ------------- batch operations (iterators rendered as indices into arrays) ------------- */
#define NSRC (KBUF + 2)
size_t Ring_try_push_batch(Ring* self, T_cell src[NSRC], size_t first, size_t last)
__CPROVER_requires(PRODUCER_PRE && first <= last && last <= NSRC && g_T_constructed == 0)
__CPROVER_ensures(COMMON_POST)
/* as many as fit into the free space observed (at least the free space at entry), never more than offered; that many objects constructed, tail advanced by as many */
__CPROVER_ensures(RV <= last - first && RV <= kBufferSize - 1 && g_T_constructed == RV && self->tail_ == (__CPROVER_old(self->tail_) + RV) % kBufferSize)
__CPROVER_ensures(RV >= (last - first < kBufferSize - 1 - g_occupancy0 ? last - first : kBufferSize - 1 - g_occupancy0))
/* FIFO: the first pushed element sits at the old tail with the first source value */
__CPROVER_ensures(RV >= 1 ==> self->slots[__CPROVER_old(self->tail_)].value == src[first].value)
__CPROVER_assigns(*self, __CPROVER_object_whole(src), g_last_mo, g_bad_order, g_T_constructed)
#include "Ring_try_push_batch.body.inc"

size_t Ring_try_pop_batch(Ring* self, T_cell dst[NSRC], size_t dest, size_t maxCount)
__CPROVER_requires(CONSUMER_PRE && dest == 0 && g_T_destroyed == 0 && (self->head_ != self->tail_ ==> self->slots[self->head_].value == g_head_value))
__CPROVER_ensures(COMMON_POST)
/* pops min(available as observed, maxCount): at least what was there at entry; each popped element destroyed exactly once; head advanced by as many */
__CPROVER_ensures(RV <= maxCount && RV <= kBufferSize - 1 && g_T_destroyed == RV && self->head_ == (__CPROVER_old(self->head_) + RV) % kBufferSize)
__CPROVER_ensures(RV >= (maxCount < g_occupancy0 ? maxCount : g_occupancy0))
__CPROVER_ensures((RV >= 1 && g_occupancy0 > 0) ==> dst[0].value == g_head_value)
__CPROVER_assigns(*self, __CPROVER_object_whole(dst), g_last_mo, g_bad_order, g_T_destroyed)
#include "Ring_try_pop_batch.body.inc"

/* ------------- quiescent observers and destructor ------------- */
bool Ring_empty(const Ring* self)
__CPROVER_requires(self == g_ring && g_role == 0 && WF(self))
__CPROVER_ensures(RV == (self->head_ == self->tail_))
__CPROVER_assigns(g_last_mo, g_bad_order)
#include "Ring_empty.body.inc"
bool Ring_full(const Ring* self)
__CPROVER_requires(self == g_ring && g_role == 0 && WF(self))
__CPROVER_ensures(RV == (CYC(self->head_, self->tail_) == kBufferSize - 1))
__CPROVER_assigns(g_last_mo, g_bad_order)
#include "Ring_full.body.inc"
size_t Ring_size(const Ring* self)
__CPROVER_requires(self == g_ring && g_role == 0 && WF(self))
__CPROVER_ensures(RV == CYC(self->head_, self->tail_) && RV <= kBufferSize - 1)
__CPROVER_assigns(g_last_mo, g_bad_order)
#include "Ring_size.body.inc"
void Ring_dtor(Ring* self)
__CPROVER_requires(self == g_ring && g_role == 0 && WF(self) && INV_K(self, g_k) && g_k < kBufferSize && g_occupancy0 == CYC(self->head_, self->tail_) && g_T_destroyed == 0)
/* every element still in the ring is destroyed exactly once, nothing else is */
__CPROVER_ensures(self->slots[g_k].live == 0 && g_T_destroyed == g_occupancy0)
__CPROVER_assigns(self->slots, g_last_mo, g_bad_order, g_T_destroyed)
#include "Ring_dtor.body.inc"

#ifdef VERIF_CBMC
static void mk(Ring* r, int role) {
  g_ring = r; g_role = role; g_bad_order = 0; g_T_constructed = 0; g_T_destroyed = 0;
  size_t h = nondet_size_t(), t = nondet_size_t(); __CPROVER_assume(h < kBufferSize && t < kBufferSize);
  r->head_ = h; r->tail_ = t;
  for (size_t j = 0; j < kBufferSize; ++j) { r->slots[j].live = INRANGE(j, h, t) ? 1 : 0; r->slots[j].value = nondet_int(); r->slots[j].moved_from = 0; }
  g_k = nondet_size_t(); __CPROVER_assume(g_k < kBufferSize);
  g_head_value = r->slots[h].value; g_occupancy0 = CYC(h, t);
}
void h_increment(void) { size_t i; increment(i); }
void h_Ring_try_push_move(void) { Ring r; mk(&r, 1); T_cell it; it.live = 1; it.moved_from = 0; Ring_try_push_move(&r, &it); }
void h_Ring_try_push_copy(void) { Ring r; mk(&r, 1); T_cell it; it.live = 1; it.moved_from = 0; Ring_try_push_copy(&r, &it); }
void h_Ring_try_emplace(void) { Ring r; mk(&r, 1); T_tag a; Ring_try_emplace(&r, a); }
void h_Ring_try_pop_ref(void) { Ring r; mk(&r, 2); T_cell it; it.live = 1; it.moved_from = 0; Ring_try_pop_ref(&r, &it); }
void h_Ring_try_pop_opt(void) { Ring r; mk(&r, 2); Ring_try_pop_opt(&r); }
void h_Ring_try_pop_into(void) { Ring r; mk(&r, 2); T_cell st; st.live = 0; Ring_try_pop_into(&r, &st); }
void h_Ring_try_push_batch(void) { Ring r; mk(&r, 1); T_cell src[NSRC]; for (size_t j = 0; j < NSRC; ++j) { src[j].live = 1; src[j].moved_from = 0; } size_t a, b; Ring_try_push_batch(&r, src, a, b); }
void h_Ring_try_pop_batch(void) { Ring r; mk(&r, 2); T_cell dst[NSRC]; for (size_t j = 0; j < NSRC; ++j) { dst[j].live = 1; dst[j].moved_from = 0; } size_t m; Ring_try_pop_batch(&r, dst, 0, m); }
void h_Ring_empty(void) { Ring r; mk(&r, 0); Ring_empty(&r); }
void h_Ring_full(void) { Ring r; mk(&r, 0); Ring_full(&r); }
void h_Ring_size(void) { Ring r; mk(&r, 0); Ring_size(&r); }
void h_Ring_dtor(void) { Ring r; mk(&r, 0); Ring_dtor(&r); }
#endif
