/* C12/C13: stripe partition (initStripeState), alignDownStripe and the claim rule of stripeClaim
 * (dispenso/detail/par_for_stripe.h).  Instantiation: -DIntegerT -DWide -DIS_SIGNED -DWIDE_MAX -DNW_MAX */
#include "prelude.h"
#define RV __CPROVER_return_value
#define FMAX 1048576
/* a stripe whose end is within FMAX+1 chunks of the cursor type's maximum: claims on the exhausted stripe make the cursor wrap */
#define NEAR_MAX(s_end, chunk) ((mathint)(s_end) + (FMAX + 1) * (mathint)(chunk) > WIDE_MAX)
typedef struct ClaimResult { bool ok; IntegerT outBegin; IntegerT outEnd; } ClaimResult;
DEF_MINMAX(uint32_t)
DEF_MINMAX(Wide)
DEF_MINMAX(IntegerT)

/* floor(value/g)*g as a mathematical integer */
#define FLOORMUL(v, g) ((mathint)(v) - ((((mathint)(v) % (mathint)(g)) + (mathint)(g)) % (mathint)(g)))

IntegerT alignDownStripe(IntegerT value, uint32_t granularity)
__CPROVER_requires(granularity >= 1 && granularity <= 64)
__CPROVER_ensures(granularity <= 1 ==> RV == value)
/* when the rounded-down value is representable (otherwise the narrowing wraps; initStripeState clamps the result) */
__CPROVER_ensures(FLOORMUL(value, granularity) >= IT_MIN ==> (mathint)RV == FLOORMUL(value, granularity))
__CPROVER_assigns()
#include "alignDownStripe.body.inc"

/* instantiation at the cursor type (initStripeState aligns the offset from `start`, which is a Wide) */
#pragma push_macro("IntegerT")
#pragma push_macro("IT_MIN")
#undef IntegerT
#undef IT_MIN
#define IntegerT Wide
#define IT_MIN WIDE_MIN
Wide alignDownStripe_Wide(Wide value, uint32_t granularity)
__CPROVER_requires(granularity >= 1 && granularity <= 64)
__CPROVER_ensures(granularity <= 1 ==> RV == value)
__CPROVER_ensures(FLOORMUL(value, granularity) >= WIDE_MIN ==> (mathint)RV == FLOORMUL(value, granularity))
__CPROVER_assigns()
#include "alignDownStripe.body.inc"
#pragma pop_macro("IT_MIN")
#pragma pop_macro("IntegerT")

/* ---- head of stripeClaim: the chunk size a claim uses is the configured one, and the cursor advances by exactly that much ---- */
typedef struct ClaimHead { IntegerT chunkSize; Wide step; Wide prev; } ClaimHead;
ClaimHead stripe_claim_head(IntegerT state_chunkSize, Wide prev_in)
__CPROVER_ensures(RV.chunkSize == state_chunkSize && (mathint)RV.step == (mathint)state_chunkSize && RV.prev == prev_in)
__CPROVER_assigns()
{
  Wide g_step = 0;
#include "stripe_claim_head.slice.inc"
  return (ClaimHead){chunkSize, g_step, prev};
}
/* ---- head of initStripeState: the fields the claims read are the arguments (granularity clamped to >= 1) ---- */
typedef struct InitHead { IntegerT chunkSize; uint32_t granularity; uint32_t numWorkers; } InitHead;
InitHead init_head(uint32_t numWorkers, IntegerT chunkSize, uint32_t granularity)
__CPROVER_ensures(RV.chunkSize == chunkSize && RV.granularity == (granularity < 1 ? 1 : granularity) && RV.numWorkers == numWorkers)
__CPROVER_assigns()
{
  uint32_t state_numWorkers = 0, state_numMaskWords = 0, state_granularity = 0; IntegerT state_chunkSize = 0;
#include "init_head.slice.inc"
  return (InitHead){state_chunkSize, state_granularity, state_numWorkers};
}

/* ---- claim rule: the statements of stripeClaim after `prev = s.next.fetch_add(chunkSize)` ----
 * ghost: next0 = the cursor value initStripeState stored; prev = next0 + j*chunkSize for the j-th claim on this stripe
 * (atomic RMW axiom: each j is returned exactly once). */
ClaimResult stripe_claim_rule(Wide prev, Wide s_end, IntegerT chunkSize, Wide next0, Wide j)
__CPROVER_requires(chunkSize >= 1 && IT_MIN <= next0 && next0 <= s_end && s_end <= IT_MAX && j >= 0)
__CPROVER_requires((mathint)prev == (mathint)next0 + (mathint)j * (mathint)chunkSize)
/* chunkSize never exceeds the range (calcChunkSize), and at most FMAX claims hit a stripe after it is exhausted (assumption) */
__CPROVER_requires((mathint)chunkSize <= (mathint)IT_MAX - (mathint)IT_MIN && (mathint)prev <= (mathint)s_end + FMAX * (mathint)chunkSize)
#ifdef KF_EXCLUDE
__CPROVER_requires(!(KF_EXCLUDE))
#endif
/* the cursor after this claim's fetch_add must not wrap: otherwise a later claim sees a small `prev` again */
__CPROVER_ensures((mathint)prev + (mathint)chunkSize <= WIDE_MAX)
__CPROVER_ensures(RV.ok == (prev < s_end))
__CPROVER_ensures(RV.ok ==> ((mathint)RV.outBegin == (mathint)prev && (mathint)RV.outEnd == ((mathint)prev + (mathint)chunkSize < (mathint)s_end ? (mathint)prev + (mathint)chunkSize : (mathint)s_end)))
__CPROVER_ensures(RV.ok ==> (next0 <= RV.outBegin && RV.outBegin < RV.outEnd && RV.outEnd <= s_end))
__CPROVER_assigns()
{
  IntegerT outBegin = 0, outEnd = 0;
#include "stripe_claim_rule.slice.inc"
}

/* consecutive successful claims j and j+1 are adjacent; claim 0 starts at next0; the last successful claim ends at s_end */
void c12_stripe_claims_tile(Wide s_end, IntegerT chunkSize, Wide next0, Wide j)
__CPROVER_requires(chunkSize >= 1 && IT_MIN <= next0 && next0 < s_end && s_end <= IT_MAX && j >= 0)
__CPROVER_requires((mathint)chunkSize <= (mathint)IT_MAX - (mathint)IT_MIN && (mathint)next0 + ((mathint)j + 1) * (mathint)chunkSize <= (mathint)s_end + FMAX * (mathint)chunkSize)
__CPROVER_requires(!NEAR_MAX(s_end, chunkSize) && (mathint)j <= 4611686018427387904)
__CPROVER_assigns()
{
  ClaimResult a = stripe_claim_rule((Wide)((mathint)next0 + (mathint)j * (mathint)chunkSize), s_end, chunkSize, next0, j);
  ClaimResult b = stripe_claim_rule((Wide)((mathint)next0 + ((mathint)j + 1) * (mathint)chunkSize), s_end, chunkSize, next0, (Wide)((mathint)j + 1));
  if (j == 0) __CPROVER_assert(a.ok && a.outBegin == next0, "first claim starts at the stripe's initial cursor");
  if (a.ok && b.ok) __CPROVER_assert(a.outEnd == b.outBegin, "claim j ends where claim j+1 starts");
  if (a.ok && !b.ok) __CPROVER_assert(a.outEnd == s_end, "the last successful claim ends at the stripe end");
  if (!a.ok) __CPROVER_assert(!b.ok, "once a claim fails all later claims fail");
}

/* ---- partition loop of initStripeState: stripes[i] = [next_i, end_i) ---- */
typedef struct StripeInit { uint32_t activeCount; IntegerT cursor; IntegerT chunkSize; uint32_t granularity; } StripeInit;
StripeInit init_stripes(IntegerT start, IntegerT end, uint32_t numWorkers, uint32_t state_granularity, Wide stripes_end[NW_MAX], Wide stripes_next[NW_MAX],
                        bool stripes_retired[NW_MAX], uint32_t k, IntegerT chunkSize)
__CPROVER_requires(start < end && numWorkers >= 1 && numWorkers <= NW_MAX && state_granularity >= 1 && state_granularity <= 64 && k < numWorkers)
__CPROVER_requires(chunkSize >= 1)
#ifdef C13_GRANULAR
__CPROVER_requires((mathint)chunkSize % (mathint)state_granularity == 0)   /* calcChunkSize's postcondition */
#endif
__CPROVER_requires((mathint)end - (mathint)start <= I64_MAX)
#ifdef C13_GRANULAR
/* parallel_for hands the stripes the trimmed range (computeGranularity): its size is a multiple of the granularity */
__CPROVER_requires(((mathint)end - (mathint)start) % (mathint)state_granularity == 0)
#endif
__CPROVER_ensures(RV.cursor == end)
/* the configuration the claims read after the partition loop: a positive chunk size (C12), which is still a whole number of granules (C13) */
__CPROVER_ensures(RV.chunkSize >= 1 && RV.granularity == state_granularity)
#ifdef C13_GRANULAR
__CPROVER_ensures((mathint)RV.chunkSize % (mathint)state_granularity == 0)
#endif
/* ghost index k: stripe k is [next_k, end_k) inside [start,end], stripe 0 starts at start, the last ends at end, k+1 starts where k ends */
__CPROVER_ensures((mathint)start <= (mathint)stripes_next[k] && stripes_next[k] <= stripes_end[k] && (mathint)stripes_end[k] <= (mathint)end)
__CPROVER_ensures(k == 0 ==> (mathint)stripes_next[k] == (mathint)start)
__CPROVER_ensures(k + 1 == numWorkers ==> (mathint)stripes_end[k] == (mathint)end)
__CPROVER_ensures(k + 1 < numWorkers ==> stripes_next[k + 1] == stripes_end[k])
__CPROVER_ensures(stripes_retired[k] == !(stripes_next[k] < stripes_end[k]))
#ifdef C13_GRANULAR
/* C13: every stripe boundary is at a multiple of the granularity from `start` (so fixed-size claims stay multiples) */
__CPROVER_ensures(k + 1 < numWorkers ==> ((mathint)stripes_end[k] - (mathint)start) % (mathint)state_granularity == 0)
#endif
{
  IntegerT state_chunkSize = chunkSize; uint32_t state_numWorkers = numWorkers;
#include "init_stripes.slice.inc"
  return (StripeInit){activeCount, cursor, state_chunkSize, state_granularity};
}

/* C13 (stripe path): a stripe that starts and ends at multiples of g from `start`, claimed in chunkSize (multiple of g) steps,
 * only hands out ranges whose size is a multiple of g -- except possibly the claim that reaches the LAST stripe's end */
void c13_stripe_granular(Wide s_end, IntegerT chunkSize, Wide next0, Wide j, uint32_t granularity)
__CPROVER_requires(chunkSize >= 1 && IT_MIN <= next0 && next0 < s_end && s_end <= IT_MAX && j >= 0 && granularity >= 1 && granularity <= 64)
__CPROVER_requires((mathint)chunkSize <= (mathint)IT_MAX - (mathint)IT_MIN && (mathint)next0 + (mathint)j * (mathint)chunkSize <= (mathint)s_end + FMAX * (mathint)chunkSize)
__CPROVER_requires(!NEAR_MAX(s_end, chunkSize) && (mathint)j <= 4611686018427387904)
__CPROVER_requires((mathint)chunkSize % (mathint)granularity == 0 && ((mathint)s_end - (mathint)next0) % (mathint)granularity == 0)
__CPROVER_assigns()
{
  ClaimResult a = stripe_claim_rule((Wide)((mathint)next0 + (mathint)j * (mathint)chunkSize), s_end, chunkSize, next0, j);
  mathint qc = (mathint)chunkSize / (mathint)granularity;
  mathint qs = ((mathint)s_end - (mathint)next0) / (mathint)granularity;
  __CPROVER_assert((mathint)chunkSize == qc * (mathint)granularity && (mathint)s_end - (mathint)next0 == qs * (mathint)granularity, "witnesses of the divisibility hypotheses");
  /* "multiple of the granularity" with an explicit witness: a full chunk (qc units) or what is left of the stripe (qs - j*qc units) */
  if (a.ok) __CPROVER_assert((mathint)a.outEnd - (mathint)a.outBegin == qc * (mathint)granularity ||
                             (mathint)a.outEnd - (mathint)a.outBegin == (qs - (mathint)j * qc) * (mathint)granularity, "claimed range is a multiple of the granularity");
}
