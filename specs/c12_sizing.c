/* C12/C13/C48: sizing arithmetic of parallel_for (dispenso/parallel_for.h) and the chunk->range rule of the dynamic
 * workers (dispenso/detail/par_for_dynamic.h).  Instantiation: -DIntegerT -DU -Dsize_type -DIT_MAX -DIS_SIGNED. */
#include "prelude.h"
#define RV __CPROVER_return_value

typedef struct ChunkedRange {
#include "ChunkedRange.fields.inc"
} ChunkedRange;
typedef struct GranularityInfo
#include "GranularityInfo.fields.inc"
GranularityInfo;
typedef struct ChunkSizingResult { size_type maxThreads; bool isStatic; } ChunkSizingResult;
typedef struct Tuple2 { size_type _0; size_type _1; } Tuple2;
typedef struct PairII { IntegerT first; IntegerT second; } PairII;

static size_type MIN_size_type(size_type a, size_type b) { return b < a ? b : a; }
static size_type MAX_size_type(size_type a, size_type b) { return a < b ? b : a; }
static uint32_t MAX_uint32_t(uint32_t a, uint32_t b) { return a < b ? b : a; }

#define SIZE(r) ((mathint)(r)->end - (mathint)(r)->start)
/* dynamic-path size limit: intermediate sums such as size + roughChunks - 1 must be representable */
#define SIZE_LIMIT 4611686018427387904

size_type ChunkedRange_size(const ChunkedRange* self)
__CPROVER_requires(self->start <= self->end && SIZE(self) <= I64_MAX)
__CPROVER_ensures((mathint)RV == SIZE(self))
__CPROVER_assigns()
#include "ChunkedRange_size.body.inc"

bool ChunkedRange_isAuto(const ChunkedRange* self)
__CPROVER_ensures(RV == (self->chunk == 0))
__CPROVER_assigns()
#include "ChunkedRange_isAuto.body.inc"

bool ChunkedRange_isStatic(const ChunkedRange* self)
__CPROVER_ensures(RV == (self->chunk == IT_MAX))
__CPROVER_assigns()
#include "ChunkedRange_isStatic.body.inc"

/* ---- computeGranularity: C13's trimmed range ---- */
GranularityInfo computeGranularity(const ChunkedRange* range, uint32_t requested)
__CPROVER_requires(range->start < range->end && SIZE(range) <= I64_MAX)
__CPROVER_ensures(RV.granularity >= 1)
__CPROVER_ensures((range->chunk != 0 && range->chunk != IT_MAX) ==> RV.granularity == 1)
__CPROVER_ensures((range->chunk == 0 || range->chunk == IT_MAX) ==> RV.granularity == (requested > 1 ? requested : 1))
__CPROVER_ensures(range->start <= RV.trimmedEnd && RV.trimmedEnd <= range->end)
__CPROVER_ensures(((mathint)RV.trimmedEnd - (mathint)range->start) % (mathint)RV.granularity == 0)
__CPROVER_ensures((mathint)range->end - (mathint)RV.trimmedEnd < (mathint)RV.granularity)
__CPROVER_ensures(RV.hasTail == (RV.trimmedEnd != range->end))
__CPROVER_assigns()
#include "computeGranularity.body.inc"

/* ---- adjustChunkSizing ---- */
ChunkSizingResult adjustChunkSizing(const ChunkedRange* range, size_type maxThreads, bool isStatic, uint32_t minItemsPerChunk,
                                    size_type poolThreads, bool wait)
__CPROVER_requires(range->start < range->end && SIZE(range) <= I64_MAX - 1)
__CPROVER_requires(maxThreads >= 1 && (mathint)maxThreads <= 2147483647 && minItemsPerChunk >= 1 && poolThreads >= 1 && (mathint)poolThreads <= 2147483647)
__CPROVER_requires(isStatic == (range->chunk == IT_MAX) && range->chunk >= 0)
/* C48: never more threads than asked for, never more than pool + caller */
__CPROVER_ensures(RV.maxThreads >= 0 && RV.maxThreads <= maxThreads && (mathint)RV.maxThreads <= (mathint)poolThreads + 1)
__CPROVER_ensures(isStatic ==> RV.isStatic)
/* what the dynamic path (auto chunking) relies on: enough items per worker for calcChunkSize's loop to terminate */
__CPROVER_ensures((!RV.isStatic && range->chunk == 0 && RV.maxThreads >= 2) ==>
                  SIZE(range) / ((mathint)RV.maxThreads + (wait ? 1 : 0)) >= (mathint)minItemsPerChunk || minItemsPerChunk == 1)
__CPROVER_ensures((!RV.isStatic && range->chunk == 0 && RV.maxThreads >= 2 && minItemsPerChunk == 1) ==>
                  SIZE(range) > (mathint)poolThreads + (wait ? 1 : 0))
__CPROVER_ensures((mathint)RV.maxThreads <= SIZE(range) || RV.maxThreads <= 1 || minItemsPerChunk == 1)
__CPROVER_assigns()
#include "adjustChunkSizing.body.inc"

/* ---- calcChunkSize (OtherInt = size_type) ---- */
Tuple2 ChunkedRange_calcChunkSize(const ChunkedRange* self, size_type numLaunched, bool oneOnCaller, size_type minChunkSize,
                                  uint32_t granularity, size_type maxDynFactor)
__CPROVER_requires(self->start < self->end && SIZE(self) <= SIZE_LIMIT && self->chunk != IT_MAX && self->chunk >= 0)
__CPROVER_requires(numLaunched >= 0 && (mathint)numLaunched + (oneOnCaller ? 1 : 0) >= 1 && (mathint)numLaunched <= 2147483647)
__CPROVER_requires(granularity >= 1 && minChunkSize >= 1 && (mathint)minChunkSize <= 4294967295 && maxDynFactor >= 1 && maxDynFactor <= 64)
__CPROVER_requires(self->chunk != 0 ==> granularity == 1)
/* auto chunking: at least minChunkSize items per worker, so the do-while loop ends before dynFactor reaches 0 */
__CPROVER_requires(self->chunk == 0 ==> SIZE(self) / ((mathint)numLaunched + (oneOnCaller ? 1 : 0)) >= (mathint)minChunkSize)
__CPROVER_requires(self->chunk == 0 && granularity > 1 ==> SIZE(self) % (mathint)granularity == 0)
#ifdef KF_EXCLUDE
__CPROVER_requires(!(KF_EXCLUDE))
#endif
__CPROVER_ensures(RV._0 >= 1 && RV._1 >= 1)
__CPROVER_ensures(self->chunk != 0 ==> (mathint)RV._0 == (mathint)((U)self->chunk))
/* numChunks == ceil(size / chunkSize) */
__CPROVER_ensures(((mathint)RV._1 - 1) * (mathint)RV._0 < SIZE(self) && SIZE(self) <= (mathint)RV._1 * (mathint)RV._0)
__CPROVER_ensures(self->chunk == 0 ==> (mathint)RV._0 % (mathint)granularity == 0)
__CPROVER_ensures(self->chunk == 0 ==> RV._0 >= minChunkSize)
__CPROVER_assigns()
#include "ChunkedRange_calcChunkSize.body.inc"

/* ---- the chunk -> [begin,end) rule of the dynamic workers: `cur` is the value returned by index.fetch_add(1) ---- */
#define DYN_PRE(start, end, chunkSize, numChunks) ((start) < (end) && (mathint)(end) - (mathint)(start) <= I64_MAX && (chunkSize) >= 1 && (numChunks) >= 1 && \
   ((mathint)(numChunks) - 1) * (mathint)(chunkSize) < (mathint)(end) - (mathint)(start) && (mathint)(end) - (mathint)(start) <= (mathint)(numChunks) * (mathint)(chunkSize))
PairII dyn_single_chunk(IntegerT start, IntegerT end, size_type cur, size_type chunkSize, size_type numChunks)
__CPROVER_requires(DYN_PRE(start, end, chunkSize, numChunks) && 0 <= cur && cur < numChunks)
__CPROVER_ensures((mathint)RV.first == (mathint)start + (mathint)cur * (mathint)chunkSize)
__CPROVER_ensures((mathint)RV.second == ((mathint)cur + 1 == (mathint)numChunks ? (mathint)end : (mathint)start + ((mathint)cur + 1) * (mathint)chunkSize))
__CPROVER_ensures(start <= RV.first && RV.first < RV.second && RV.second <= end)
__CPROVER_assigns()
{
#include "dyn_single_chunk.slice.inc"
}
PairII dyn_multi_chunk(IntegerT start, IntegerT end, size_t gr_startChunk, size_t cur, size_type chunkSize, size_type numChunks)
__CPROVER_requires(DYN_PRE(start, end, chunkSize, numChunks) && (mathint)gr_startChunk + (mathint)cur < (mathint)numChunks)
__CPROVER_ensures((mathint)RV.first == (mathint)start + ((mathint)gr_startChunk + (mathint)cur) * (mathint)chunkSize)
__CPROVER_ensures((mathint)RV.second == ((mathint)gr_startChunk + (mathint)cur + 1 == (mathint)numChunks ? (mathint)end : (mathint)start + ((mathint)gr_startChunk + (mathint)cur + 1) * (mathint)chunkSize))
__CPROVER_ensures(start <= RV.first && RV.first < RV.second && RV.second <= end)
__CPROVER_assigns()
{
#include "dyn_multi_chunk.slice.inc"
}

/* property-level lemma from the contract: chunk cur ends where chunk cur+1 begins; 0 starts at start; last ends at end */
void c12_dynamic_partition(IntegerT start, IntegerT end, size_type cur, size_type chunkSize, size_type numChunks)
__CPROVER_requires(DYN_PRE(start, end, chunkSize, numChunks) && 0 <= cur && cur < numChunks)
__CPROVER_assigns()
{
  PairII a = dyn_single_chunk(start, end, cur, chunkSize, numChunks);
  if (cur == 0) __CPROVER_assert(a.first == start, "chunk 0 starts at start");
  if (cur + 1 == numChunks) { __CPROVER_assert(a.second == end, "last chunk ends at end"); }
  else {
    PairII b = dyn_single_chunk(start, end, cur + 1, chunkSize, numChunks);
    __CPROVER_assert(a.second == b.first, "chunk cur ends where chunk cur+1 starts");
  }
}
/* C13: with a granularity-multiple chunkSize and range size, every dynamic chunk is a multiple of the granularity */
void c13_dynamic_granular(IntegerT start, IntegerT end, size_type cur, size_type chunkSize, size_type numChunks, uint32_t granularity)
__CPROVER_requires(DYN_PRE(start, end, chunkSize, numChunks) && 0 <= cur && cur < numChunks && granularity >= 1)
__CPROVER_requires((mathint)chunkSize % (mathint)granularity == 0 && ((mathint)end - (mathint)start) % (mathint)granularity == 0)
__CPROVER_assigns()
{
  PairII a = dyn_single_chunk(start, end, cur, chunkSize, numChunks);
  mathint qc = (mathint)chunkSize / (mathint)granularity;
  mathint qs = ((mathint)end - (mathint)start) / (mathint)granularity;
  __CPROVER_assert((mathint)chunkSize == qc * (mathint)granularity && (mathint)end - (mathint)start == qs * (mathint)granularity, "witnesses of the divisibility hypotheses");
  /* "multiple of the granularity" with an explicit witness: a full chunk (qc units) or the rest of the range (qs - cur*qc units) */
  __CPROVER_assert((mathint)a.second - (mathint)a.first == qc * (mathint)granularity ||
                   (mathint)a.second - (mathint)a.first == (qs - (mathint)cur * qc) * (mathint)granularity, "dynamic chunk size is a multiple of the granularity");
}
