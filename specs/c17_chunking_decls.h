/* contracts of staticChunkSize / staticChunkSizeGranular -- ONE text, used both where the bodies are verified
 * (c17_chunking.c) and where callers are verified against the contract only (declarations below). */
#ifndef C17_CHUNKING_DECLS_H
#define C17_CHUNKING_DECLS_H
typedef struct StaticChunking
#include "StaticChunking.fields.inc"
StaticChunking;
#define RV __CPROVER_return_value
#ifdef KF_EXCLUDE_SCS
#define KF_SCS __CPROVER_requires(!(KF_EXCLUDE_SCS))
#else
#define KF_SCS
#endif

/* Property statement -> postconditions.  With T = transitionTaskIndex and C = ceilChunkSize, chunks [0,T) have C
 * items and chunks [T,chunks) have C-unit items (unit = 1, or the granularity).  "cover every item exactly once":
 * T*C + (chunks-T)*(C-unit) == items over mathematical integers; "larger first / differ by at most one unit": the
 * shape itself plus 1 <= T <= chunks and C-unit >= 0 wherever it is used. */
#define CONTRACT_staticChunkSize \
__CPROVER_requires(chunks >= 1 && items >= 0 && items <= I64_MAX - chunks) \
KF_SCS \
__CPROVER_ensures(1 <= RV.transitionTaskIndex && RV.transitionTaskIndex <= chunks) \
__CPROVER_ensures(RV.ceilChunkSize >= 0 && RV.ceilChunkSize <= items) \
__CPROVER_ensures(RV.transitionTaskIndex < chunks ==> RV.ceilChunkSize >= 1) \
__CPROVER_ensures(items > 0 ==> RV.ceilChunkSize >= 1) \
__CPROVER_ensures((mathint)RV.transitionTaskIndex * RV.ceilChunkSize + \
                  ((mathint)chunks - RV.transitionTaskIndex) * ((mathint)RV.ceilChunkSize - 1) == items) \
__CPROVER_assigns()

#define CONTRACT_staticChunkSizeGranular \
__CPROVER_requires(chunks >= 1 && granularity >= 1 && items >= 0) \
__CPROVER_requires(items % (ssize_t)granularity == 0) \
__CPROVER_requires(items / (ssize_t)granularity <= I64_MAX - chunks) \
KF_SCS \
__CPROVER_ensures(1 <= RV.transitionTaskIndex && RV.transitionTaskIndex <= chunks) \
__CPROVER_ensures(RV.ceilChunkSize >= 0 && RV.ceilChunkSize <= items) \
__CPROVER_ensures(RV.ceilChunkSize % (ssize_t)granularity == 0) \
__CPROVER_ensures(RV.transitionTaskIndex < chunks ==> RV.ceilChunkSize >= (ssize_t)granularity) \
__CPROVER_ensures(items > 0 ==> RV.ceilChunkSize >= (ssize_t)granularity) \
__CPROVER_ensures((mathint)RV.transitionTaskIndex * RV.ceilChunkSize + \
                  ((mathint)chunks - RV.transitionTaskIndex) * ((mathint)RV.ceilChunkSize - (mathint)granularity) == items) \
__CPROVER_assigns()

#ifndef C17_DEFINE_BODIES
StaticChunking staticChunkSize(ssize_t items, ssize_t chunks) CONTRACT_staticChunkSize;
StaticChunking staticChunkSizeGranular(ssize_t items, ssize_t chunks, uint32_t granularity) CONTRACT_staticChunkSizeGranular;
#endif
#endif
