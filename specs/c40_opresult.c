/* C40: dispenso::detail::OpResult<T> (dispenso/detail/op_result.h) against std::optional semantics with balanced lifetimes.
 * Rendering: buf_ is one T_cell (ghost lifetime), ptr_ points at it or is null.  T is an int tag (ghost/lifetime.h). */
#include "prelude.h"
#include "lifetime.h"
#define RV __CPROVER_return_value
unsigned g_T_constructed, g_T_destroyed;

typedef struct OpResult { T_cell buf_; T_cell* ptr_; } OpResult;

/* class invariant: engaged <=> ptr_ == buf_ <=> buf_ holds a live object */
#define INV(o) (((o)->ptr_ == (T_cell*)0 || (o)->ptr_ == &(o)->buf_) && ((o)->buf_.live == ((o)->ptr_ != (T_cell*)0 ? 1 : 0)))
#define ENGAGED(o) ((o)->ptr_ != (T_cell*)0)
#define VALUE(o) ((o)->buf_.value)
#define OLD_ENGAGED(o) (__CPROVER_old((o)->ptr_) != (T_cell*)0)
#define OLD_VALUE(o) (__CPROVER_old((o)->buf_.value))

static bool OpResult_has(const OpResult* o) { return o->ptr_ != (T_cell*)0; }   /* operator bool() const { return ptr_; } */

/* constructors run on raw storage: no live object yet */
#define RAW(o) ((o)->buf_.live == 0)

void OpResult_ctor_default(OpResult* self)
__CPROVER_requires(RAW(self))
__CPROVER_ensures(INV(self) && !ENGAGED(self))
__CPROVER_assigns(self->ptr_)
#include "OpResult_ctor_default.body.inc"

void OpResult_ctor_value(OpResult* self, T_tag u)
__CPROVER_requires(RAW(self))
__CPROVER_ensures(INV(self) && ENGAGED(self) && VALUE(self) == u)
__CPROVER_assigns(self->ptr_, self->buf_, g_T_constructed)
#include "OpResult_ctor_value.body.inc"

void OpResult_ctor_copy(OpResult* self, const OpResult* oth)
__CPROVER_requires(RAW(self) && INV(oth))
__CPROVER_ensures(INV(self) && INV(oth) && ENGAGED(self) == ENGAGED(oth) && (ENGAGED(self) ==> VALUE(self) == VALUE(oth)))
__CPROVER_assigns(self->ptr_, self->buf_, g_T_constructed)
#include "OpResult_ctor_copy.body.inc"

void OpResult_ctor_move(OpResult* self, OpResult* oth)
__CPROVER_requires(RAW(self) && INV(oth))
#ifdef KF_EXCLUDE
__CPROVER_requires(!(KF_EXCLUDE))
#endif
__CPROVER_ensures(INV(self) && ENGAGED(self) == OLD_ENGAGED(oth) && (ENGAGED(self) ==> VALUE(self) == OLD_VALUE(oth)))
/* the source keeps a valid state: its contained object is either still owned by it or has been destroyed */
__CPROVER_ensures(INV(oth))
__CPROVER_assigns(self->ptr_, self->buf_, oth->ptr_, oth->buf_, g_T_constructed, g_T_destroyed)
#include "OpResult_ctor_move.body.inc"

T_cell* OpResult_emplace(OpResult* self, T_tag args);

OpResult* OpResult_assign_copy(OpResult* self, const OpResult* oth)
__CPROVER_requires(INV(self))
__CPROVER_requires(INV(oth))
__CPROVER_ensures(RV == self && INV(self) && INV(oth) && ENGAGED(self) == OLD_ENGAGED(oth) && (ENGAGED(self) ==> VALUE(self) == OLD_VALUE(oth)))
__CPROVER_ensures(oth != self ==> (ENGAGED(oth) == OLD_ENGAGED(oth) && VALUE(oth) == OLD_VALUE(oth)))
__CPROVER_assigns(self->ptr_, self->buf_, g_T_constructed, g_T_destroyed)
#include "OpResult_assign_copy.body.inc"

OpResult* OpResult_assign_move(OpResult* self, OpResult* oth)
__CPROVER_requires(INV(self))
__CPROVER_requires(INV(oth))
#ifdef KF_EXCLUDE
__CPROVER_requires(!(KF_EXCLUDE))
#endif
__CPROVER_ensures(RV == self && INV(self) && ENGAGED(self) == OLD_ENGAGED(oth) && (ENGAGED(self) ==> VALUE(self) == OLD_VALUE(oth)))
__CPROVER_ensures(INV(oth))
__CPROVER_assigns(self->ptr_, self->buf_, oth->ptr_, oth->buf_, g_T_constructed, g_T_destroyed)
#include "OpResult_assign_move.body.inc"

void OpResult_dtor(OpResult* self)
__CPROVER_requires(INV(self))
/* every contained object is destroyed: nothing live is left behind in the storage */
__CPROVER_ensures(self->buf_.live == 0)
__CPROVER_ensures(g_T_destroyed == __CPROVER_old(g_T_destroyed) + (OLD_ENGAGED(self) ? 1 : 0))
__CPROVER_assigns(self->buf_, g_T_destroyed)
#include "OpResult_dtor.body.inc"

T_cell* OpResult_emplace(OpResult* self, T_tag args)
__CPROVER_requires(INV(self))
__CPROVER_ensures(INV(self) && ENGAGED(self) && VALUE(self) == args && RV == self->ptr_)
__CPROVER_ensures(g_T_destroyed == __CPROVER_old(g_T_destroyed) + (OLD_ENGAGED(self) ? 1 : 0))
__CPROVER_assigns(self->ptr_, self->buf_, g_T_constructed, g_T_destroyed)
#include "OpResult_emplace.body.inc"

bool OpResult_has_value(const OpResult* self)
__CPROVER_requires(INV(self))
__CPROVER_ensures(RV == ENGAGED(self))
__CPROVER_assigns()
#include "OpResult_has_value.body.inc"

bool OpResult_bool(const OpResult* self)
__CPROVER_requires(INV(self))
__CPROVER_ensures(RV == ENGAGED(self))
__CPROVER_assigns()
#include "OpResult_bool.body.inc"

T_cell* OpResult_value(OpResult* self)
__CPROVER_requires(INV(self) && ENGAGED(self))
__CPROVER_ensures(RV == &self->buf_ && RV->live == 1)
__CPROVER_assigns()
#include "OpResult_value.body.inc"

#ifdef VERIF_CBMC
#define GR() (g_T_constructed = 0, g_T_destroyed = 0)
_Bool nondet_bool(void);
/* harness objects are locals.  Pointer-linked states are built by assignment (CBMC resolves dereferences through the
 * value set of assignments, not through assumed equalities): an arbitrary state satisfying the class invariant, or raw storage */
static void mk_valid(OpResult* o) { _Bool e = nondet_bool(); o->ptr_ = e ? &o->buf_ : (T_cell*)0; o->buf_.live = e ? 1 : 0; }
static void mk_raw(OpResult* o) { o->buf_.live = 0; }
void h_OpResult_ctor_default(void) { GR(); OpResult s; mk_raw(&s); OpResult_ctor_default(&s); }
void h_OpResult_ctor_value(void) { GR(); OpResult s; mk_raw(&s); T_tag u; OpResult_ctor_value(&s, u); }
void h_OpResult_ctor_copy(void) { GR(); OpResult s, o; mk_raw(&s); mk_valid(&o); OpResult_ctor_copy(&s, &o); }
void h_OpResult_ctor_move(void) { GR(); OpResult s, o; mk_raw(&s); mk_valid(&o); OpResult_ctor_move(&s, &o); }
void h_OpResult_assign_copy(void) { GR(); OpResult s, o; mk_valid(&s); mk_valid(&o); _Bool alias; OpResult_assign_copy(&s, alias ? &s : &o); }
void h_OpResult_assign_move(void) { GR(); OpResult s, o; mk_valid(&s); mk_valid(&o); _Bool alias; OpResult_assign_move(&s, alias ? &s : &o); }
void h_OpResult_dtor(void) { GR(); OpResult s; mk_valid(&s); OpResult_dtor(&s); }
void h_OpResult_emplace(void) { GR(); OpResult s; mk_valid(&s); T_tag a; OpResult_emplace(&s, a); }
void h_OpResult_has_value(void) { OpResult s; mk_valid(&s); OpResult_has_value(&s); }
void h_OpResult_bool(void) { OpResult s; mk_valid(&s); OpResult_bool(&s); }
void h_OpResult_value(void) { OpResult s; mk_valid(&s); OpResult_value(&s); }
#endif
