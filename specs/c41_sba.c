/* C41: SmallBufferAllocator (dispenso/small_buffer_allocator.h, .cpp, detail/small_buffer_allocator_impl.h).
 *  (a) size-class selection: getOrdinal + the ordinal switches map a power-of-two request N <= 256 to a chunk size >= N that is a multiple of N
 *  (b) thread-local stack discipline of alloc()/dealloc(): only free blocks are on the stack, pops hand out a free block and
 *      mark it allocated, pushes take an allocated block; count stays inside [0, kMaxNumTLBuffers)
 *  (c) backingStoreLock: backingStore is touched only while the lock is owned; ownership comes only from an RMW that saw 0 */
#include "prelude.h"
#include "atomics.h"
#define RV __CPROVER_return_value
int g_last_mo;
DEF_MINMAX(ssize_t)

uint32_t log2const64(uint64_t v)
__CPROVER_requires(v != 0)
__CPROVER_ensures(RV < 64 && (v >> RV) == 1)
__CPROVER_assigns()
;   /* proved under C44 */
#define log2const(x) log2const64((uint64_t)(x))

size_t getOrdinal(size_t blockSize)
__CPROVER_requires(blockSize >= 1 && blockSize <= 256)
__CPROVER_ensures(RV <= 6)
__CPROVER_assigns()
#include "getOrdinal.body.inc"

/* chunk size selected by the ordinal switch of allocSmallBufferImpl / deallocSmallBufferImpl / approxBytesAllocatedSmallBufferImpl:
 * generated from the case labels and template arguments of the three switches (ORD_TABLE_ALLOC etc.) */
static size_t chunk_of_ordinal_alloc(size_t ordinal) { switch (ordinal) { ORD_TABLE_ALLOC default: return 0; } }
static size_t chunk_of_ordinal_dealloc(size_t ordinal) { switch (ordinal) { ORD_TABLE_DEALLOC default: return 0; } }
static size_t chunk_of_ordinal_bytes(size_t ordinal) { switch (ordinal) { ORD_TABLE_BYTES default: return 0; } }

size_t c41_size_class(size_t N)
__CPROVER_requires(N >= 1 && N <= 256 && (N & (N - 1)) == 0)
/* the block handed out for allocSmallBuffer<N>() has at least N bytes, and its chunk size is a multiple of N (chunks are carved at
 * multiples of the chunk size from a block aligned to the chunk size, so the block is aligned to N) */
__CPROVER_ensures(RV >= N && RV % N == 0 && RV <= 256)
/* allocation, deallocation and accounting agree on the size class */
__CPROVER_ensures(RV == chunk_of_ordinal_dealloc(getOrdinal(N)) && RV == chunk_of_ordinal_bytes(getOrdinal(N)))
__CPROVER_assigns()
{ return chunk_of_ordinal_alloc(getOrdinal(N)); }

/* ---------------- requests larger than kMaxSmallBufferSize: straight to alignedMalloc ---------------- */
size_t KBLOCK_SYM;                                   /* symbolic template argument kBlockSize */
#define kBlockSize KBLOCK_SYM
/* alignedMalloc contracts (two-argument form proved under C44; the one-argument form aligns to the cache line) */
size_t G_alignedMalloc2(size_t bytes, size_t alignment)
__CPROVER_requires(alignment != 0 && (alignment & (alignment - 1)) == 0)
__CPROVER_ensures(RV != 0 && RV % alignment == 0)
__CPROVER_assigns()
;
size_t G_alignedMalloc1(size_t bytes)
__CPROVER_ensures(RV != 0 && RV % KCACHELINE == 0)
__CPROVER_assigns()
;
size_t allocSmallOrLarge_large(void)
__CPROVER_requires(KBLOCK_SYM > 256 && KBLOCK_SYM <= ((size_t)1 << 40) && (KBLOCK_SYM & (KBLOCK_SYM - 1)) == 0)
/* allocSmallBuffer<N>() returns a block aligned to N also beyond the pooled sizes */
__CPROVER_ensures(RV != 0 && RV % KBLOCK_SYM == 0)
__CPROVER_assigns()
#include "allocSmallOrLarge_large.body.inc"

/* ---------------- (b) thread-local stack ---------------- */
#define NBLK 64                       /* ghost universe of block ids */
enum { ST_CENTRAL = 0, ST_TL = 1, ST_ALLOCATED = 2 };
unsigned char g_state[NBLK];
size_t tlBuffers[KMAXTL]; size_t tlCount;       /* static thread_local char* tlBuffers[kMaxNumTLBuffers]; size_t tlCount */
size_t g_k;                                      /* ghost stack index */
bool g_double_handout, g_bad_free;
#define kIdealNumTLBuffers ((size_t)KIDEAL)
#define kMaxNumTLBuffers ((size_t)KMAXTL)
#define STACK_OK (tlCount < kMaxNumTLBuffers && (g_k < tlCount ==> (tlBuffers[g_k] < NBLK && g_state[tlBuffers[g_k]] == ST_TL)))
static void registerCleanup(void) {}
/* stub of grabFromCentralStore: between 1 and kIdealNumTLBuffers free blocks are moved from the central store to the stack */
size_t grabFromCentralStore(size_t* buffers)
__CPROVER_requires(tlCount == 0)
__CPROVER_ensures(RV >= 1 && RV <= kIdealNumTLBuffers)
/* every grabbed entry is a free block now on this stack (stated for the entry alloc() pops next: index RV-1) */
__CPROVER_ensures(tlBuffers[RV - 1] < NBLK && g_state[tlBuffers[RV - 1]] == ST_TL)
__CPROVER_assigns(tlBuffers, g_state)
;
size_t g_id;    /* ghost block id */
void recycleToCentralStore(size_t* buffers, size_t numToRecycle)
__CPROVER_requires(numToRecycle == kIdealNumTLBuffers && buffers == tlBuffers + kIdealNumTLBuffers)
/* recycling moves free blocks to the central store: it never turns a block into an allocated one */
__CPROVER_ensures(g_state[g_id] == ST_ALLOCATED ==> __CPROVER_old(g_state[g_id]) == ST_ALLOCATED)
__CPROVER_assigns(g_state)
;
static size_t G_pop_block(size_t id) {
  if (id >= NBLK || g_state[id] != ST_TL) g_double_handout = 1; else g_state[id] = ST_ALLOCATED;
  return id;
}
size_t SBA_alloc(void)
__CPROVER_requires(STACK_OK && !g_double_handout && (tlCount > 0 ==> g_k == tlCount - 1) && (tlCount == 0 ==> g_k == 0))
/* the block handed out was free (on this thread's stack) and is now marked allocated: never a live block */
__CPROVER_ensures(!g_double_handout && RV < NBLK && g_state[RV] == ST_ALLOCATED)
__CPROVER_ensures(tlCount < kMaxNumTLBuffers)
__CPROVER_assigns(tlBuffers, tlCount, g_state, g_double_handout)
#include "SBA_alloc.body.inc"

void SBA_dealloc(size_t buffer)
__CPROVER_requires(STACK_OK && buffer < NBLK && g_state[buffer] == ST_ALLOCATED && !g_bad_free && g_id == buffer)
__CPROVER_ensures(tlCount < kMaxNumTLBuffers && g_state[buffer] != ST_ALLOCATED)
__CPROVER_assigns(tlBuffers, tlCount, g_state)
#include "SBA_dealloc.body.inc"

/* ---------------- (c) backingStoreLock ---------------- */
uint32_t g_lock;                 /* globals.backingStoreLock */
/* assumption: the 32-bit lock counter does not wrap (every contending thread bumps it at most once per wait) */
bool g_own_lock;                 /* ghost: this thread holds the lock */
bool g_touched_unlocked;         /* backingStore touched without holding the lock */
bool g_bad_transfer;
_Bool nondet_bool(void); uint32_t nondet_u32(void);
bool g_other_holds;              /* ghost: some other thread is inside the critical section */
static void others_act_lock(void) {
  /* other threads: grabFromCentralStore's fetch_add(1) (claims when it saw 0, otherwise just bumps the counter), the owner's store(0) */
  if (g_own_lock) { if (nondet_bool()) { uint32_t bump = nondet_u32(); __CPROVER_assume(bump < 1000 && g_lock + bump >= g_lock); g_lock += bump; } return; }
  if (nondet_bool()) {
    if (g_other_holds) { if (nondet_bool()) { g_lock = 0; g_other_holds = 0; } else { uint32_t bump = nondet_u32(); __CPROVER_assume(bump < 1000 && g_lock + bump >= g_lock); g_lock += bump; } }
    else if (g_lock == 0) { g_lock = 1; g_other_holds = 1; }
  }
}
static bool A_CAS_weak_lock(uint32_t* x, uint32_t* expected, uint32_t desired, int mo) {
  others_act_lock(); A_NOTE(mo);
  if (*x == *expected && nondet_bool()) {      /* weak: may fail spuriously */
    /* taking the lock is legitimate only if nobody holds it */
    if (g_other_holds) g_touched_unlocked = 1;  /* entered the critical section while another thread is inside */
    *x = desired; g_own_lock = 1; if (!MO_HAS_ACQUIRE(mo)) g_bad_transfer = 1;
    return 1;
  }
  *expected = *x; return 0;
}
static void A_STORE_lock(uint32_t* x, uint32_t v, int mo) {
  others_act_lock(); A_NOTE(mo);
  if (!MO_HAS_RELEASE(mo)) g_bad_transfer = 1;
  *x = v; g_own_lock = 0;
}
static size_t G_backingStore_size(void) { if (!g_own_lock || g_other_holds) g_touched_unlocked = 1; return 3; }
size_t SBA_bytesAllocated(void)
__CPROVER_requires(!g_own_lock && !g_touched_unlocked && !g_bad_transfer && (g_other_holds ==> g_lock >= 1) && (!g_other_holds ==> g_lock == 0))
#ifdef KF_EXCLUDE
__CPROVER_requires(!(KF_EXCLUDE))
#endif
/* backingStore is read only while this thread alone holds the lock; the lock is released before returning */
__CPROVER_ensures(!g_touched_unlocked && !g_bad_transfer && !g_own_lock)
__CPROVER_assigns(g_lock, g_own_lock, g_touched_unlocked, g_bad_transfer, g_other_holds, g_last_mo)
#include "SBA_bytesAllocated.body.inc"

/* ---------------- grabFromCentralStore: refill of the thread-local stack ---------------- */
#define kChunkSize ((size_t)KCHUNK)
#define kMallocBytes ((size_t)KMALLOC)
#define kBuffersPerMalloc ((size_t)KPERMALLOC)
#define kNumToPush (kBuffersPerMalloc - kIdealNumTLBuffers)
bool g_slot_valid[KIDEAL];        /* ghost: slot k of the caller's buffer array holds a free block that now belongs to this thread */
size_t g_slab_base; bool g_slab_fresh; size_t g_pushed_central; bool g_bad_block;
size_t G_try_dequeue_bulk(size_t* buffers, size_t count)
/* central store axiom: returns how many free blocks it moved into buffers[0..RV), RV <= count */
__CPROVER_ensures(RV <= count && (g_k < RV ==> g_slot_valid[g_k]) && (g_k >= RV ==> g_slot_valid[g_k] == __CPROVER_old(g_slot_valid[g_k])))
__CPROVER_assigns(g_slot_valid, __CPROVER_object_upto(buffers, count * sizeof(size_t)))
;
static uint32_t A_FETCH_ADD_lock(uint32_t* x, uint32_t v, int mo) { others_act_lock(); A_NOTE(mo); uint32_t old = *x; __CPROVER_assume(old + v > old); *x = old + v;
  if (old == 0) { if (g_other_holds) g_touched_unlocked = 1; g_own_lock = 1; if (!MO_HAS_ACQUIRE(mo)) g_bad_transfer = 1; } return old; }
static uint32_t A_LOAD_lock(const uint32_t* x, int mo) { others_act_lock(); A_NOTE(mo); return *x; }
static void G_this_thread_yield(void) { others_act_lock(); }
static size_t G_alignedMalloc_slab(size_t bytes, size_t align) {
  __CPROVER_assert(bytes == kMallocBytes && align == kChunkSize, "slab of kMallocBytes aligned to the chunk size");
  size_t b = nondet_size_t(); __CPROVER_assume(b != 0 && b % kChunkSize == 0 && b <= (size_t)-1 - kMallocBytes);
  g_slab_base = b; g_slab_fresh = 1; return b;
}
static void G_backingStore_push(size_t slab) { if (!g_own_lock || g_other_holds) g_touched_unlocked = 1; }
static void G_topush_put(size_t i, size_t addr) {
  /* chunk i of the fresh slab goes to the central store */
  if (!(i < kNumToPush && addr == g_slab_base + i * kChunkSize)) g_bad_block = 1;
}
static void G_enqueue_bulk(size_t n) { if (n != kNumToPush) g_bad_block = 1; g_pushed_central += n; }
static void G_buffers_put(size_t* buffers, size_t i, size_t addr) {
  /* chunks kNumToPush.. of the fresh slab go to this thread: aligned, inside the slab, disjoint from the ones pushed to the central store */
  if (!(i < kIdealNumTLBuffers && addr == g_slab_base + (kNumToPush + i) * kChunkSize && addr % kChunkSize == 0 && addr + kChunkSize <= g_slab_base + kMallocBytes)) g_bad_block = 1;
  buffers[i] = addr; g_slot_valid[i] = 1;
}
size_t SBA_grabFromCentralStore(size_t* buffers)
__CPROVER_requires(__CPROVER_is_fresh(buffers, KIDEAL * sizeof(size_t)) && g_k < kIdealNumTLBuffers && !g_slot_valid[g_k])
__CPROVER_requires(!g_own_lock && !g_touched_unlocked && !g_bad_transfer && !g_bad_block && (g_other_holds ==> g_lock >= 1) && (!g_other_holds ==> g_lock == 0))
/* between 1 and kIdealNumTLBuffers blocks, and every one of the first RV slots holds a free block owned by this thread */
__CPROVER_ensures(RV >= 1 && RV <= kIdealNumTLBuffers && (g_k < RV ==> g_slot_valid[g_k]))
__CPROVER_ensures(!g_touched_unlocked && !g_bad_transfer && !g_bad_block && !g_own_lock)
__CPROVER_assigns(g_slot_valid, __CPROVER_object_whole(buffers), g_lock, g_own_lock, g_touched_unlocked, g_bad_transfer, g_other_holds, g_last_mo, g_slab_base, g_slab_fresh, g_pushed_central, g_bad_block)
#include "SBA_grabFromCentralStore.body.inc"

#ifdef VERIF_CBMC
size_t nondet_size_t(void);
void h_SBA_grabFromCentralStore(void) { size_t* b; g_k = nondet_size_t(); for (size_t j = 0; j < KIDEAL; ++j) g_slot_valid[j] = 0; g_own_lock = 0; g_touched_unlocked = 0; g_bad_transfer = 0; g_bad_block = 0; g_pushed_central = 0;
  g_other_holds = nondet_bool(); g_lock = g_other_holds ? 1 + (nondet_u32() % 100) : 0; SBA_grabFromCentralStore(b); }
static void mk_stack(void) {
  tlCount = nondet_size_t(); __CPROVER_assume(tlCount < kMaxNumTLBuffers);
  g_k = nondet_size_t(); g_double_handout = 0; g_bad_free = 0;
}
void h_allocSmallOrLarge_large(void) { KBLOCK_SYM = nondet_size_t(); allocSmallOrLarge_large(); }
void h_getOrdinal(void) { size_t b; getOrdinal(b); }
void h_c41_size_class(void) { size_t n; c41_size_class(n); }
void h_SBA_alloc(void) { mk_stack(); SBA_alloc(); }
void h_SBA_dealloc(void) { mk_stack(); size_t b; g_id = b; SBA_dealloc(b); }
void h_SBA_bytesAllocated(void) { g_own_lock = 0; g_touched_unlocked = 0; g_bad_transfer = 0; g_other_holds = nondet_bool(); g_lock = g_other_holds ? 1 + (nondet_u32() % 100) : 0; SBA_bytesAllocated(); }
#endif
