/* C23: DistributedRWLockImpl<N> (dispenso/detail/distributed_rw_lock_impl.h): N RWLockImpl slots, verified against the CONTRACTS of
 * the RWLockImpl methods proved under C22 (each call is replaced by its contract; the contract's frame is the one slot it works on).
 * Every slot carries its own ghost decomposition (specs/c22_rwlock.c); R17 renders `slots_[e].method()` as
 * `(g_self = &self->slots_[e], RW_method(g_self))`.
 * The postconditions speak about an arbitrary slot g_k < N (what holds for it holds for every slot).  Interference: the slot
 * contracts are stable under the rely of C22 (what this thread owns in a slot bounds what others can do to it), and the harness
 * lets every other thread act on EVERY slot after the call before asserting the exclusion facts once more. */
#define C23_INCLUDE
#include "c22_rwlock.c"
#include "c23_extra_methods.inc"
#define DN KN
#define kMask ((size_t)(KN - 1))
typedef struct DRW { RWLockImpl slots_[KN]; } DRW;
size_t g_k;
/* what the slot invariants and this thread's holdings look like for one slot */
#define SLOT_OK(s) (WORD_OK_(s) && EXCL_INV_(s))
#define SLOT_FREE_OF_ME(s) (!(s)->bit_mine && !(s)->excl_mine && (s)->mine_count == 0 && !(s)->hold_read_mine)
#define SLOT_EXCL(s) ((s)->bit_mine && (s)->excl_mine && (s)->readers_other == 0 && !(s)->excl_other && (s)->mine_count == 0)
#define GOK (!g_viol && !g_bad_order && !g_need_wake)
#define DASSIGNS __CPROVER_assigns(__CPROVER_object_whole(self), g_self, g_viol, g_bad_order, g_wakes, g_need_wake, g_last_mo)

void DRW_lock(DRW* self)
__CPROVER_requires(GOK && g_k < DN && SLOT_OK(&self->slots_[g_k]) && SLOT_FREE_OF_ME(&self->slots_[g_k]))
/* exclusive against all readers and writers on every sub-lock */
__CPROVER_ensures(GOK && SLOT_OK(&self->slots_[g_k]) && SLOT_EXCL(&self->slots_[g_k]))
DASSIGNS
#include "DRW_lock.body.inc"

bool DRW_try_lock(DRW* self)
__CPROVER_requires(GOK && g_k < DN && SLOT_OK(&self->slots_[g_k]) && SLOT_FREE_OF_ME(&self->slots_[g_k]))
__CPROVER_ensures(GOK && SLOT_OK(&self->slots_[g_k]))
__CPROVER_ensures(RV ==> SLOT_EXCL(&self->slots_[g_k]))
/* a failed try_lock leaves no trace on any sub-lock */
__CPROVER_ensures(!RV ==> SLOT_FREE_OF_ME(&self->slots_[g_k]))
DASSIGNS
#include "DRW_try_lock.body.inc"

void DRW_unlock(DRW* self)
__CPROVER_requires(GOK && g_k < DN && SLOT_OK(&self->slots_[g_k]) && SLOT_EXCL(&self->slots_[g_k]))
__CPROVER_ensures(GOK && SLOT_OK(&self->slots_[g_k]) && SLOT_FREE_OF_ME(&self->slots_[g_k]))
DASSIGNS
#include "DRW_unlock.body.inc"

size_t g_index;
#define MY(s) ((s)->bit_mine == __CPROVER_old((s)->bit_mine) && (s)->excl_mine == __CPROVER_old((s)->excl_mine) && (s)->mine_count == __CPROVER_old((s)->mine_count) && (s)->hold_read_mine == __CPROVER_old((s)->hold_read_mine))
void DRW_lock_shared(DRW* self, size_t index)
__CPROVER_requires(GOK && g_k < DN && SLOT_OK(&self->slots_[g_k]) && SLOT_FREE_OF_ME(&self->slots_[g_k]))
/* shared access on the caller's sub-lock (index & kMask is always a valid slot) while no writer holds it; nothing else is touched */
__CPROVER_ensures(GOK && SLOT_OK(&self->slots_[g_k]))
__CPROVER_ensures(g_k == (index & kMask) ==> (self->slots_[g_k].hold_read_mine && self->slots_[g_k].mine_count == 1 && !self->slots_[g_k].excl_other && !self->slots_[g_k].bit_mine))
__CPROVER_ensures(g_k != (index & kMask) ==> MY(&self->slots_[g_k]))
DASSIGNS
#include "DRW_lock_shared.body.inc"

bool DRW_try_lock_shared(DRW* self, size_t index)
__CPROVER_requires(GOK && g_k < DN && SLOT_OK(&self->slots_[g_k]) && SLOT_FREE_OF_ME(&self->slots_[g_k]))
__CPROVER_ensures(GOK && SLOT_OK(&self->slots_[g_k]))
__CPROVER_ensures((RV && g_k == (index & kMask)) ==> (self->slots_[g_k].hold_read_mine && self->slots_[g_k].mine_count == 1 && !self->slots_[g_k].excl_other))
__CPROVER_ensures((!RV || g_k != (index & kMask)) ==> MY(&self->slots_[g_k]))
DASSIGNS
#include "DRW_try_lock_shared.body.inc"

void DRW_unlock_shared(DRW* self, size_t index)
__CPROVER_requires(GOK && g_k < DN && SLOT_OK(&self->slots_[g_k]) && (g_k == (index & kMask) ? (self->slots_[g_k].hold_read_mine && self->slots_[g_k].mine_count == 1 && !self->slots_[g_k].bit_mine) : 1))
__CPROVER_ensures(GOK && SLOT_OK(&self->slots_[g_k]))
__CPROVER_ensures(g_k == (index & kMask) ==> (!self->slots_[g_k].hold_read_mine && self->slots_[g_k].mine_count == 0))
__CPROVER_ensures(g_k != (index & kMask) ==> MY(&self->slots_[g_k]))
DASSIGNS
#include "DRW_unlock_shared.body.inc"

#ifdef VERIF_CBMC
/* every slot starts in `mode` (0: nothing held by this thread, 3: write-locked by this thread), or for readers: slot ridx in mode 1 */
static void mkd(DRW* d, int mode, size_t ridx) {
  for (size_t j = 0; j < DN; ++j) mk(&d->slots_[j], (j == ridx) ? 1 : mode);
  g_k = nondet_size_t(); __CPROVER_assume(g_k < DN);
}
/* every other thread may act on every slot, as far as the rely of each slot allows */
static void all_others_act(DRW* d) { for (size_t j = 0; j < DN; ++j) { g_self = &d->slots_[j]; others_act(); } }
void h_DRW_lock(void) { DRW d; mkd(&d, 0, DN); DRW_lock(&d); all_others_act(&d);
  __CPROVER_assert(SLOT_OK(&d.slots_[g_k]) && SLOT_EXCL(&d.slots_[g_k]), "exclusive access on every sub-lock is stable under interference"); }
void h_DRW_try_lock(void) { DRW d; mkd(&d, 0, DN); bool r = DRW_try_lock(&d); all_others_act(&d);
  __CPROVER_assert(SLOT_OK(&d.slots_[g_k]) && (r ? SLOT_EXCL(&d.slots_[g_k]) : SLOT_FREE_OF_ME(&d.slots_[g_k])), "try_lock: exclusive on every sub-lock, or no trace, stable under interference"); }
void h_DRW_unlock(void) { DRW d; mkd(&d, 3, DN); DRW_unlock(&d); }
void h_DRW_lock_shared(void) { DRW d; mkd(&d, 0, DN); size_t i; DRW_lock_shared(&d, i); all_others_act(&d);
  __CPROVER_assert(g_k != (i & kMask) || (d.slots_[g_k].hold_read_mine && !d.slots_[g_k].excl_other), "a reader excludes writers on its sub-lock, stable under interference"); }
void h_DRW_try_lock_shared(void) { DRW d; mkd(&d, 0, DN); size_t i; DRW_try_lock_shared(&d, i); }
void h_DRW_unlock_shared(void) { DRW d; size_t i; mkd(&d, 0, i & kMask); DRW_unlock_shared(&d, i); }
#endif
