/* C34: MpmcRingBuffer<T, Capacity, RoundUp> (dispenso/mpmc_ring_buffer.h) under rely/guarantee, any number of producers/consumers.
 * -DKBUF=<kBufferSize> -DKPOW2=<0|1> come from the real header (probe).  Slot = { T_cell data; size_t seq; }.
 *
 * Positions are 64-bit counters head_ <= tail_ (fully symbolic, below POS_BOUND: no counter wrap, stated assumption).
 * Per-slot invariant I_j (state-based, Vyukov):  with s = slots_[j].seq
 *   A(s): wrap(s) == j, head <= s < head+N                      "free for position s"; s >= tail  => data dead (nobody owns it)
 *                                                               s <  tail  => claimed by the producer of position s (in flight)
 *   B(s): wrap(s-1) == j, s-1 < tail <= s-1+N, head <= s-1+N    "published for position p = s-1"; p >= head => data live
 *                                                               p <  head  => claimed by the consumer of position p (in flight)
 * Global: head <= tail <= head + N.
 * Ownership ghost of THIS thread: g_own[j] in {0, 1 = claimed as producer, 2 = claimed as consumer}; taken only by a successful
 * CAS on tail_/head_ (at which the slot must be in state A(claimed pos) / B(claimed pos + 1)), given up by the release store to seq.
 * Rely (others_act, before every atomic access of this thread): head_, tail_ and every seq only grow, I_j keeps holding for every j,
 * slots this thread owns are untouched, an element that stays available (B, p >= head) keeps its value.
 * Guarantee (checked at every atomic write of this thread): the same, from the other threads' point of view: I_j for all j afterwards,
 * monotone, seq written only for an owned slot, slot data touched only while owned. */
#include "prelude.h"
#include "lifetime.h"
#include "atomics.h"
#define RV __CPROVER_return_value
unsigned g_T_constructed, g_T_destroyed;
int g_last_mo;
#define kBufferSize ((size_t)KBUF)
#define kIsPow2 KPOW2
#define kMask ((size_t)(KBUF - 1))
#define POS_BOUND (((size_t)1) << 62)
typedef struct Slot { T_cell data; size_t seq; } Slot;
typedef struct Ring { size_t head_; size_t tail_; Slot slots_[KBUF]; } Ring;
typedef struct OpResult { T_cell buf_; int has; } OpResult;

Ring* g_ring; int g_role;          /* 1 = concurrent (interference before every atomic access), 0 = quiescent */
int g_own[KBUF]; size_t g_ownpos[KBUF];
bool g_bad_order, g_viol;
unsigned g_claims, g_publishes;    /* successful claiming CASes / release stores to seq by this thread */
size_t g_claimed_pos; T_tag g_claimed_val; size_t g_claimed_n;
_Bool nondet_bool(void); size_t nondet_size_t(void); int nondet_int(void);

#define WRAP(i) (kIsPow2 ? ((i) & kMask) : ((i) % kBufferSize))
#define ST_A(r, j) (WRAP((r)->slots_[j].seq) == (j) && (r)->head_ <= (r)->slots_[j].seq && (r)->slots_[j].seq < (r)->head_ + kBufferSize && \
                    ((r)->slots_[j].seq >= (r)->tail_ ? (r)->slots_[j].data.live == 0 : 1))
#define ST_B(r, j) ((r)->slots_[j].seq >= 1 && WRAP((r)->slots_[j].seq - 1) == (j) && (r)->slots_[j].seq - 1 < (r)->tail_ && \
                    (r)->tail_ <= (r)->slots_[j].seq - 1 + kBufferSize && (r)->head_ <= (r)->slots_[j].seq - 1 + kBufferSize && \
                    ((r)->slots_[j].seq - 1 >= (r)->head_ ? (r)->slots_[j].data.live == 1 : 1))
#define I_J(r, j) (ST_A(r, j) || ST_B(r, j))
#define GLOBAL_OK(r) ((r)->head_ <= (r)->tail_ && (r)->tail_ <= (r)->head_ + kBufferSize && (r)->tail_ < POS_BOUND)
/* this thread's ownership is consistent with the slot's state */
#define OWN_OK(r, j) ((g_own[j] == 0) || (g_own[j] == 1 && (r)->slots_[j].seq == g_ownpos[j] && WRAP(g_ownpos[j]) == (j) && g_ownpos[j] < (r)->tail_) || \
                      (g_own[j] == 2 && (r)->slots_[j].seq == g_ownpos[j] + 1 && WRAP(g_ownpos[j]) == (j) && g_ownpos[j] < (r)->head_))
/* nobody is in flight on slot j */
#define QUIET_J(r, j) (WRAP((r)->slots_[j].seq) == (j) ? (r)->slots_[j].seq >= (r)->tail_ : (r)->slots_[j].seq - 1 >= (r)->head_)

static void check_all(Ring* r) {      /* guarantee: after every write of this thread the invariant holds for every slot */
  __CPROVER_assert(GLOBAL_OK(r), "guarantee: head <= tail <= head + capacity after this thread's step");
  for (size_t j = 0; j < kBufferSize; ++j) {
    __CPROVER_assert(I_J(r, j), "guarantee: slot invariant (Vyukov sequence protocol) holds for every slot after this thread's step");
    __CPROVER_assert(OWN_OK(r, j), "this thread's ownership ghost is consistent with the slot state");
  }
}

static void others_act(void) {
  if (g_role != 1) return;
  Ring* r = g_ring;
  size_t h = nondet_size_t(), t = nondet_size_t();
  __CPROVER_assume(h >= r->head_ && t >= r->tail_ && h <= t && t <= h + kBufferSize && t < POS_BOUND);
  for (size_t j = 0; j < kBufferSize; ++j) {
    if (g_own[j]) continue;                                   /* slots this thread owns are untouched */
    size_t s = nondet_size_t(); __CPROVER_assume(s >= r->slots_[j].seq);
    T_cell d; d.value = nondet_int(); d.live = nondet_bool() ? 1 : 0; d.moved_from = 0;
    /* an element that was available and is still available (same seq, not yet claimed by a consumer) is untouched */
    if (s == r->slots_[j].seq && WRAP(s) != j && s - 1 >= h) d = r->slots_[j].data;
    r->slots_[j].seq = s; r->slots_[j].data = d;
  }
  r->head_ = h; r->tail_ = t;
  for (size_t j = 0; j < kBufferSize; ++j) { __CPROVER_assume(I_J(r, j)); __CPROVER_assume(OWN_OK(r, j)); }
}
#undef VERIF_INTERFERE
#define VERIF_INTERFERE() others_act()

static size_t A_LOAD_pos(const size_t* x, int mo) { VERIF_INTERFERE(); A_NOTE(mo); return *x; }
/* seq is the word through which slot data changes hands: observed with acquire, published with release */
static size_t A_LOAD_seq(const Slot* s, int mo) { VERIF_INTERFERE(); A_NOTE(mo); if (!MO_HAS_ACQUIRE(mo)) g_bad_order = 1; return s->seq; }
static size_t slot_index(const Slot* s) { return (size_t)(s - g_ring->slots_); }
static void A_STORE_seq(Slot* s, size_t v, int mo) {
  VERIF_INTERFERE(); A_NOTE(mo);
  size_t j = slot_index(s);
  __CPROVER_assert(g_own[j] != 0, "guarantee: seq is written only by the thread that claimed the slot's position");
  __CPROVER_assert(v > s->seq, "guarantee: seq only grows");
  __CPROVER_assert(g_own[j] != 1 || v == g_ownpos[j] + 1, "guarantee: the producer of position p publishes its slot with seq = p + 1");
  __CPROVER_assert(g_own[j] != 2 || v == g_ownpos[j] + kBufferSize, "guarantee: the consumer of position p frees its slot with seq = p + capacity");
  if (!MO_HAS_RELEASE(mo)) g_bad_order = 1;
  s->seq = v; g_own[j] = 0; g_publishes++;
  check_all(g_ring);
}
/* claiming CAS on tail_ (producer) / head_ (consumer): strong, so it fails only if the value differs */
static bool A_CAS_tail(Ring* self, size_t* expected, size_t desired, int mo) {
  VERIF_INTERFERE(); A_NOTE(mo);
  if (self->tail_ != *expected) { *expected = self->tail_; return 0; }
  __CPROVER_assert(desired > *expected && desired - *expected <= kBufferSize, "guarantee: tail_ only grows, by at most the capacity");
  for (size_t p = *expected; p < desired; ++p) {
    size_t j = WRAP(p);
    __CPROVER_assert(self->slots_[j].seq == p && self->slots_[j].data.live == 0, "a position is claimed for pushing only while its slot is free for exactly that position");
    g_own[j] = 1; g_ownpos[j] = p;
  }
  g_claimed_pos = *expected; g_claimed_n = desired - *expected; g_claims++;
  self->tail_ = desired;
  check_all(self);
  return 1;
}
static bool A_CAS_head(Ring* self, size_t* expected, size_t desired, int mo) {
  VERIF_INTERFERE(); A_NOTE(mo);
  if (self->head_ != *expected) { *expected = self->head_; return 0; }
  __CPROVER_assert(desired == *expected + 1, "guarantee: a pop claims exactly one position");
  size_t j = WRAP(*expected);
  __CPROVER_assert(self->slots_[j].seq == *expected + 1 && self->slots_[j].data.live == 1, "a position is claimed for popping only while its slot holds the published element of exactly that position");
  g_own[j] = 2; g_ownpos[j] = *expected;
  g_claimed_pos = *expected; g_claimed_val = self->slots_[j].data.value; g_claimed_n = 1; g_claims++;
  self->head_ = desired;
  check_all(self);
  return 1;
}
static T_cell* dataPtr(Slot* s) {
  __CPROVER_assert(g_own[slot_index(s)] != 0, "slot data is touched only by the thread that claimed the slot's position");
  return &s->data;
}
static OpResult OpResult_empty(void) { OpResult r; r.has = 0; r.buf_.live = 0; r.buf_.value = 0; r.buf_.moved_from = 0; return r; }
static OpResult OpResult_from(T_tag v) { OpResult r; r.has = 1; r.buf_.live = 1; r.buf_.value = v; r.buf_.moved_from = 0; g_T_constructed++; return r; }

size_t wrapIndex(size_t i)
__CPROVER_ensures(RV < kBufferSize && RV == i % kBufferSize)
__CPROVER_assigns()
#include "Mpmc_wrapIndex.body.inc"

/* ------------------------------------------------------------------ contracts */
size_t g_k;                        /* ghost slot index: the postconditions speak about an arbitrary slot */
size_t g_batch_i;                  /* ghost index into the batch */
size_t g_head0, g_tail0; T_tag g_head_value;
#define FRAME *self, g_last_mo, g_bad_order, g_T_constructed, g_T_destroyed, g_claims, g_publishes, g_claimed_pos, g_claimed_val, g_claimed_n, \
              __CPROVER_object_whole(g_own), __CPROVER_object_whole(g_ownpos)
#define PRE (self == g_ring && (g_role == 0 || g_role == 1) && GLOBAL_OK(self) && g_k < kBufferSize && !g_bad_order && g_claims == 0 && g_publishes == 0 && \
             g_T_constructed == 0 && g_T_destroyed == 0 && g_head0 == self->head_ && g_tail0 == self->tail_)
/* after every operation: invariant for the ghost slot, nothing left owned, memory-order discipline kept, occupancy bounded */
#define POST (GLOBAL_OK(self) && I_J(self, g_k) && g_own[g_k] == 0 && !g_bad_order && self->tail_ - self->head_ <= kBufferSize)
/* a successful push: exactly one claim of one position, one object constructed, published in the claimed position's slot with seq = pos+1
 * (the slot is then B(pos+1) or already consumed/reused: seq only grows) */
#define PUSH_OK(val) (g_claims == 1 && g_claimed_n == 1 && g_publishes == 1 && g_T_constructed == 1 && g_T_destroyed == 0 && \
                      (g_role == 0 ==> (self->tail_ == g_tail0 + 1 && self->head_ == g_head0 && self->slots_[WRAP(g_tail0)].seq == g_tail0 + 1 && \
                                        self->slots_[WRAP(g_tail0)].data.live == 1 && self->slots_[WRAP(g_tail0)].data.value == (val))))
#define NOTHING_DONE (g_claims == 0 && g_publishes == 0 && g_T_constructed == 0 && g_T_destroyed == 0 && (g_role == 0 ==> (self->tail_ == g_tail0 && self->head_ == g_head0)))

bool Mpmc_emplaceImpl(Ring* self, T_tag args)
__CPROVER_requires(PRE)
__CPROVER_ensures(POST)
__CPROVER_ensures(RV ==> PUSH_OK(args))
__CPROVER_ensures(!RV ==> NOTHING_DONE)
/* quiescent: a push succeeds iff the buffer is not full */
__CPROVER_ensures(g_role == 0 ==> (RV == (g_tail0 - g_head0 < kBufferSize)))
__CPROVER_assigns(FRAME)
#include "Mpmc_emplaceImpl.body.inc"

/* a successful pop: exactly one claim, the value handed out is the one published in the claimed position, destroyed exactly once,
 * slot released for position pos + N */
#define POP_OK(outval) (g_claims == 1 && g_publishes == 1 && g_T_destroyed == 1 && (outval) == g_claimed_val && \
                        (g_role == 0 ==> (self->head_ == g_head0 + 1 && self->tail_ == g_tail0 && g_claimed_pos == g_head0 && (outval) == g_head_value && \
                                          self->slots_[WRAP(g_head0)].seq == g_head0 + kBufferSize && self->slots_[WRAP(g_head0)].data.live == 0)))
bool Mpmc_try_pop_ref(Ring* self, T_cell* item)
__CPROVER_requires(PRE && item->live == 1)
__CPROVER_ensures(POST)
__CPROVER_ensures(RV ==> (POP_OK(item->value) && g_T_constructed == 0 && item->live == 1))
__CPROVER_ensures(!RV ==> NOTHING_DONE)
__CPROVER_ensures(g_role == 0 ==> (RV == (g_head0 != g_tail0)))
__CPROVER_assigns(FRAME, *item)
#include "Mpmc_try_pop_ref.body.inc"

OpResult Mpmc_try_pop_opt(Ring* self)
__CPROVER_requires(PRE)
__CPROVER_ensures(POST)
__CPROVER_ensures(RV.has ==> (POP_OK(RV.buf_.value) && g_T_constructed == 1 && RV.buf_.live == 1))
__CPROVER_ensures(!RV.has ==> (NOTHING_DONE && RV.buf_.live == 0))
__CPROVER_ensures(g_role == 0 ==> ((RV.has != 0) == (g_head0 != g_tail0)))
__CPROVER_assigns(FRAME)
#include "Mpmc_try_pop_opt.body.inc"

bool Mpmc_try_pop_into(Ring* self, T_cell* storage)
__CPROVER_requires(PRE && storage->live == 0)
__CPROVER_ensures(POST)
__CPROVER_ensures(RV ==> (POP_OK(storage->value) && g_T_constructed == 1 && storage->live == 1))
__CPROVER_ensures(!RV ==> (NOTHING_DONE && storage->live == 0))
__CPROVER_ensures(g_role == 0 ==> (RV == (g_head0 != g_tail0)))
__CPROVER_assigns(FRAME, *storage)
#include "Mpmc_try_pop_into.body.inc"

#define NITEMS (KBUF + 2)
size_t Mpmc_try_push_batch(Ring* self, T_cell items[NITEMS], size_t count)
__CPROVER_requires(PRE && count <= NITEMS)
__CPROVER_ensures(POST)
/* reserves one contiguous run of RV positions with a single CAS, constructs and publishes exactly RV objects, never more than asked or than the capacity */
__CPROVER_ensures(RV <= count && RV <= kBufferSize && g_T_constructed == RV && g_T_destroyed == 0 && g_publishes == RV)
__CPROVER_ensures(RV > 0 ==> (g_claims == 1 && g_claimed_n == RV))
__CPROVER_ensures(RV == 0 ==> NOTHING_DONE)
/* quiescent: pushes min(count, free space) elements in order at the old tail */
__CPROVER_ensures(g_role == 0 ==> (RV == (count < kBufferSize - (g_tail0 - g_head0) ? count : kBufferSize - (g_tail0 - g_head0)) && self->tail_ == g_tail0 + RV && self->head_ == g_head0))
__CPROVER_ensures((g_role == 0 && g_batch_i < RV) ==> (self->slots_[WRAP(g_tail0 + g_batch_i)].seq == g_tail0 + g_batch_i + 1 && self->slots_[WRAP(g_tail0 + g_batch_i)].data.value == items[g_batch_i].value))
__CPROVER_assigns(FRAME, __CPROVER_object_whole(items))
#include "Mpmc_try_push_batch.body.inc"

bool Mpmc_empty(const Ring* self)
__CPROVER_requires(self == g_ring && g_role == 0 && GLOBAL_OK(self))
__CPROVER_ensures(RV == (self->head_ == self->tail_))
__CPROVER_assigns(g_last_mo)
#include "Mpmc_empty.body.inc"
bool Mpmc_full(const Ring* self)
__CPROVER_requires(self == g_ring && g_role == 0 && GLOBAL_OK(self))
__CPROVER_ensures(RV == (self->tail_ - self->head_ == kBufferSize))
__CPROVER_assigns(g_last_mo)
#include "Mpmc_full.body.inc"
size_t Mpmc_size(const Ring* self)
__CPROVER_requires(self == g_ring && g_role == 0 && GLOBAL_OK(self))
__CPROVER_ensures(RV == self->tail_ - self->head_ && RV <= kBufferSize)
__CPROVER_assigns(g_last_mo)
#include "Mpmc_size.body.inc"

/* constructor: establishes the invariant for every slot, quiescent and empty */
void Mpmc_ctor(Ring* self)
__CPROVER_requires(self == g_ring && g_role == 0 && self->head_ == 0 && self->tail_ == 0 && g_k < kBufferSize && self->slots_[g_k].data.live == 0)
__CPROVER_ensures(GLOBAL_OK(self) && I_J(self, g_k) && QUIET_J(self, g_k) && self->slots_[g_k].seq == g_k)
__CPROVER_assigns(__CPROVER_object_whole(self->slots_), g_last_mo)
#include "Mpmc_ctor.body.inc"

/* destructor (quiescent): destroys exactly the elements still in the buffer, each once */
void Mpmc_dtor(Ring* self)
__CPROVER_requires(self == g_ring && g_role == 0 && GLOBAL_OK(self) && g_k < kBufferSize && g_T_destroyed == 0 && g_head0 == self->head_ && g_tail0 == self->tail_)
__CPROVER_ensures(self->slots_[g_k].data.live == 0 && g_T_destroyed == g_tail0 - g_head0)
__CPROVER_assigns(__CPROVER_object_whole(self->slots_), g_last_mo, g_T_destroyed)
#include "Mpmc_dtor.body.inc"

#ifdef VERIF_CBMC
static void mk(Ring* r, int role, int quiet) {
  g_ring = r; g_role = role; g_bad_order = 0; g_viol = 0; g_T_constructed = 0; g_T_destroyed = 0; g_claims = 0; g_publishes = 0;
  size_t h = nondet_size_t(), t = nondet_size_t();
  r->head_ = h; r->tail_ = t; __CPROVER_assume(GLOBAL_OK(r));
  for (size_t j = 0; j < kBufferSize; ++j) {
    g_own[j] = 0; g_ownpos[j] = 0;
    r->slots_[j].seq = nondet_size_t(); r->slots_[j].data.value = nondet_int(); r->slots_[j].data.live = nondet_bool() ? 1 : 0; r->slots_[j].data.moved_from = 0;
    __CPROVER_assume(I_J(r, j));
    if (quiet) __CPROVER_assume(QUIET_J(r, j));
  }
  g_k = nondet_size_t(); __CPROVER_assume(g_k < kBufferSize);
  g_batch_i = nondet_size_t();
  g_head0 = h; g_tail0 = t; g_head_value = r->slots_[WRAP(h)].data.value;
}
/* role is symbolic: one proof covers the concurrent case (arbitrary in-flight peers, interference) and the quiescent one */
static int pick_role(int* quiet) { int role = nondet_bool() ? 1 : 0; *quiet = (role == 0); return role; }
void h_wrapIndex(void) { size_t i; wrapIndex(i); }
void h_Mpmc_emplaceImpl(void) { Ring r; int q; int role = pick_role(&q); mk(&r, role, q); T_tag a; Mpmc_emplaceImpl(&r, a); }
void h_Mpmc_try_pop_ref(void) { Ring r; int q; int role = pick_role(&q); mk(&r, role, q); T_cell it; it.live = 1; it.moved_from = 0; Mpmc_try_pop_ref(&r, &it); }
void h_Mpmc_try_pop_opt(void) { Ring r; int q; int role = pick_role(&q); mk(&r, role, q); Mpmc_try_pop_opt(&r); }
void h_Mpmc_try_pop_into(void) { Ring r; int q; int role = pick_role(&q); mk(&r, role, q); T_cell st; st.live = 0; st.moved_from = 0; Mpmc_try_pop_into(&r, &st); }
void h_Mpmc_try_push_batch(void) { Ring r; int q; int role = pick_role(&q); mk(&r, role, q); T_cell items[NITEMS]; for (size_t j = 0; j < NITEMS; ++j) { items[j].live = 1; items[j].moved_from = 0; } size_t c; Mpmc_try_push_batch(&r, items, c); }
void h_Mpmc_empty(void) { Ring r; mk(&r, 0, 1); Mpmc_empty(&r); }
void h_Mpmc_full(void) { Ring r; mk(&r, 0, 1); Mpmc_full(&r); }
void h_Mpmc_size(void) { Ring r; mk(&r, 0, 1); Mpmc_size(&r); }
void h_Mpmc_ctor(void) { Ring r; g_ring = &r; g_role = 0; r.head_ = 0; r.tail_ = 0; for (size_t j = 0; j < kBufferSize; ++j) { r.slots_[j].data.live = 0; r.slots_[j].seq = nondet_size_t(); } g_k = nondet_size_t(); __CPROVER_assume(g_k < kBufferSize); Mpmc_ctor(&r); }
void h_Mpmc_dtor(void) { Ring r; mk(&r, 0, 1); Mpmc_dtor(&r); }
#endif
