/* C34: MpmcRingBuffer<T, Capacity, RoundUp> (dispenso/mpmc_ring_buffer.h) under rely/guarantee, any number of producers/consumers.
 * -DKBUF=<kBufferSize> -DKPOW2=<0|1> come from the real header (probe).
 *
 * Positions are 64-bit counters head_ <= tail_ (fully symbolic, below POS_BOUND: no counter wrap, stated assumption).
 * Per-slot invariant I_j (state-based, Vyukov):  with s = slots_[j].seq
 *   A(s): wrap(s) == j, head <= s < head+N                      "free for position s"; s >= tail  => data dead (nobody owns it)
 *                                                               s <  tail  => claimed by the producer of position s (in flight)
 *   B(s): wrap(s-1) == j, s-1 < tail <= s-1+N, head <= s-1+N    "published for position p = s-1"; p >= head => data live
 *                                                               p <  head  => claimed by the consumer of position p (in flight)
 * Global: head <= tail <= head + N.
 * Ownership ghost of THIS thread (per slot): own in {0, 1 = claimed as producer, 2 = claimed as consumer}; taken only by a
 * successful CAS on tail_/head_ (at which the slot must be in state A(claimed pos) / B(claimed pos + 1)), given up by the release
 * store to seq.
 * Rely (others_act, before every atomic access of this thread): head_, tail_ and every seq only grow, I_j keeps holding for every j,
 * slots this thread owns are untouched, an element that stays available (B, p >= head) keeps its value.
 * Guarantee (checked at every atomic write of this thread): the same, from the other threads' point of view: I_j afterwards,
 * monotone, seq written only for an owned slot, slot data touched only while owned.
 *
 * Which slots are carried.  The invariant is per slot (I_j mentions head_, tail_ and slot j only), so the slots_ array is rendered by
 * TWO tracked slots and a junk slot:
 *   - slot g_k: an arbitrary index (what is proved for it is proved for every slot), and
 *   - slot g_a: the slot a single-element operation works on -- a prophecy variable chosen arbitrarily in the harness; the statement
 *     that binds the slot reference (`Slot& slot = slots_[wrapIndex(pos)]`) is followed by VERIF_ACTIVE(slot_i) = assume(slot_i == g_a),
 *     so every execution is covered by exactly one choice of g_a;
 *   - every other index reads and writes `junk`, which is havocked WITHOUT any constraint before each access (an over-approximation of
 *     anything the other threads can do to it); obligations are asserted for tracked slots only -- g_k being arbitrary, for all.
 * The batch push works on several slots: no prophecy (-DNO_PROPHECY); its quiescent exactness clause is proved where both tracked
 * slots are all the slots there are (kBufferSize == 2, g_a != g_k).
 *
 * wrap(i) = i % kBufferSize.  For power-of-two sizes it is the mask, bit-precise, and the whole proof below is run.  For other sizes
 * a 64-bit remainder inside the rely/guarantee proof is out of SAT's reach here (probed: > 20 min as a divider, as an uninterpreted
 * function with axioms, and as a q*N+r decomposition), so for exact sizes only wrapIndex (CBMC, -DWRAP_EXACT: returns
 * i % kBufferSize) and the modular facts the protocol argument uses (lemma unit c34_wrap_axioms, intwp/z3) are verified. */
#include "prelude.h"
#define RV __CPROVER_return_value
#define kBufferSize ((size_t)KBUF)
#define kIsPow2 KPOW2
#define kMask ((size_t)(KBUF - 1))
#ifndef POS_BITS
#define POS_BITS 62
#endif
#define POS_BOUND (((size_t)1) << POS_BITS)

#if defined(VERIF_INTWP)
/* ---- lemma unit: the axioms assumed of the uninterpreted wrap hold of i % N (mathematical check of the exact C semantics) */
void c34_wrap_axioms(size_t x, size_t y)
__CPROVER_requires(x < POS_BOUND + 2 * kBufferSize && y < POS_BOUND + 2 * kBufferSize && kBufferSize >= 2)
__CPROVER_assigns()
{
  __CPROVER_assert(x % kBufferSize < kBufferSize, "AX1: wrap(x) < N");
  __CPROVER_assert(!(x <= y && y - x <= kBufferSize && x % kBufferSize == y % kBufferSize) || y == x || y == x + kBufferSize, "AX2: equal residues within one lap: same position or exactly one lap apart");
  __CPROVER_assert((x + kBufferSize) % kBufferSize == x % kBufferSize, "AX3: wrap(x + N) == wrap(x)");
  __CPROVER_assert((x + 1) % kBufferSize == (x % kBufferSize + 1 == kBufferSize ? 0 : x % kBufferSize + 1), "AX4: wrap(x + 1) is the cyclic successor of wrap(x)");
}
#else
#include "lifetime.h"
#include "atomics.h"
unsigned g_T_constructed, g_T_destroyed;
int g_last_mo;
typedef struct Slot { T_cell data; size_t seq; int own; size_t ownpos; } Slot;   /* own, ownpos: ghost */
typedef struct Ring { size_t head_; size_t tail_; Slot sa, sk, junk; } Ring;
typedef struct OpResult { T_cell buf_; int has; } OpResult;

Ring* g_ring; int g_role;          /* 1 = concurrent (interference before every atomic access), 0 = quiescent */
size_t g_a, g_k;                   /* indices of the tracked slots */
bool g_bad_order;
unsigned g_claims, g_publishes;    /* successful claiming CASes / release stores to seq by this thread */
size_t g_claimed_pos; T_tag g_claimed_val; size_t g_claimed_n;
_Bool nondet_bool(void); size_t nondet_size_t(void); int nondet_int(void);

#if KPOW2 || defined(WRAP_EXACT)
#define WRAP(i) (kIsPow2 ? ((i) & kMask) : ((i) % kBufferSize))
#else
/* exact, divider-free rendering of x % N for x in range: the unique decomposition x == q*N + r, r < N */
static size_t WRAPF(size_t x) {
  size_t q = nondet_size_t(), r = nondet_size_t();
  __CPROVER_assume(r < kBufferSize && q <= x && x == q * kBufferSize + r);
  return r;
}
#define WRAP(i) WRAPF(i)
#endif

#define TRACKED(j) ((j) == g_a || (j) == g_k)
static Slot* SL(Ring* r, size_t j) {          /* slots_[j] */
  if (j == g_a) return &r->sa;
  if (j == g_k) return &r->sk;
  r->junk.seq = nondet_size_t(); __CPROVER_assume(r->junk.seq < POS_BOUND + 2 * kBufferSize);   /* any seq value is below the no-wrap bound */
  r->junk.data.value = nondet_int(); r->junk.data.live = nondet_bool() ? 1 : 0; r->junk.data.moved_from = 0; r->junk.own = 0;
  return &r->junk;
}
#define ST_A(r, s, j) (WRAP((s)->seq) == (j) && (r)->head_ <= (s)->seq && (s)->seq < (r)->head_ + kBufferSize && ((s)->seq >= (r)->tail_ ? (s)->data.live == 0 : 1))
#define ST_B(r, s, j) ((s)->seq >= 1 && WRAP((s)->seq - 1) == (j) && (s)->seq - 1 < (r)->tail_ && (r)->tail_ <= (s)->seq - 1 + kBufferSize && \
                       (r)->head_ <= (s)->seq - 1 + kBufferSize && ((s)->seq - 1 >= (r)->head_ ? (s)->data.live == 1 : 1))
#define I_S(r, s, j) (ST_A(r, s, j) || ST_B(r, s, j))
#define GLOBAL_G(r) ((r)->head_ <= (r)->tail_ && (r)->tail_ <= (r)->head_ + kBufferSize)
#define GLOBAL_OK(r) (GLOBAL_G(r) && (r)->tail_ < POS_BOUND)      /* with the no-wrap assumption on the environment */
/* this thread's ownership is consistent with the slot's state */
#define OWN_OK(r, s, j) (((s)->own == 0) || ((s)->own == 1 && (s)->seq == (s)->ownpos && WRAP((s)->ownpos) == (j) && (s)->ownpos < (r)->tail_) || \
                         ((s)->own == 2 && (s)->seq == (s)->ownpos + 1 && WRAP((s)->ownpos) == (j) && (s)->ownpos < (r)->head_))
/* nobody is in flight on the slot */
#define QUIET_S(r, s, j) (WRAP((s)->seq) == (j) ? (s)->seq >= (r)->tail_ : (s)->seq - 1 >= (r)->head_)
#define INV_A(r) (I_S(r, &(r)->sa, g_a) && OWN_OK(r, &(r)->sa, g_a))
#define INV_K(r) (g_k == g_a || (I_S(r, &(r)->sk, g_k) && OWN_OK(r, &(r)->sk, g_k)))

static void wrap_axioms(Ring* r) { (void)r; }
static void check_all(Ring* r) {      /* guarantee: after every write of this thread the invariant holds (for the arbitrary slot g_k: for every slot) */
  wrap_axioms(r);
  __CPROVER_assert(GLOBAL_G(r), "guarantee: head <= tail <= head + capacity after this thread's step");
  __CPROVER_assert(I_S(r, &r->sa, g_a), "guarantee: slot invariant (Vyukov sequence protocol) holds for the slot operated on after this thread's step");
  __CPROVER_assert(g_k == g_a || I_S(r, &r->sk, g_k), "guarantee: slot invariant (Vyukov sequence protocol) holds for every other slot after this thread's step");
  __CPROVER_assert(OWN_OK(r, &r->sa, g_a) && (g_k == g_a || OWN_OK(r, &r->sk, g_k)), "this thread's ownership ghost is consistent with the slot state");
}
static void havoc_slot(Ring* r, Slot* x, size_t j, size_t h) {
  if (x->own) return;                                       /* slots this thread owns are untouched */
  size_t s = nondet_size_t(); __CPROVER_assume(s >= x->seq); /* seq only grows */
  T_cell d; d.value = nondet_int(); d.live = nondet_bool() ? 1 : 0; d.moved_from = 0;
  /* an element that was available and is still available (same seq, not yet claimed by a consumer) is untouched */
  if (s == x->seq && WRAP(s) != j && s - 1 >= h) d = x->data;
  x->seq = s; x->data = d;
}
static void others_act(void) {
  if (g_role != 1) return;
  Ring* r = g_ring;
  size_t h = nondet_size_t(), t = nondet_size_t();
  __CPROVER_assume(h >= r->head_ && t >= r->tail_ && h <= t && t <= h + kBufferSize && t < POS_BOUND);
  havoc_slot(r, &r->sa, g_a, h);
  if (g_k != g_a) havoc_slot(r, &r->sk, g_k, h);
  r->head_ = h; r->tail_ = t;
  wrap_axioms(r);
  __CPROVER_assume(INV_A(r) && INV_K(r));
}
#undef VERIF_INTERFERE
#define VERIF_INTERFERE() others_act()
#ifdef NO_PROPHECY
#define VERIF_ACTIVE(i) ((void)0)
#else
#define VERIF_ACTIVE(i) __CPROVER_assume((i) == g_a)
#endif

static size_t A_LOAD_pos(const size_t* x, int mo) { VERIF_INTERFERE(); A_NOTE(mo); return *x; }
/* R8: `Slot& slot = slots_[e];` is rendered as the index `slot_i = e` it is bound to (a reference to an array element);
 * seq is the word through which slot data changes hands: observed with acquire, published with release */
static size_t A_LOAD_seq(Ring* self, size_t j, int mo) {
  VERIF_INTERFERE(); A_NOTE(mo);
  __CPROVER_assert(j < kBufferSize, "slots_ index inside the array");
  if (!MO_HAS_ACQUIRE(mo)) g_bad_order = 1;
  return SL(self, j)->seq;
}
static void A_STORE_seq(Ring* self, size_t j, size_t v, int mo) {
  VERIF_INTERFERE(); A_NOTE(mo);
  __CPROVER_assert(j < kBufferSize, "slots_ index inside the array");
  Slot* s = SL(self, j);
  if (TRACKED(j)) {
    __CPROVER_assert(s->own != 0, "guarantee: seq is written only by the thread that claimed the slot's position");
    __CPROVER_assert(v > s->seq, "guarantee: seq only grows");
    __CPROVER_assert(s->own != 1 || v == s->ownpos + 1, "guarantee: the producer of position p publishes its slot with seq = p + 1");
    __CPROVER_assert(s->own != 2 || v == s->ownpos + kBufferSize, "guarantee: the consumer of position p frees its slot with seq = p + capacity");
  }
  if (!MO_HAS_RELEASE(mo)) g_bad_order = 1;
  s->seq = v; s->own = 0; g_publishes++;
  check_all(self);
}
/* claiming CAS on tail_ (producer) / head_ (consumer): strong, so it fails only if the value differs */
static bool A_CAS_tail(Ring* self, size_t* expected, size_t desired, int mo) {
  VERIF_INTERFERE(); A_NOTE(mo);
  if (self->tail_ != *expected) { *expected = self->tail_; return 0; }
  __CPROVER_assert(desired > *expected && desired - *expected <= kBufferSize, "guarantee: tail_ only grows, by at most the capacity");
#ifdef NO_PROPHECY
  __CPROVER_assume(WRAP(desired - 1) == g_a);   /* batch: the prophecy slot g_a is the slot of the last position of the claimed run */
#endif
  for (size_t p = *expected; p < desired; ++p) {
    size_t j = WRAP(p);
    if (TRACKED(j)) {
      Slot* s = SL(self, j);
      __CPROVER_assert(s->seq == p && s->data.live == 0 && s->own == 0, "a position is claimed for pushing only while its slot is free for exactly that position");
      s->own = 1; s->ownpos = p;
    }
  }
  g_claimed_pos = *expected; g_claimed_n = desired - *expected; g_claims++;
  self->tail_ = desired;
  check_all(self);
  return 1;
}
static bool A_CAS_head(Ring* self, size_t* expected, size_t desired, int mo) {
  VERIF_INTERFERE(); A_NOTE(mo);
  if (self->head_ != *expected) { *expected = self->head_; return 0; }
  __CPROVER_assert(desired == *expected + 1, "guarantee: a pop claims exactly one position");
  size_t j = WRAP(*expected);
  if (TRACKED(j)) {
    Slot* s = SL(self, j);
    __CPROVER_assert(s->seq == *expected + 1 && s->data.live == 1 && s->own == 0, "a position is claimed for popping only while its slot holds the published element of exactly that position");
    s->own = 2; s->ownpos = *expected; g_claimed_val = s->data.value;
  }
  g_claimed_pos = *expected; g_claimed_n = 1; g_claims++;
  self->head_ = desired;
  check_all(self);
  return 1;
}
/* slot data may be touched only between this thread's claiming CAS and its release store to seq; the accessors below are
 * what R12 renders placement-new / destructor / move on dataPtr(slot) into: ownership is asserted at the access itself */
static void S_construct(Ring* self, size_t j, T_tag v) {
  __CPROVER_assert(j < kBufferSize, "slots_ index inside the array");
  Slot* s = SL(self, j);
  if (TRACKED(j)) { __CPROVER_assert(s->own == 1, "slot data is constructed only by the producer that claimed the slot's position, before it publishes"); T_construct_at(&s->data, v); }
  else g_T_constructed++;
}
static T_tag S_move_from(Ring* self, size_t j) {
  __CPROVER_assert(j < kBufferSize, "slots_ index inside the array");
  Slot* s = SL(self, j);
  if (TRACKED(j)) { __CPROVER_assert(s->own == 2, "slot data is moved out only by the consumer that claimed the slot's position, before it frees the slot"); return T_move_from(&s->data); }
  return s->data.value;
}
static void S_destroy(Ring* self, size_t j) {
  __CPROVER_assert(j < kBufferSize, "slots_ index inside the array");
  Slot* s = SL(self, j);
  if (TRACKED(j)) { __CPROVER_assert(s->own == 2 || g_role == 0, "slot data is destroyed only by the consumer that claimed the slot's position, before it frees the slot"); T_destroy_at(&s->data); }
  else g_T_destroyed++;
}
static OpResult OpResult_empty(void) { OpResult r; r.has = 0; r.buf_.live = 0; r.buf_.value = 0; r.buf_.moved_from = 0; return r; }
static OpResult OpResult_from(T_tag v) { OpResult r; r.has = 1; r.buf_.live = 1; r.buf_.value = v; r.buf_.moved_from = 0; g_T_constructed++; return r; }

size_t wrapIndex(size_t i)
__CPROVER_ensures(RV < kBufferSize && RV == WRAP(i))
__CPROVER_assigns()
#include "Mpmc_wrapIndex.body.inc"

/* ------------------------------------------------------------------ contracts */
size_t g_batch_i;                  /* ghost index into the batch */
size_t g_head0, g_tail0; T_tag g_head_value;
#define FRAME *self, g_last_mo, g_bad_order, g_T_constructed, g_T_destroyed, g_claims, g_publishes, g_claimed_pos, g_claimed_val, g_claimed_n
#define PRE (self == g_ring && (g_role == 0 || g_role == 1) && GLOBAL_OK(self) && g_k < kBufferSize && g_a < kBufferSize && !g_bad_order && g_claims == 0 && g_publishes == 0 && \
             g_T_constructed == 0 && g_T_destroyed == 0 && g_head0 == self->head_ && g_tail0 == self->tail_ && self->sa.own == 0 && self->sk.own == 0)
/* after every operation: invariant for the tracked slots, nothing left owned, memory-order discipline kept, occupancy bounded */
#define POST (GLOBAL_G(self) && INV_A(self) && INV_K(self) && self->sa.own == 0 && self->sk.own == 0 && !g_bad_order && self->tail_ - self->head_ <= kBufferSize)
/* a successful push: exactly one claim of one position, one object constructed, published in the claimed position's slot with seq = pos+1 */
#define PUSH_OK(val) (g_claims == 1 && g_claimed_n == 1 && g_publishes == 1 && g_T_constructed == 1 && g_T_destroyed == 0 && \
                      (g_role == 0 ==> (self->tail_ == g_tail0 + 1 && self->head_ == g_head0 && WRAP(g_tail0) == g_a && self->sa.seq == g_tail0 + 1 && \
                                        self->sa.data.live == 1 && self->sa.data.value == (val))))
#define NOTHING_DONE (g_claims == 0 && g_publishes == 0 && g_T_constructed == 0 && g_T_destroyed == 0 && (g_role == 0 ==> (self->tail_ == g_tail0 && self->head_ == g_head0)))

bool Mpmc_emplaceImpl(Ring* self, T_tag args)
__CPROVER_requires(PRE)
__CPROVER_ensures(POST)
__CPROVER_ensures(RV ==> PUSH_OK(args))
__CPROVER_ensures(!RV ==> NOTHING_DONE)
/* quiescent: a push succeeds iff the buffer is not full */
__CPROVER_ensures(g_role == 0 ==> (RV == (g_tail0 - g_head0 < kBufferSize)))
__CPROVER_assigns(FRAME)
#include "Mpmc_emplaceImpl.body.inc"

/* a successful pop: exactly one claim, the value handed out is the one published in the claimed position, destroyed exactly once,
 * slot released for position pos + N */
#define POP_OK(outval) (g_claims == 1 && g_publishes == 1 && g_T_destroyed == 1 && (outval) == g_claimed_val && \
                        (g_role == 0 ==> (self->head_ == g_head0 + 1 && self->tail_ == g_tail0 && g_claimed_pos == g_head0 && (outval) == g_head_value && \
                                          WRAP(g_head0) == g_a && self->sa.seq == g_head0 + kBufferSize && self->sa.data.live == 0)))
bool Mpmc_try_pop_ref(Ring* self, T_cell* item)
__CPROVER_requires(PRE && item->live == 1)
__CPROVER_ensures(POST)
__CPROVER_ensures(RV ==> (POP_OK(item->value) && g_T_constructed == 0 && item->live == 1))
__CPROVER_ensures(!RV ==> NOTHING_DONE)
__CPROVER_ensures(g_role == 0 ==> (RV == (g_head0 != g_tail0)))
__CPROVER_assigns(FRAME, *item)
#include "Mpmc_try_pop_ref.body.inc"

OpResult Mpmc_try_pop_opt(Ring* self)
__CPROVER_requires(PRE)
__CPROVER_ensures(POST)
__CPROVER_ensures(RV.has ==> (POP_OK(RV.buf_.value) && g_T_constructed == 1 && RV.buf_.live == 1))
__CPROVER_ensures(!RV.has ==> (NOTHING_DONE && RV.buf_.live == 0))
__CPROVER_ensures(g_role == 0 ==> ((RV.has != 0) == (g_head0 != g_tail0)))
__CPROVER_assigns(FRAME)
#include "Mpmc_try_pop_opt.body.inc"

bool Mpmc_try_pop_into(Ring* self, T_cell* storage)
__CPROVER_requires(PRE && storage->live == 0)
__CPROVER_ensures(POST)
__CPROVER_ensures(RV ==> (POP_OK(storage->value) && g_T_constructed == 1 && storage->live == 1))
__CPROVER_ensures(!RV ==> (NOTHING_DONE && storage->live == 0))
__CPROVER_ensures(g_role == 0 ==> (RV == (g_head0 != g_tail0)))
__CPROVER_assigns(FRAME, *storage)
#include "Mpmc_try_pop_into.body.inc"

#define NITEMS (KBUF + 2)
size_t Mpmc_try_push_batch(Ring* self, T_cell items[NITEMS], size_t count)
__CPROVER_requires(PRE && count <= NITEMS)
__CPROVER_ensures(POST)
/* reserves one contiguous run of RV positions with a single CAS, constructs and publishes exactly RV objects, never more than asked or than the capacity */
__CPROVER_ensures(RV <= count && RV <= kBufferSize && g_T_constructed == RV && g_T_destroyed == 0 && g_publishes == RV)
__CPROVER_ensures(RV > 0 ==> (g_claims == 1 && g_claimed_n == RV))
__CPROVER_ensures(RV == 0 ==> NOTHING_DONE)
/* quiescent, all slots tracked (kBufferSize == 2): pushes min(count, free space) elements in order at the old tail */
__CPROVER_ensures((g_role == 0 && kBufferSize == 2 && g_a != g_k) ==> (RV == (count < kBufferSize - (g_tail0 - g_head0) ? count : kBufferSize - (g_tail0 - g_head0)) && self->tail_ == g_tail0 + RV && self->head_ == g_head0))
__CPROVER_ensures((g_role == 0 && g_batch_i < RV && g_a != g_k && WRAP(g_tail0 + g_batch_i) == g_k) ==> (self->sk.seq == g_tail0 + g_batch_i + 1 && self->sk.data.value == items[g_batch_i].value))
__CPROVER_assigns(FRAME, __CPROVER_object_whole(items))
#include "Mpmc_try_push_batch.body.inc"

bool Mpmc_empty(const Ring* self)
__CPROVER_requires(self == g_ring && g_role == 0 && GLOBAL_OK(self))
__CPROVER_ensures(RV == (self->head_ == self->tail_))
__CPROVER_assigns(g_last_mo)
#include "Mpmc_empty.body.inc"
bool Mpmc_full(const Ring* self)
__CPROVER_requires(self == g_ring && g_role == 0 && GLOBAL_OK(self))
__CPROVER_ensures(RV == (self->tail_ - self->head_ == kBufferSize))
__CPROVER_assigns(g_last_mo)
#include "Mpmc_full.body.inc"
size_t Mpmc_size(const Ring* self)
__CPROVER_requires(self == g_ring && g_role == 0 && GLOBAL_OK(self))
__CPROVER_ensures(RV == self->tail_ - self->head_ && RV <= kBufferSize)
__CPROVER_assigns(g_last_mo)
#include "Mpmc_size.body.inc"

/* constructor: establishes the invariant for every slot (g_k arbitrary), quiescent and empty */
void Mpmc_ctor(Ring* self)
__CPROVER_requires(self == g_ring && g_role == 0 && self->head_ == 0 && self->tail_ == 0 && g_k < kBufferSize && g_a == g_k && self->sa.data.live == 0 && self->sa.own == 0)
__CPROVER_ensures(GLOBAL_G(self) && I_S(self, &self->sa, g_a) && QUIET_S(self, &self->sa, g_a) && self->sa.seq == g_a)
__CPROVER_assigns(*self, g_last_mo)
#include "Mpmc_ctor.body.inc"

/* destructor (quiescent): destroys exactly the elements still in the buffer, each once (tracked slot g_k arbitrary) */
void Mpmc_dtor(Ring* self)
__CPROVER_requires(self == g_ring && g_role == 0 && GLOBAL_OK(self) && g_k < kBufferSize && g_a == g_k && g_T_destroyed == 0 && g_head0 == self->head_ && g_tail0 == self->tail_)
__CPROVER_ensures(self->sa.data.live == 0 && g_T_destroyed == g_tail0 - g_head0)
__CPROVER_assigns(*self, g_last_mo, g_T_destroyed)
#include "Mpmc_dtor.body.inc"

#ifdef VERIF_CBMC
static void mk_slot(Slot* s) {
  s->own = 0; s->ownpos = 0; s->seq = nondet_size_t(); s->data.value = nondet_int(); s->data.live = nondet_bool() ? 1 : 0; s->data.moved_from = 0;
}
static void mk(Ring* r, int role, int quiet) {
  g_ring = r; g_role = role; g_bad_order = 0; g_T_constructed = 0; g_T_destroyed = 0; g_claims = 0; g_publishes = 0;
  size_t h = nondet_size_t(), t = nondet_size_t();
  r->head_ = h; r->tail_ = t; __CPROVER_assume(GLOBAL_OK(r));
  g_k = nondet_size_t(); __CPROVER_assume(g_k < kBufferSize); g_a = nondet_size_t(); __CPROVER_assume(g_a < kBufferSize);
  mk_slot(&r->sa); mk_slot(&r->sk); r->junk.own = 0;
  wrap_axioms(r);
  __CPROVER_assume(INV_A(r) && INV_K(r));
  if (quiet) __CPROVER_assume(QUIET_S(r, &r->sa, g_a) && (g_k == g_a || QUIET_S(r, &r->sk, g_k)));
  g_batch_i = nondet_size_t();
  g_head0 = h; g_tail0 = t; g_head_value = (WRAP(h) == g_a) ? r->sa.data.value : r->sk.data.value;
}
/* role is symbolic: one proof covers the concurrent case (arbitrary in-flight peers, interference) and the quiescent one */
static int pick_role(int* quiet) { int role = nondet_bool() ? 1 : 0; *quiet = (role == 0); return role; }
void h_wrapIndex(void) { size_t i; wrapIndex(i); }
void h_Mpmc_emplaceImpl(void) { Ring r; int q; int role = pick_role(&q); mk(&r, role, q); T_tag a; Mpmc_emplaceImpl(&r, a); }
void h_Mpmc_try_pop_ref(void) { Ring r; int q; int role = pick_role(&q); mk(&r, role, q); T_cell it; it.live = 1; it.moved_from = 0; Mpmc_try_pop_ref(&r, &it); }
void h_Mpmc_try_pop_opt(void) { Ring r; int q; int role = pick_role(&q); mk(&r, role, q); Mpmc_try_pop_opt(&r); }
void h_Mpmc_try_pop_into(void) { Ring r; int q; int role = pick_role(&q); mk(&r, role, q); T_cell st; st.live = 0; st.moved_from = 0; Mpmc_try_pop_into(&r, &st); }
void h_Mpmc_try_push_batch(void) { Ring r; int q; int role = pick_role(&q); mk(&r, role, q); T_cell items[NITEMS]; for (size_t j = 0; j < NITEMS; ++j) { items[j].live = 1; items[j].moved_from = 0; } size_t c; Mpmc_try_push_batch(&r, items, c); }
void h_Mpmc_empty(void) { Ring r; mk(&r, 0, 1); Mpmc_empty(&r); }
void h_Mpmc_full(void) { Ring r; mk(&r, 0, 1); Mpmc_full(&r); }
void h_Mpmc_size(void) { Ring r; mk(&r, 0, 1); Mpmc_size(&r); }
void h_Mpmc_ctor(void) { Ring r; g_ring = &r; g_role = 0; r.head_ = 0; r.tail_ = 0; g_k = nondet_size_t(); __CPROVER_assume(g_k < kBufferSize); g_a = g_k; r.sa.data.live = 0; r.sa.own = 0; r.sa.seq = nondet_size_t(); r.junk.own = 0; Mpmc_ctor(&r); }
void h_Mpmc_dtor(void) { Ring r; mk(&r, 0, 1); __CPROVER_assume(g_a == g_k); Mpmc_dtor(&r); }
#endif
#endif
