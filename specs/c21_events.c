/* C21: Latch (dispenso/latch.h) and the Linux CompletionEventImpl (dispenso/detail/completion_event_impl.h).
 * Local protocol obligations over the shared word, for every value of the word and every argument:
 *   (i)   whoever moves the word to the completed value issues FUTEX_WAKE(all) on that word after the store,
 *   (ii)  a waiter parks only with `expected` = the value it has just loaded, which is not the completed value,
 *   (iii) wait() returns only after loading the completed value; the word becomes "completed" only when it should.
 * With the futex axiom (compare-and-block is atomic with respect to wake) these give: no lost wake-up, no early return.
 * The composition argument itself is not machine-checked (DESIGN 2.4). Atomics are sequentially consistent (A-SC). */
#include "prelude.h"
#include "atomics.h"
#include <limits.h>
#define RV __CPROVER_return_value

typedef struct CompletionEventImpl { int status_; } CompletionEventImpl;   /* union { int ftx_; atomic<int> status_; }: one word */
typedef struct Latch { CompletionEventImpl impl_; } Latch;

int g_last_mo;
/* ghost record of what this call did to the word and the futex */
int g_last_loaded; bool g_loaded;          /* value of the last atomic load of the word by this call */
unsigned g_stores, g_wakes, g_waits;
bool g_wake_after_store;                   /* a WAKE(all) happened after the most recent store */
int g_completed;                           /* the completed value for the unit under verification */
bool g_bad_wait;

static int A_FETCH_SUB_int(int* x, int v, int mo) { VERIF_INTERFERE(); A_NOTE(mo); int old = *x; *x = (int)((unsigned)old - (unsigned)v); return old; }
static int A_LOAD_int(const int* x, int mo) { VERIF_INTERFERE(); A_NOTE(mo); g_last_loaded = *x; g_loaded = 1; return *x; }
static void A_STORE_int(int* x, int v, int mo) { VERIF_INTERFERE(); A_NOTE(mo); *x = v; g_stores++; g_wake_after_store = 0; }

/* futex axiom stubs */
static void G_futex_wake(int* addr, int n) {
  __CPROVER_assert(n == INT_MAX, "FUTEX_WAKE wakes all waiters");
  g_wakes++; g_wake_after_store = 1;
}
int g_errno;   /* errno after the futex call: arbitrary */
#undef errno
#define errno g_errno
#include <errno.h>
#undef errno
#define errno g_errno
int nondet_int(void);
static int G_futex_wait(int* addr, int expected) {
  /* obligation (ii) */
  __CPROVER_assert(g_loaded && expected == g_last_loaded, "FUTEX_WAIT is called with the value this call has just loaded from the word");
  __CPROVER_assert(expected != g_completed, "a waiter never parks on the completed value");
  g_waits++;
  /* while parked (or on a spurious return) other threads may change the word arbitrarily */
  int nd; *addr = nd; g_loaded = 0;
  /* return value and errno are arbitrary: woken (0), EAGAIN (value changed), EINTR (signal), spurious */
  g_errno = nondet_int();
  return nondet_int() ? -1 : 0;
}

/* FUTEX_WAIT on a caller-supplied value (waitUntilChanged): a stale expected value is harmless (the kernel returns at once), parking on the
 * completed value is not: after completion nobody wakes the word again */
static int G_futex_wait_value(int* addr, int expected) {
  __CPROVER_assert(expected != g_completed, "a waiter never parks on the completed value");
  g_waits++;
  int nd; *addr = nd; g_loaded = 0;
  g_errno = nondet_int();
  return nondet_int() ? -1 : 0;
}

/* ---------------- CompletionEventImpl ---------------- */
void CEI_notify(CompletionEventImpl* self, int completedStatus)
__CPROVER_ensures(self->status_ == completedStatus)
__CPROVER_ensures(g_stores == __CPROVER_old(g_stores) + 1 && g_wakes == __CPROVER_old(g_wakes) + 1 && g_wake_after_store)
__CPROVER_ensures(MO_HAS_RELEASE(g_last_mo))
__CPROVER_assigns(self->status_, g_stores, g_wakes, g_wake_after_store, g_last_mo)
#include "CEI_notify.body.inc"

void CEI_wait(CompletionEventImpl* self, int completedStatus)
__CPROVER_requires(g_completed == completedStatus)
/* (iii) returns only after a load of the completed value, with acquire ordering */
__CPROVER_ensures(g_loaded && g_last_loaded == completedStatus && MO_HAS_ACQUIRE(g_last_mo))
__CPROVER_ensures(g_stores == __CPROVER_old(g_stores) && g_wakes == __CPROVER_old(g_wakes))
__CPROVER_assigns(self->status_, g_last_loaded, g_loaded, g_waits, g_last_mo, g_errno)
#include "CEI_wait.body.inc"

void CEI_waitUntilChanged(CompletionEventImpl* self, int currentValue)
/* the caller must not ask to sleep on the completed value (that sleep is never ended by notify: a lost wake-up) */
__CPROVER_requires(currentValue != g_completed)
__CPROVER_ensures(g_stores == __CPROVER_old(g_stores) && g_wakes == __CPROVER_old(g_wakes))
__CPROVER_assigns(self->status_, g_loaded, g_waits, g_errno)
#include "CEI_waitUntilChanged.body.inc"

/* ---------------- Latch ---------------- */
/* std::latch contract: n <= current count (and the count fits an int) */
void Latch_count_down(Latch* self, uint32_t n)
__CPROVER_requires(self->impl_.status_ >= 0 && n <= (uint32_t)self->impl_.status_)
#ifdef KF_EXCLUDE
__CPROVER_requires(!(KF_EXCLUDE))
#endif
__CPROVER_ensures(self->impl_.status_ == __CPROVER_old(self->impl_.status_) - (int)n)
/* (i) the decrement that reaches zero wakes the waiters; no wake obligation otherwise */
__CPROVER_ensures(self->impl_.status_ == 0 && __CPROVER_old(self->impl_.status_) != 0 ==> (g_wakes > __CPROVER_old(g_wakes) && g_wake_after_store))
__CPROVER_assigns(self->impl_.status_, g_stores, g_wakes, g_wake_after_store, g_last_mo)
#include "Latch_count_down.body.inc"

bool Latch_try_wait(const Latch* self);
void Latch_wait(const Latch* self);
void Latch_arrive_and_wait(Latch* self)
__CPROVER_requires(self->impl_.status_ >= 1 && g_completed == 0)
/* the last arriver wakes everybody; every other arriver returns only after loading 0 */
__CPROVER_ensures(__CPROVER_old(self->impl_.status_) == 1 ==> (self->impl_.status_ == 0 && g_wakes > __CPROVER_old(g_wakes) && g_wake_after_store))
__CPROVER_ensures(__CPROVER_old(self->impl_.status_) > 1 ==> (g_loaded && g_last_loaded == 0))
__CPROVER_assigns(self->impl_.status_, g_stores, g_wakes, g_wake_after_store, g_last_mo, g_last_loaded, g_loaded, g_waits, g_errno)
#include "Latch_arrive_and_wait.body.inc"

bool Latch_try_wait(const Latch* self)
__CPROVER_ensures(RV == (self->impl_.status_ == 0) && MO_HAS_ACQUIRE(g_last_mo) && g_loaded && g_last_loaded == self->impl_.status_)
__CPROVER_assigns(g_last_loaded, g_loaded, g_last_mo)
#include "Latch_try_wait.body.inc"

void Latch_wait(const Latch* self)
__CPROVER_requires(g_completed == 0)
__CPROVER_ensures(g_loaded && g_last_loaded == 0)
__CPROVER_assigns(self->impl_.status_, g_last_loaded, g_loaded, g_waits, g_last_mo, g_errno)
#include "Latch_wait.body.inc"

#ifdef VERIF_CBMC
#define GHOST_RESET() (g_stores = 0, g_wakes = 0, g_waits = 0)
void h_CEI_notify(void) { GHOST_RESET(); CompletionEventImpl s; int status0 = nondet_int(); s.status_ = status0; int c; CEI_notify(&s, c); }
void h_CEI_wait(void) { GHOST_RESET(); CompletionEventImpl s; int status0 = nondet_int(); s.status_ = status0; int c; CEI_wait(&s, c); }
void h_Latch_count_down(void) { GHOST_RESET(); Latch s; int count0 = nondet_int(); s.impl_.status_ = count0; uint32_t n; Latch_count_down(&s, n); }
void h_Latch_arrive_and_wait(void) { GHOST_RESET(); Latch s; int count0 = nondet_int(); s.impl_.status_ = count0; Latch_arrive_and_wait(&s); }
void h_Latch_try_wait(void) { GHOST_RESET(); Latch s; int count0 = nondet_int(); s.impl_.status_ = count0; Latch_try_wait(&s); }
void h_CEI_waitUntilChanged(void) { GHOST_RESET(); CompletionEventImpl s; int status0 = nondet_int(); s.status_ = status0; int c; CEI_waitUntilChanged(&s, c); }
void h_Latch_wait(void) { GHOST_RESET(); Latch s; int count0 = nondet_int(); s.impl_.status_ = count0; Latch_wait(&s); }
#endif
