/* C48: thread count of parallel_for_staticImpl (dispenso/detail/par_for_static.h): the slice that computes numThreads and numToSchedule */
#include "prelude.h"
#define RV __CPROVER_return_value
DEF_MINMAX(size_type)
typedef struct ChunkedRange {
#include "ChunkedRange.fields.inc"
} ChunkedRange;
typedef struct PsiThreads { size_type numThreads; size_type numToSchedule; } PsiThreads;
#define SIZE(r) ((mathint)(r)->end - (mathint)(r)->start)
size_type ChunkedRange_size(const ChunkedRange* self)
__CPROVER_requires(self->start <= self->end && SIZE(self) <= I64_MAX)
__CPROVER_ensures((mathint)RV == SIZE(self))
__CPROVER_assigns()
#include "ChunkedRange_size.body.inc"

PsiThreads psi_numthreads(ChunkedRange range, ssize_t maxThreads, size_type numPoolThreads, uint32_t granularity, bool wait)
__CPROVER_requires(range.start < range.end && SIZE(&range) <= I64_MAX - 1 && maxThreads >= 2 && (mathint)maxThreads <= 2147483647 && numPoolThreads >= 1 && (mathint)numPoolThreads <= 2147483647 && granularity >= 1)
/* 1 <= numThreads <= maxThreads: what the skeleton's stub contract for G_staticImpl relies on */
__CPROVER_ensures(RV.numThreads >= 1 && (mathint)RV.numThreads <= (mathint)maxThreads && (mathint)RV.numThreads <= (mathint)numPoolThreads + 1)
__CPROVER_ensures((mathint)RV.numThreads <= SIZE(&range))
/* scheduled + (caller if wait) == numThreads */
__CPROVER_ensures((mathint)RV.numToSchedule + (wait ? 1 : 0) == (mathint)RV.numThreads)
__CPROVER_assigns()
{
#include "psi_numthreads.slice.inc"
#include "psi_numtoschedule.slice.inc"
  return (PsiThreads){numThreads, numToSchedule};
}
