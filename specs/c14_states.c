/* C14: which state object each invocation is bound to.
 *  - initStates (dispenso/parallel_for.h): the container ends up with at least numNeeded (>= 1) elements
 *  - parallel_for_staticImpl: scheduler index -> chunk index remap is injective, avoids the caller's chunk, stays < numThreads;
 *    the state iterator is advanced by exactly that chunk index, so distinct invocations get distinct states */
#include "prelude.h"
#define RV __CPROVER_return_value

/* the states container is rendered by its size (clear -> 0, emplace_back -> +1) */
size_t initStates_size(size_t states_size, size_t numNeeded, bool reuseExistingState)
__CPROVER_requires(numNeeded >= 1)
__CPROVER_ensures(RV >= numNeeded && RV >= 1)
__CPROVER_ensures(reuseExistingState ==> RV >= states_size)
__CPROVER_ensures(!reuseExistingState ==> RV == numNeeded)
__CPROVER_assigns()
#include "initStates.body.inc"

typedef struct Remap { size_type chunkIdx; size_type stateAdvance; } Remap;
/* generator lambda of parallel_for_staticImpl: idx in [0, numToSchedule) */
Remap psi_remap(size_t idx, size_type callerChunk, bool wait, size_type numThreads)
__CPROVER_requires(numThreads >= 1 && (mathint)numThreads <= 2147483647 && 0 <= callerChunk && callerChunk < numThreads)
__CPROVER_requires((mathint)idx < (mathint)numThreads - (wait ? 1 : 0))
__CPROVER_ensures(0 <= RV.chunkIdx && RV.chunkIdx < numThreads)
__CPROVER_ensures(wait ==> RV.chunkIdx != callerChunk)
__CPROVER_ensures((mathint)RV.chunkIdx == (mathint)idx + ((wait && (mathint)idx >= (mathint)callerChunk) ? 1 : 0))
/* the state handed to this chunk is states[chunkIdx] */
__CPROVER_ensures(RV.stateAdvance == RV.chunkIdx)
__CPROVER_assigns()
{
#include "psi_remap.slice.inc"
  return (Remap){chunkIdx, stateAdvance};
}
/* distinct scheduler indices get distinct chunks (hence distinct state objects), none of them the caller's */
void c14_static_states_distinct(size_t i, size_t j, size_type callerChunk, bool wait, size_type numThreads)
__CPROVER_requires(numThreads >= 1 && (mathint)numThreads <= 2147483647 && 0 <= callerChunk && callerChunk < numThreads && i != j)
__CPROVER_requires((mathint)i < (mathint)numThreads - (wait ? 1 : 0) && (mathint)j < (mathint)numThreads - (wait ? 1 : 0))
__CPROVER_assigns()
{
  Remap a = psi_remap(i, callerChunk, wait, numThreads);
  Remap b = psi_remap(j, callerChunk, wait, numThreads);
  __CPROVER_assert(a.stateAdvance != b.stateAdvance, "two scheduled chunks never share a state object");
  if (wait) __CPROVER_assert(a.stateAdvance != callerChunk, "a scheduled chunk never uses the caller's state object");
}
/* C12 (static path): every chunk index in [0, numThreads) is run by someone: the caller runs callerChunk (wait), every other chunk is
 * produced by the scheduler index given as witness; with injectivity (c14_static_states_distinct) the scheduled chunks and the
 * caller's chunk are exactly the chunk indices, each once */
void c12_static_chunks_cover(size_type c, size_type callerChunk, bool wait, size_type numThreads)
__CPROVER_requires(numThreads >= 1 && (mathint)numThreads <= 2147483647 && 0 <= callerChunk && callerChunk < numThreads && 0 <= c && c < numThreads)
__CPROVER_assigns()
{
  if (wait && c == callerChunk) return;      /* run by the calling thread (psi_callerRun) */
  size_t idx = (size_t)((wait && c > callerChunk) ? c - 1 : c);
  __CPROVER_assert((mathint)idx < (mathint)numThreads - (wait ? 1 : 0), "the witness is a scheduled index");
  Remap a = psi_remap(idx, callerChunk, wait, numThreads);
  __CPROVER_assert(a.chunkIdx == c, "every chunk other than the caller's is produced by a scheduler index");
}
/* the chunk the calling thread runs itself (wait == true) is callerChunk, with the state object of that index */
typedef struct CallerRun { size_type boundsArg; size_type stateAdvance; } CallerRun;
CallerRun psi_callerRun(size_type callerChunk)
__CPROVER_ensures(RV.boundsArg == callerChunk && RV.stateAdvance == callerChunk)
__CPROVER_assigns()
{
#include "psi_callerRun.slice.inc"
  return (CallerRun){callerBoundsArg, stateAdvance};
}
/* caller chunk selection */
size_type psi_callerChunk(int32_t callerRing, size_type numThreads)
__CPROVER_requires(numThreads >= 1 && (mathint)numThreads <= 2147483647)
__CPROVER_ensures(0 <= RV && RV < numThreads)
__CPROVER_assigns()
{
#include "psi_callerChunk.slice.inc"
  return callerChunk;
}
