/* C24: AsyncRequest<T> (dispenso/async_request.h) under rely/guarantee with an ownership ghost for obj_ (DESIGN 2.4).
 * Shared word state_: kNone=0, kNeedsUpdate=1, kUpdating=2, kReady=3.  obj_ is an OpResult (contracts of specs/c40_opresult.c).
 * Every atomic access is preceded by an interference step in which OTHER threads (any number of producers and consumers, as the
 * class documentation permits) perform any sequence of their legal operations; what they may do is limited only by what this
 * thread currently owns:
 *   g_own_obj  : this thread holds obj_ exclusively (it won the CAS kNeedsUpdate->kUpdating, and has not yet published kReady)
 * Non-atomic obj_ may be touched only while owned; ownership is obtained only by a successful RMW and given up only by a store
 * with release ordering (checked from the memory-order argument).  -DSINGLE_CONSUMER switches to the weaker rely in which no
 * other thread consumes (then observing kReady also confers ownership). */
#include "prelude.h"
#include "lifetime.h"
#include "atomics.h"
#define RV __CPROVER_return_value
unsigned g_T_constructed, g_T_destroyed;
int g_last_mo;
typedef struct OpResult { T_cell buf_; T_cell* ptr_; } OpResult;
#define INV(o) (((o)->ptr_ == (T_cell*)0 || (o)->ptr_ == &(o)->buf_) && ((o)->buf_.live == ((o)->ptr_ != (T_cell*)0 ? 1 : 0)))
#define ENGAGED(o) ((o)->ptr_ != (T_cell*)0)
enum { kNone = 0, kNeedsUpdate = 1, kUpdating = 2, kReady = 3 };
typedef struct AsyncRequest { int state_; OpResult obj_; } AsyncRequest;

bool g_own_obj;            /* ownership ghost */
bool g_touched_unowned;    /* obj_ touched without owning it */
bool g_bad_transfer;       /* ownership given up by a store without release, or taken by an RMW without acquire */
T_tag g_fresh_value; bool g_ready_is_fresh;   /* ghost: the value held while state_==kReady was emplaced after the latest request */
_Bool nondet_bool(void); int nondet_int(void);
AsyncRequest* g_self;

static void others_act(void) {
  /* interference: other producers/consumers run; they cannot touch what this thread owns */
  if (g_own_obj) return;                       /* state_ stays kUpdating, obj_ untouched: nobody else may leave kUpdating */
  int s = nondet_int(); __CPROVER_assume(s >= kNone && s <= kReady);
#ifdef SINGLE_CONSUMER
  /* no other consumer: once kReady is reached it stays until this thread consumes it */
  if (g_self->state_ == kReady) s = kReady;
#endif
  if (s != g_self->state_ || nondet_bool()) {
    /* obj_ may have been emplaced / moved-from by its temporary owners; it is a valid optional afterwards */
    _Bool e = nondet_bool(); g_self->obj_.ptr_ = e ? &g_self->obj_.buf_ : (T_cell*)0; g_self->obj_.buf_.live = e ? 1 : 0;
    g_self->obj_.buf_.value = nondet_int();
    g_self->state_ = s;
    /* global invariant kept by everybody: kReady => obj_ engaged with a value emplaced after the latest request */
    if (s == kReady) { g_self->obj_.ptr_ = &g_self->obj_.buf_; g_self->obj_.buf_.live = 1; g_ready_is_fresh = 1; g_fresh_value = g_self->obj_.buf_.value; }
  }
}
#undef VERIF_INTERFERE
#define VERIF_INTERFERE() others_act()

static bool A_CAS_state(int* x, int* expected, int desired, int mo) {
  VERIF_INTERFERE(); A_NOTE(mo);
  if (*x == *expected) {
    *x = desired;
    if (*expected == kNeedsUpdate && desired == kUpdating) { g_own_obj = 1; if (!MO_HAS_ACQUIRE(mo)) g_bad_transfer = 1; }   /* producer claim */
    if (*expected == kReady && desired != kReady) { g_own_obj = 1; if (!MO_HAS_ACQUIRE(mo)) g_bad_transfer = 1; }             /* consumer claim by RMW */
    return 1;
  }
  *expected = *x; return 0;
}
static int A_LOAD_state(const int* x, int mo) {
  VERIF_INTERFERE(); A_NOTE(mo);
#ifdef SINGLE_CONSUMER
  if (*x == kReady) { g_own_obj = 1; if (!MO_HAS_ACQUIRE(mo)) g_bad_transfer = 1; }    /* sole consumer: observing kReady is a claim */
#endif
  return *x;
}
static void A_STORE_state(int* x, int v, int mo) {
  VERIF_INTERFERE(); A_NOTE(mo);
  if (g_own_obj) { if (!MO_HAS_RELEASE(mo)) g_bad_transfer = 1; g_own_obj = 0; }         /* publishing gives obj_ up */
  if (v == kReady) { g_ready_is_fresh = 1; }
  *x = v;
}
#define TOUCH_OBJ() do { if (!g_own_obj) g_touched_unowned = 1; } while (0)

/* OpResult operations used by AsyncRequest: contracts proved in specs/c40_opresult.c (same clauses) */
T_cell* OpResult_emplace(OpResult* self, T_tag args)
__CPROVER_requires(INV(self))
__CPROVER_ensures(INV(self) && ENGAGED(self) && self->buf_.value == args && RV == self->ptr_)
__CPROVER_assigns(self->ptr_, self->buf_, g_T_constructed, g_T_destroyed)
;
void OpResult_ctor_move(OpResult* self, OpResult* oth)
__CPROVER_requires(self->buf_.live == 0 && INV(oth))
__CPROVER_ensures(INV(self) && ENGAGED(self) == (__CPROVER_old(oth->ptr_) != (T_cell*)0) && (ENGAGED(self) ==> self->buf_.value == __CPROVER_old(oth->buf_.value)))
__CPROVER_ensures(INV(oth))
__CPROVER_assigns(self->ptr_, self->buf_, oth->ptr_, oth->buf_, g_T_constructed, g_T_destroyed)
;
void OpResult_ctor_default(OpResult* self)
__CPROVER_requires(self->buf_.live == 0)
__CPROVER_ensures(INV(self) && !ENGAGED(self))
__CPROVER_assigns(self->ptr_)
;

void AR_requestUpdate(AsyncRequest* self)
__CPROVER_requires(self == g_self && !g_own_obj && INV(&self->obj_))
__CPROVER_ensures(!g_touched_unowned && !g_bad_transfer && !g_own_obj)
__CPROVER_assigns(*self, g_last_mo, g_own_obj, g_bad_transfer, g_ready_is_fresh, g_fresh_value)
#include "AR_requestUpdate.body.inc"

bool AR_updateRequested(const AsyncRequest* self)
__CPROVER_requires(self == g_self && !g_own_obj && INV(&self->obj_))
__CPROVER_ensures(!g_touched_unowned && MO_HAS_ACQUIRE(g_last_mo))
__CPROVER_assigns(*g_self, g_last_mo, g_own_obj, g_bad_transfer, g_ready_is_fresh, g_fresh_value)
#include "AR_updateRequested.body.inc"

bool g_cas_won;   /* ghost: this call won kNeedsUpdate->kUpdating */
bool AR_tryEmplaceUpdate(AsyncRequest* self, T_tag args)
__CPROVER_requires(self == g_self && !g_own_obj && !g_touched_unowned && !g_bad_transfer && INV(&self->obj_))
/* obj_ is written only while owned, ownership comes from the RMW and is released by the kReady store */
__CPROVER_ensures(!g_touched_unowned && !g_bad_transfer && !g_own_obj)
/* succeeds only by performing kNeedsUpdate -> kUpdating -> kReady with the new value in place at publication */
__CPROVER_ensures(RV ==> (g_ready_is_fresh && MO_HAS_RELEASE(g_last_mo)))
__CPROVER_assigns(*self, g_last_mo, g_own_obj, g_touched_unowned, g_bad_transfer, g_ready_is_fresh, g_fresh_value, g_T_constructed, g_T_destroyed)
#include "AR_tryEmplaceUpdate.body.inc"

void AR_getUpdate(AsyncRequest* self, OpResult* out)
__CPROVER_requires(self == g_self && !g_own_obj && !g_touched_unowned && !g_bad_transfer && INV(&self->obj_) && out->buf_.live == 0)
#ifdef KF_EXCLUDE
__CPROVER_requires(!(KF_EXCLUDE))
#endif
/* the value is moved out only while this call holds obj_ exclusively: it is delivered to this call alone */
__CPROVER_ensures(!g_touched_unowned && !g_bad_transfer && !g_own_obj)
__CPROVER_ensures(INV(out))
/* a value is returned only if one was emplaced after the latest request */
__CPROVER_ensures(ENGAGED(out) ==> g_ready_is_fresh)
__CPROVER_assigns(*self, *out, g_last_mo, g_own_obj, g_touched_unowned, g_bad_transfer, g_ready_is_fresh, g_fresh_value, g_T_constructed, g_T_destroyed)
#include "AR_getUpdate.body.inc"

#ifdef VERIF_CBMC
static void mk(AsyncRequest* a) {
  int s = nondet_int(); __CPROVER_assume(s >= kNone && s <= kReady); a->state_ = s;
  _Bool e = nondet_bool(); a->obj_.ptr_ = e ? &a->obj_.buf_ : (T_cell*)0; a->obj_.buf_.live = e ? 1 : 0;
  g_ready_is_fresh = 0;
  if (s == kReady) { a->obj_.ptr_ = &a->obj_.buf_; a->obj_.buf_.live = 1; g_ready_is_fresh = 1; }
  g_self = a; g_own_obj = 0; g_touched_unowned = 0; g_bad_transfer = 0; g_T_constructed = 0; g_T_destroyed = 0;
}
void h_AR_requestUpdate(void) { AsyncRequest a; mk(&a); AR_requestUpdate(&a); }
void h_AR_updateRequested(void) { AsyncRequest a; mk(&a); AR_updateRequested(&a); }
void h_AR_tryEmplaceUpdate(void) { AsyncRequest a; mk(&a); T_tag v; AR_tryEmplaceUpdate(&a, v); }
void h_AR_getUpdate(void) { AsyncRequest a; OpResult out; out.buf_.live = 0; mk(&a); AR_getUpdate(&a, &out); }
#endif
