/* C17/C12/C13: StaticChunkMapper<IntegerT>::operator() (dispenso/detail/par_for_static.h), the derivation slice of
 * parallel_for_staticImpl that builds it, and ChunkedRange<IntegerT>::size() (dispenso/parallel_for.h).
 * Instantiation comes from -DIntegerT=.. -DU=<unsigned of same width> -Dsize_type=.. -DIT_MAX=.. */
#include "prelude.h"
#define SKIP_GRANULAR_HARNESS
#include "c17_chunking_decls.h"

typedef struct ChunkedRange {
#include "ChunkedRange.fields.inc"
} ChunkedRange;

typedef struct StaticChunkMapper {
#include "StaticChunkMapper.fields.inc"
} StaticChunkMapper;

typedef struct PairII { IntegerT first; IntegerT second; } PairII;

static size_type MIN_size_type(size_type a, size_type b) { return b < a ? b : a; }
static size_type MAX_size_type(size_type a, size_type b) { return a < b ? b : a; }

/* true (mathematical) chunk sizes: the IntegerT fields hold them modulo 2^W (they may wrap, e.g. int8_t chunk
 * 128 is stored as -128); both are < 2^W because a range of IntegerT has fewer than 2^W elements. */
#define CS(m) ((mathint)((U)((m)->chunkSize)))
#define SS(m) ((mathint)((U)((m)->smallChunk)))
#define NT(m) ((mathint)(m)->numThreads)
#define TI(m) ((mathint)(m)->transIdx)
#define RS(m) ((mathint)(m)->rangeStart)
#define RE(m) ((mathint)(m)->rangeEnd)
/* boundary k (0..numThreads) of the partition the mapper denotes */
#define BOUND(m, k) (RS(m) + ((mathint)(k) < TI(m) ? (mathint)(k) * CS(m) : TI(m) * CS(m) + ((mathint)(k) - TI(m)) * SS(m)))
#define WF(m) ((m)->numThreads >= 1 && 0 <= (m)->transIdx && (m)->transIdx <= (m)->numThreads && \
               SS(m) <= CS(m) && ((m)->transIdx >= 1) && RE(m) - RS(m) <= I64_MAX && \
               RS(m) + TI(m) * CS(m) + (NT(m) - TI(m)) * SS(m) == RE(m))

size_type ChunkedRange_size(const ChunkedRange* self)
__CPROVER_requires(self->start <= self->end)
__CPROVER_requires((mathint)self->end - (mathint)self->start <= I64_MAX)
__CPROVER_ensures((mathint)RV == (mathint)self->end - (mathint)self->start)
__CPROVER_assigns()
#include "ChunkedRange_size.body.inc"

PairII StaticChunkMapper_call(const StaticChunkMapper* self, size_type idx)
__CPROVER_requires(WF(self) && 0 <= idx && idx < self->numThreads)
__CPROVER_ensures((mathint)RV.first == BOUND(self, idx))
__CPROVER_ensures((mathint)RV.second == BOUND(self, (mathint)idx + 1))
__CPROVER_assigns()
#include "StaticChunkMapper_call.body.inc"

/* ---- property-level lemmas: proved from the contract of StaticChunkMapper_call alone (modular) ---- */
void c17_mapper_partition(const StaticChunkMapper* m, size_type idx)
__CPROVER_requires(WF(m) && 0 <= idx && idx < m->numThreads)
__CPROVER_assigns()
{
  PairII a = StaticChunkMapper_call(m, idx);
  /* inside the range, non-negative size, and the size rule: larger chunks first, sizes are CS or SS */
  __CPROVER_assert(m->rangeStart <= a.first && a.first <= a.second && a.second <= m->rangeEnd, "chunk lies inside [rangeStart, rangeEnd]");
  __CPROVER_assert((mathint)a.second - (mathint)a.first == (idx < m->transIdx ? CS(m) : SS(m)), "chunk size is chunkSize below transIdx, smallChunk from transIdx on");
  if (idx == 0) {
    __CPROVER_assert(a.first == m->rangeStart, "first chunk starts at rangeStart");
  }
  if (idx + 1 == m->numThreads) {
    __CPROVER_assert(a.second == m->rangeEnd, "last chunk ends at rangeEnd");
  } else {
    PairII b = StaticChunkMapper_call(m, idx + 1);
    __CPROVER_assert(a.second == b.first, "chunk idx ends where chunk idx+1 starts");
  }
}

/* ---- derivation slice of parallel_for_staticImpl ---- */
StaticChunkMapper psi_derive(ChunkedRange range, size_type numThreads, uint32_t granularity)
__CPROVER_requires(range.start < range.end && (mathint)range.end - (mathint)range.start <= I64_MAX - 1)
__CPROVER_requires(granularity >= 1 && 1 <= numThreads && (mathint)numThreads <= (mathint)range.end - (mathint)range.start)
__CPROVER_requires((mathint)numThreads + ((mathint)range.end - (mathint)range.start) <= I64_MAX)
__CPROVER_requires(granularity > 1 ==> (((mathint)range.end - (mathint)range.start) % (mathint)granularity == 0 &&
                   (mathint)numThreads * (mathint)granularity <= (mathint)range.end - (mathint)range.start))
#ifdef KF_EXCLUDE
__CPROVER_requires(!(KF_EXCLUDE))
#endif
__CPROVER_ensures(WF(&RV))
__CPROVER_ensures(RV.numThreads == numThreads && RV.rangeStart == range.start && RV.rangeEnd == range.end)
__CPROVER_ensures(CS(&RV) - SS(&RV) <= (granularity > 1 ? (mathint)granularity : 1))
__CPROVER_ensures(granularity > 1 ==> (CS(&RV) % (mathint)granularity == 0 && SS(&RV) % (mathint)granularity == 0))
__CPROVER_ensures(SS(&RV) >= 1)
__CPROVER_assigns()
{
#include "psi_derive.slice.inc"
  return chunkRange;
}

#ifdef VERIF_CBMC
void h_c17_mapper_partition(void) { StaticChunkMapper m; size_type idx; c17_mapper_partition(&m, idx); }
void h_StaticChunkMapper_call(void) { StaticChunkMapper m; size_type idx; StaticChunkMapper_call(&m, idx); }
#endif

/* C13 (static path): with chunk sizes that are multiples of the granularity (psi_derive's postcondition), every chunk the
 * mapper hands out has a size that is a multiple of the granularity */
void c13_static_granular(const StaticChunkMapper* m, size_type idx, uint32_t granularity)
__CPROVER_requires(WF(m) && 0 <= idx && idx < m->numThreads && granularity >= 1)
__CPROVER_requires(CS(m) % (mathint)granularity == 0 && SS(m) % (mathint)granularity == 0)
__CPROVER_assigns()
{
  PairII a = StaticChunkMapper_call(m, idx);
  /* "multiple of the granularity" with an explicit witness: size == w * granularity */
  mathint w = (idx < m->transIdx ? CS(m) : SS(m)) / (mathint)granularity;
  __CPROVER_assert((mathint)a.second - (mathint)a.first == w * (mathint)granularity, "static chunk size is a multiple of the granularity");
}
