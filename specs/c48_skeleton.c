/* C48 / C14: the control skeleton of the main dispenso::parallel_for overload (dispenso/parallel_for.h), extracted whole.
 * Callee paths are stubs whose contracts say how many body invocations they make runnable and whether they have been waited
 * for; arithmetic callees are replaced by the (proved) contracts of specs/c12_sizing.c, restricted to the clauses needed here.
 * Ghost ledger:
 *   g_running        body invocations made runnable on pool threads and not yet waited for (they MAY overlap with anything later)
 *   g_state_busy[i]  state object i is bound to such an invocation
 *   every invocation on the caller (G_body) asserts  g_running + 1 <= limit  (C48)  and  !g_state_busy[its state]  (C14)
 * limit = max(1, options.maxThreads). */
#include "prelude.h"
#define RV __CPROVER_return_value
DEF_MINMAX(uint32_t)
DEF_MINMAX(int32_t)
DEF_MINMAX(size_type)

typedef struct ChunkedRange {
#include "ChunkedRange.fields.inc"
} ChunkedRange;
typedef struct GranularityInfo
#include "GranularityInfo.fields.inc"
GranularityInfo;
typedef struct ChunkSizingResult { size_type maxThreads; bool isStatic; } ChunkSizingResult;
typedef struct Tuple2 { size_type _0; size_type _1; } Tuple2;
typedef struct ParForOptions { uint32_t maxThreads; bool wait; int defaultChunking; uint32_t minItemsPerChunk; uint32_t granularity; bool reuseExistingState; } ParForOptions;

#define NSTATE 8                 /* ghost table size; indices >= NSTATE-1 share the last slot (sound: more sharing, never less) */
#define SLOT(i) ((i) < NSTATE - 1 ? (i) : NSTATE - 1)
unsigned long g_running, g_limit, g_max_seen, g_states;
bool g_state_busy[NSTATE];
bool g_violation_c48, g_violation_c14;
size_type g_N; bool g_recursive;
bool g_static_nowait_pending;   /* parallel_for_staticImpl returned without waiting: its chunks are still running */
bool g_known_tail_skipped;
unsigned g_body_calls_on_caller;
#define ALL_FREE (!g_state_busy[0] && !g_state_busy[1] && !g_state_busy[2] && !g_state_busy[3] && !g_state_busy[4] && !g_state_busy[5] && !g_state_busy[6] && !g_state_busy[7])

static void G_wait(void) { g_running = 0; for (unsigned i = 0; i < NSTATE; ++i) g_state_busy[i] = 0; }
static void G_body(unsigned long stateIdx, IntegerT a, IntegerT b) {
  if (g_running + 1 > g_limit) g_violation_c48 = 1;
  if (g_state_busy[SLOT(stateIdx)]) g_violation_c14 = 1;
  if (g_states < 1) g_violation_c14 = 1;       /* the states container must hold the state that is used */
  g_body_calls_on_caller++;
}
/* serial fallback on the caller: it is the only thing that runs on that path, so it must be handed the whole range (C12: every index once) */
bool g_violation_c12;
static void G_body_whole(unsigned long stateIdx, IntegerT a, IntegerT b, IntegerT rangeStart, IntegerT rangeEnd) {
  if (a != rangeStart || b != rangeEnd) g_violation_c12 = 1;
  G_body(stateIdx, a, b);
}
/* the granularity tail, run by the caller through the runTail() lambda */
static void G_tail_body(IntegerT a, IntegerT b) {
#ifdef KF_EXCLUDE
  if (KF_EXCLUDE) { g_known_tail_skipped = 1; return; }   /* listed known finding: its input class is excluded from the residual obligation */
#endif
  G_body(0, a, b);
}
static void G_initStates(size_t n, bool reuse) { if (!reuse || g_states < n) g_states = n; }
static size_type G_numPoolThreads(void) { return g_N; }
static bool G_isRecursive(void) { return g_recursive; }

bool ChunkedRange_empty(const ChunkedRange* self)
__CPROVER_ensures(RV == (self->end <= self->start))
__CPROVER_assigns()
#include "ChunkedRange_empty.body.inc"
bool ChunkedRange_isStatic(const ChunkedRange* self)
__CPROVER_ensures(RV == (self->chunk == IT_MAX))
__CPROVER_assigns()
#include "ChunkedRange_isStatic.body.inc"

/* ---- callee contracts (clauses of the contracts proved in specs/c12_sizing.c; checked textually by props/c48.py) ---- */
GranularityInfo computeGranularity(const ChunkedRange* range, uint32_t requested)
__CPROVER_requires(range->start < range->end)
__CPROVER_ensures(RV.granularity >= 1)
__CPROVER_ensures(range->start <= RV.trimmedEnd && RV.trimmedEnd <= range->end)
__CPROVER_ensures(RV.hasTail == (RV.trimmedEnd != range->end))
__CPROVER_assigns()
;
ChunkSizingResult adjustChunkSizing(const ChunkedRange* range, size_type maxThreads, bool isStatic, uint32_t minItemsPerChunk, size_type poolThreads, bool wait)
__CPROVER_requires(range->start < range->end)
__CPROVER_requires(maxThreads >= 1 && minItemsPerChunk >= 1 && poolThreads >= 1)
__CPROVER_ensures(RV.maxThreads >= 0 && RV.maxThreads <= maxThreads)
__CPROVER_assigns()
;
Tuple2 ChunkedRange_calcChunkSize(const ChunkedRange* self, size_type numLaunched, bool oneOnCaller, size_type minChunkSize, uint32_t granularity, size_type maxDynFactor)
__CPROVER_requires(self->start < self->end)
__CPROVER_ensures(RV._0 >= 1 && RV._1 >= 1)
__CPROVER_assigns()
;

/* ---- scheduling paths as stubs: what they launch and whether they wait ---- */
void G_staticImpl(const ChunkedRange* range, ssize_t maxThreads, bool wait, bool reuse, uint32_t granularity)
__CPROVER_requires(range->start < range->end && maxThreads >= 2 && granularity >= 1)
/* parallel_for_staticImpl: numThreads chunks, 1 <= numThreads <= maxThreads (unit parallel_for_staticImpl.numThreads); with wait the
 * caller runs one of them and everything has finished at return; without wait all numThreads are left running */
__CPROVER_ensures(g_violation_c48 == (__CPROVER_old(g_violation_c48) || __CPROVER_old(g_running) + (unsigned long)maxThreads > g_limit))
__CPROVER_ensures(wait ==> (g_running == 0 && ALL_FREE))
__CPROVER_ensures(!wait ==> (g_running > __CPROVER_old(g_running) && g_running <= __CPROVER_old(g_running) + (unsigned long)maxThreads && g_state_busy[0]))
__CPROVER_ensures(g_states >= 1 && g_static_nowait_pending == !wait)
__CPROVER_assigns(g_running, g_state_busy, g_violation_c48, g_states, g_static_nowait_pending)
;
void G_adaptiveWaitDispatch(const ChunkedRange* parRange, size_t numToLaunch, uint32_t minItemsPerChunk, uint32_t granularity)
__CPROVER_requires(parRange->start < parRange->end && granularity >= 1)
__CPROVER_ensures(g_violation_c48 == (__CPROVER_old(g_violation_c48) || __CPROVER_old(g_running) + numToLaunch + 1 > g_limit))
__CPROVER_ensures(g_running == 0 && ALL_FREE)
__CPROVER_assigns(g_running, g_state_busy, g_violation_c48)
;
void G_dynamicImpl(IntegerT start, IntegerT end, size_t numToLaunch, size_type chunkSize, size_type numChunks, bool wait)
__CPROVER_requires(start < end && chunkSize >= 1 && numChunks >= 1 && wait)
__CPROVER_ensures(g_violation_c48 == (__CPROVER_old(g_violation_c48) || __CPROVER_old(g_running) + numToLaunch + 1 > g_limit))
__CPROVER_ensures(g_running == 0 && ALL_FREE)
__CPROVER_assigns(g_running, g_state_busy, g_violation_c48)
;
void G_dynamicNoWaitDispatch(const ChunkedRange* parRange, size_t numToLaunch, size_type chunkSize, size_type numChunks, IntegerT fullEnd, bool hasTail)
__CPROVER_requires(parRange->start < parRange->end && chunkSize >= 1 && numChunks >= 1)
/* numToLaunch workers are left running; the tail (if any) is run by the last of them, not by the caller */
__CPROVER_ensures(g_violation_c48 == (__CPROVER_old(g_violation_c48) || __CPROVER_old(g_running) + numToLaunch > g_limit))
__CPROVER_ensures(g_running == __CPROVER_old(g_running) + numToLaunch)
__CPROVER_assigns(g_running, g_state_busy, g_violation_c48)
;

void parallel_for_skeleton(ChunkedRange range, ParForOptions options)
__CPROVER_requires(g_running == 0 && !g_violation_c48 && !g_violation_c14 && !g_violation_c12 && g_limit == (options.maxThreads > 1 ? options.maxThreads : 1))
__CPROVER_requires(g_N >= 0 && g_N <= 2147483647)
/* C48: at no point could more than max(1, maxThreads) body invocations overlap */
__CPROVER_ensures(!g_violation_c48)
/* C14: no state object is handed to the caller's invocation while a still-running invocation is bound to it; container non-empty */
__CPROVER_ensures(!g_violation_c14)
/* C12: a serial fallback covers the whole range */
__CPROVER_ensures(!g_violation_c12)
__CPROVER_ensures(options.wait ==> g_running == 0)
__CPROVER_ensures((range.start < range.end) ==> g_states >= 1)
/* maxThreads 0 or 1 => serial: nothing is ever launched */
__CPROVER_ensures(options.maxThreads <= 1 ==> g_running == 0)
__CPROVER_assigns(g_running, g_state_busy, g_violation_c48, g_violation_c14, g_violation_c12, g_states, g_body_calls_on_caller, g_static_nowait_pending, g_known_tail_skipped)
#include "parallel_for_skeleton.body.inc"

#ifdef VERIF_CBMC
void h_parallel_for_skeleton(void) {
  ChunkedRange range; ParForOptions options;
  _Bool w0, r0; options.wait = w0 ? 1 : 0; options.reuseExistingState = r0 ? 1 : 0;   /* bool fields hold 0/1 only */
  g_running = 0; g_violation_c48 = 0; g_violation_c14 = 0; g_violation_c12 = 0; g_body_calls_on_caller = 0;
  for (unsigned i = 0; i < NSTATE; ++i) g_state_busy[i] = 0;
  g_limit = options.maxThreads > 1 ? options.maxThreads : 1;
  size_type nN; _Bool nR; unsigned long nS; g_N = nN; g_recursive = nR; g_states = nS; g_static_nowait_pending = 0; g_known_tail_skipped = 0;
  parallel_for_skeleton(range, options);
}
#endif
