/* C14, dynamic (work-stealing) path of parallel_for, wait == false with a granularity tail (dispenso/detail/par_for_dynamic.h).
 * The tail is run on states.begin() by "the last worker to finish": whoever holds the exit ticket numChunks + numToLaunch - 1.  That
 * is exclusive use of the first state object only under this per-worker discipline, proved here for the extracted worker lambda:
 *   (D1) a worker draws a ticket >= numChunks (an exit ticket) only when every chunk it has claimed has been run to completion,
 *   (D2) after its exit ticket it never touches the shared index again and calls the exit action exactly once, with that ticket,
 *   (D3) every chunk it claims (ticket < numChunks) is run exactly once, on its own state object, with the bounds of that chunk.
 * Counting argument on top (atomic RMW axiom: fetch_add hands every value to exactly one caller): each of the numToLaunch workers draws
 * exactly one exit ticket (D2), so the exit tickets are numChunks .. numChunks + numToLaunch - 1 and the holder of the largest one drew it
 * after all the others were drawn, i.e. (D1) after every other worker finished its last chunk: nobody is inside the functor when the
 * exit action of that ticket runs the tail.  The exit action itself and the value of lastExit are units of their own below.
 * The shared index is rendered by A_FETCH_ADD_index(): it returns an arbitrary value larger than any this worker has seen (other
 * workers draw in between). */
#include "prelude.h"
#include "atomics.h"
#define RV __CPROVER_return_value
int g_last_mo;
typedef DYN_SIZE_T size_type;
typedef DYN_INT_T IntegerT;
_Bool nondet_bool(void); size_type nondet_size_type(void);
IntegerT start, end; size_type chunkSize, numChunks;               /* captures of the worker lambda */
/* ghosts */
bool g_have_ticket; size_type g_last_ticket;                        /* monotone tickets seen by this worker */
size_type g_claim[2]; bool g_claim_valid[2];                        /* chunks claimed and not yet run (a worker may claim one ahead) */
size_type g_off[2];                                                 /* value of the (uninterpreted) product claim * chunkSize */
int g_exit_tickets; size_type g_exit_ticket; int g_exit_calls;
#define NPENDING ((g_claim_valid[0] ? 1 : 0) + (g_claim_valid[1] ? 1 : 0))
/* `c * chunkSize` is rendered as an uninterpreted function of c (rule R3u): the discipline proved here does not depend on what the
 * product is, only on the same chunk number giving the same offset; bit-level multiplication equalities are out of the solver's reach */
static size_type CHUNK_OFF(size_type c) {
  if (g_claim_valid[0] && c == g_claim[0]) return g_off[0];
  if (g_claim_valid[1] && c == g_claim[1]) return g_off[1];
  return nondet_size_type();
}
static size_type A_FETCH_ADD_index(size_type v, int mo) {
  A_NOTE(mo);
  __CPROVER_assert(v == 1, "tickets are drawn one at a time");
  __CPROVER_assert(g_exit_tickets == 0, "(D2) a worker that has drawn its exit ticket never touches the shared index again");
  size_type t = nondet_size_type();
  __CPROVER_assume(!g_have_ticket || t > g_last_ticket);
  __CPROVER_assume(t < (size_type)-1);
  g_have_ticket = 1; g_last_ticket = t;
  if (t >= numChunks) {
    __CPROVER_assert(NPENDING == 0, "(D1) an exit ticket is drawn only when every chunk this worker has claimed has been run: otherwise the holder of the last exit ticket runs the tail on states.begin() while this worker is still inside the functor");
    g_exit_tickets++; g_exit_ticket = t;
  } else {
    __CPROVER_assert(NPENDING < 2, "at most one chunk is claimed ahead");
    int k = g_claim_valid[0] ? 1 : 0;
    g_claim[k] = t; g_off[k] = nondet_size_type(); g_claim_valid[k] = 1;
    /* distinct chunks start at distinct offsets (chunkSize >= 1, the chunk grid fits the index type: C12) */
    if (g_claim_valid[1 - k]) __CPROVER_assume(g_off[k] != g_off[1 - k]);
  }
  return t;
}
/* f(s, lo, hi): the user functor on this worker's own state object */
static void G_f(IntegerT lo, IntegerT hi) {
  int k = (g_claim_valid[0] && lo == (IntegerT)(start + g_off[0])) ? 0 : 1;
  __CPROVER_assert(g_claim_valid[k] && lo == (IntegerT)(start + g_off[k]), "(D3) the functor runs on a chunk this worker has claimed and not run yet");
  __CPROVER_assert(hi == ((g_claim[k] + 1 == numChunks) ? end : (IntegerT)(lo + chunkSize)), "(D3) with the bounds of that chunk (the last chunk ends at end)");
  g_claim_valid[k] = 0;
}
static void G_exitAction(size_type cur) {
  __CPROVER_assert(g_exit_tickets == 1 && cur == g_exit_ticket && NPENDING == 0, "(D2) the exit action gets this worker's exit ticket, after its last chunk");
  g_exit_calls++;
}
#define DYN_FRAME g_have_ticket, g_last_ticket, __CPROVER_object_whole(g_off), __CPROVER_object_whole(g_claim), __CPROVER_object_whole(g_claim_valid), g_exit_tickets, g_exit_ticket, g_exit_calls, g_last_mo

void DYN_worker_single(void)
__CPROVER_requires(numChunks >= 1 && numChunks < DYN_MAXCHUNKS && chunkSize >= 1 && !g_have_ticket && !g_claim_valid[0] && !g_claim_valid[1] && g_exit_tickets == 0 && g_exit_calls == 0)
__CPROVER_ensures(g_exit_tickets == 1 && g_exit_calls == 1 && NPENDING == 0)
__CPROVER_assigns(DYN_FRAME)
#include "DYN_worker_single.body.inc"

/* ---- multi-group worker (parallel_for_dynamicMultiGroupImpl): per-group index, exit through block->exitCounter ----
 * Same discipline with the exit counter in the role of the exit ticket: (D1) the counter is raised only when every claimed chunk has
 * been run; the worker whose increment completes the count (prev + 1 == totalWorkers) calls the exit action with the last exit ticket
 * numChunks + totalWorkers - 1 and frees the block; (D2') block-owned data is not read after the increment (the last worker frees it). */
size_type g_gr_startChunk, g_gr_numGroupChunks; size_t g_totalWorkers; bool g_heapOwned;
bool g_exit_counted, g_is_last, g_block_freed, g_block_read_late; int g_exit_calls_m;
static size_type A_FETCH_ADD_gindex(size_type v, int mo) {
  A_NOTE(mo);
  __CPROVER_assert(v == 1, "tickets are drawn one at a time");
  if (g_exit_counted) g_block_read_late = 1;
  size_type t = nondet_size_type();
  __CPROVER_assume(!g_have_ticket || t > g_last_ticket);
  __CPROVER_assume(t < (size_type)-1);
  g_have_ticket = 1; g_last_ticket = t;
  if (t < g_gr_numGroupChunks) {
    __CPROVER_assert(NPENDING < 2, "at most one chunk is claimed ahead");
    int k = g_claim_valid[0] ? 1 : 0;
    g_claim[k] = (size_type)(g_gr_startChunk + t); g_off[k] = nondet_size_type(); g_claim_valid[k] = 1;
    if (g_claim_valid[1 - k]) __CPROVER_assume(g_off[k] != g_off[1 - k]);
  }
  return t;
}
static size_type B_numGroupChunks(void) { if (g_exit_counted) g_block_read_late = 1; return g_gr_numGroupChunks; }
static size_type B_startChunk(void) { if (g_exit_counted) g_block_read_late = 1; return g_gr_startChunk; }
static size_t B_totalWorkers(void) { if (g_exit_counted) g_block_read_late = 1; return g_totalWorkers; }
static bool B_heapOwned(void) { if (g_exit_counted) g_block_read_late = 1; return g_heapOwned; }
static size_t A_FETCH_ADD_exitCounter(size_t v, int mo) {
  A_NOTE(mo);
  __CPROVER_assert(v == 1 && !g_exit_counted, "each worker raises the exit counter exactly once");
  __CPROVER_assert(NPENDING == 0, "(D1) the exit counter is raised only when every chunk this worker has claimed has been run");
  __CPROVER_assert(MO_HAS_RELEASE(mo) && MO_HAS_ACQUIRE(mo), "the increment orders this worker's work before the last worker's tail / free (acq_rel)");
  g_exit_counted = 1;
  size_t prev = nondet_size_type(); __CPROVER_assume(prev < g_totalWorkers);
  g_is_last = (prev + 1 == g_totalWorkers);
  return prev;
}
static void G_exitAction_m(size_type cur) {
  __CPROVER_assert(g_exit_counted && g_is_last && cur == (size_type)(numChunks + (size_type)g_totalWorkers - 1), "only the worker that completes the exit count runs the exit action, with the last exit ticket");
  g_exit_calls_m++;
}
static void G_free_block(void) { __CPROVER_assert(g_exit_counted && g_is_last && !g_block_freed, "the block is freed once, by the worker that completes the exit count"); g_block_freed = 1; }
void DYN_worker_multi(void)
__CPROVER_requires(numChunks >= 1 && numChunks < DYN_MAXCHUNKS && chunkSize >= 1 && g_totalWorkers >= 1 && g_totalWorkers < 65536 && g_gr_numGroupChunks <= numChunks && g_gr_startChunk <= numChunks - g_gr_numGroupChunks)
__CPROVER_requires(!g_have_ticket && !g_claim_valid[0] && !g_claim_valid[1] && !g_exit_counted && !g_block_freed && !g_block_read_late && g_exit_calls_m == 0)
__CPROVER_ensures(g_exit_counted && NPENDING == 0 && !g_block_read_late && g_exit_calls_m == (g_is_last ? 1 : 0) && g_block_freed == (g_is_last && g_heapOwned))
__CPROVER_assigns(DYN_FRAME, g_exit_counted, g_is_last, g_block_freed, g_block_read_late, g_exit_calls_m)
#include "DYN_worker_multi.body.inc"

/* ---- the exit action of the no-wait dispatch: [ci, lastExit, tailFunc, &tailState, tailStart, tailEnd, tailNeeded](auto cur) ---- */
size_type lastExit; bool tailNeeded; int g_tail_runs, g_dealloc; size_t numToLaunch;
static void G_tailFunc(void) { g_tail_runs++; }
static void G_dealloc_ci(void) { g_dealloc++; }
void DYN_exitAction(size_type cur)
__CPROVER_requires(g_tail_runs == 0 && g_dealloc == 0)
/* the tail runs exactly when this is the last exit ticket (and there is a tail); the shared index is freed exactly by that holder */
__CPROVER_ensures(g_tail_runs == ((cur == lastExit && tailNeeded) ? 1 : 0) && g_dealloc == ((cur == lastExit) ? 1 : 0))
__CPROVER_assigns(g_tail_runs, g_dealloc)
#include "DYN_exitAction.body.inc"

/* lastExit as the dispatch computes it: the largest of the numToLaunch exit tickets */
size_type DYN_lastExit(void)
__CPROVER_requires(numChunks >= 1 && numToLaunch >= 1 && numToLaunch < 65536 && numChunks < DYN_MAXCHUNKS && numChunks < ((size_type)-1) / 2)
__CPROVER_ensures(RV == numChunks + (size_type)numToLaunch - 1)
__CPROVER_assigns()
{
#include "DYN_lastExit.slice.inc"
  return lastExit_local;
}

/* ---- which state object an invocation uses (dynamic single/multi group, adaptive): worker i of the bulk generator dereferences
 * states.begin() advanced by the expression extracted from `std::advance(stateIt, static_cast<ptrdiff_t>(<e>))`, the calling thread (wait ==
 * true) the one extracted from its own std::advance.  Worker i must get states[i], the caller states[numToLaunch]: pairwise distinct, and
 * inside the numToLaunch + 1 states that initStates provides (skeleton unit). ---- */
#define SITE_W(name) size_t name(size_t i, size_t numToLaunch) __CPROVER_requires(i < numToLaunch && numToLaunch < 9223372036854775807ul) __CPROVER_ensures(RV == i) __CPROVER_assigns()
#define SITE_C(name) size_t name(size_t numToLaunch) __CPROVER_requires(numToLaunch < 9223372036854775807ul) __CPROVER_ensures(RV == numToLaunch) __CPROVER_assigns()
SITE_W(SITE_dyn1_worker)
#include "SITE_dyn1_worker.body.inc"
SITE_C(SITE_dyn1_caller)
#include "SITE_dyn1_caller.body.inc"
SITE_W(SITE_dynM_worker)
#include "SITE_dynM_worker.body.inc"
SITE_C(SITE_dynM_caller)
#include "SITE_dynM_caller.body.inc"
SITE_W(SITE_adapt_worker)
#include "SITE_adapt_worker.body.inc"
SITE_C(SITE_adapt_caller)
#include "SITE_adapt_caller.body.inc"

#ifdef VERIF_CBMC
void h_DYN_worker_single(void) { g_have_ticket = 0; g_claim_valid[0] = 0; g_claim_valid[1] = 0; g_exit_tickets = 0; g_exit_calls = 0; DYN_worker_single(); }
void h_DYN_worker_multi(void) { g_have_ticket = 0; g_claim_valid[0] = 0; g_claim_valid[1] = 0; g_exit_counted = 0; g_block_freed = 0; g_block_read_late = 0; g_exit_calls_m = 0; DYN_worker_multi(); }
void h_DYN_exitAction(void) { g_tail_runs = 0; g_dealloc = 0; size_type c; DYN_exitAction(c); }
void h_DYN_lastExit(void) { DYN_lastExit(); }
void h_SITE_dyn1_worker(void) { size_t i, n; SITE_dyn1_worker(i, n); }
void h_SITE_dyn1_caller(void) { size_t n; SITE_dyn1_caller(n); }
void h_SITE_dynM_worker(void) { size_t i, n; SITE_dynM_worker(i, n); }
void h_SITE_dynM_caller(void) { size_t n; SITE_dynM_caller(n); }
void h_SITE_adapt_worker(void) { size_t i, n; SITE_adapt_worker(i, n); }
void h_SITE_adapt_caller(void) { size_t n; SITE_adapt_caller(n); }
#endif
