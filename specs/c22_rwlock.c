/* C22: RWLockImpl (dispenso/detail/rw_lock_impl.h) under rely/guarantee.
 * The lock word is  writeBit | count.  Ghost decomposition (what every correct participant maintains):
 *     word == (bit_mine || bit_other ? kWriteBit : 0) + readers_other + trans_other + mine_count
 *   bit_x    : thread x owns the writer bit (it performed the fetch_or that saw the bit clear)
 *   excl_x   : owner of the bit that has observed word == kWriteBit (readers drained): holds the lock exclusively
 *   readers_other : other threads holding a read lock;  trans_other : other threads' transient increments made while the bit was set
 *   mine_count    : this thread's outstanding increments;  hold_read_mine : this thread holds a read lock
 * Before every atomic access others_act() moves the "other" components to ANY state the protocol allows given what this thread
 * owns (rely).  This thread's own steps are checked against the guarantee: it clears the bit / decrements only what it owns,
 * becomes exclusive only after owning the bit and observing kWriteBit, and the decomposition keeps holding.
 * Mutual exclusion is then the invariant  excl_mine ==> readers_other == 0 && !excl_other  and  hold_read_mine ==> !excl_other. */
#include "prelude.h"
#include "atomics.h"
#include <limits.h>
#define RV __CPROVER_return_value
int g_last_mo;
#define kWriteBit INT_MIN
#define kReaderBits INT_MAX
#define kTryLockDrainSpins KDRAINSPINS
#define kSpinBeforeYield KSPINYIELD
/* the ghost decomposition lives in the lock object (one per lock: DistributedRWLockImpl, C23, has an array of them); g_self is
 * the lock the current call works on: R17 renders `obj.method()` as `(g_self = &obj, RW_method(g_self))` */
typedef struct RWLockImpl { int word;      /* event_.intrusiveStatus() */
  int readers_other, trans_other, mine_count; bool bit_other, excl_other, bit_mine, excl_mine, hold_read_mine; } RWLockImpl;
RWLockImpl* g_self;
#define g_readers_other (g_self->readers_other)
#define g_trans_other (g_self->trans_other)
#define g_mine_count (g_self->mine_count)
#define g_bit_other (g_self->bit_other)
#define g_excl_other (g_self->excl_other)
#define g_bit_mine (g_self->bit_mine)
#define g_excl_mine (g_self->excl_mine)
#define g_hold_read_mine (g_self->hold_read_mine)
bool g_viol;                    /* guarantee violated by this thread */
bool g_bad_order;
unsigned g_wakes; bool g_need_wake;   /* a reader release that drops the count to zero under a set bit must wake the draining writer */
_Bool nondet_bool(void); int nondet_int(void);
#define CNT_MAX 1000
/* invariants of one lock object s (the unparameterised forms speak about the current lock g_self) */
#define WORD_OF_(s) ((((s)->bit_mine || (s)->bit_other) ? kWriteBit : 0) | ((s)->readers_other + (s)->trans_other + (s)->mine_count))
#define WORD_OK_(s) ((s)->readers_other >= 0 && (s)->readers_other < CNT_MAX && (s)->trans_other >= 0 && (s)->trans_other < CNT_MAX && (s)->mine_count >= 0 && (s)->mine_count <= 2 && !((s)->bit_mine && (s)->bit_other) && (s)->word == WORD_OF_(s))
#define EXCL_INV_(s) ((!(s)->excl_mine || ((s)->bit_mine && (s)->readers_other == 0 && !(s)->excl_other)) && (!(s)->excl_other || ((s)->bit_other && (s)->readers_other == 0 && !(s)->hold_read_mine)))
#define WORD_OF() WORD_OF_(g_self)
#define WORD_OK WORD_OK_(g_self)
#define EXCL_INV EXCL_INV_(g_self)

static void others_act(void) {
  int r = nondet_int(), t = nondet_int(); _Bool b = nondet_bool(), x = nondet_bool();
  __CPROVER_assume(r >= 0 && r < CNT_MAX && t >= 0 && t < CNT_MAX);
  if (g_bit_mine) {
    /* I own the bit: nobody else can own it; no new holding readers can appear (they all see the bit), only drain */
    __CPROVER_assume(!b && !x && r <= g_readers_other);
    if (g_excl_mine) __CPROVER_assume(r == 0);
  } else {
    /* exclusive writer elsewhere only with the bit and without any holding reader (including me) */
    if (x) __CPROVER_assume(b && r == 0 && !g_hold_read_mine);
    /* a writer that was exclusive and still is keeps readers out */
    if (g_excl_other && x) __CPROVER_assume(r == 0);
    /* while another thread continuously owns the bit no new holding readers appear (over-approximated: allowed only if the bit was or becomes clear) */
    if (g_bit_other && b && !nondet_bool()) __CPROVER_assume(r <= g_readers_other);
  }
  if (!b) x = 0;
  g_readers_other = r; g_trans_other = t; g_bit_other = b; g_excl_other = x;
  g_self->word = WORD_OF();
}
static int A_FETCH_OR(int* w, int v, int mo) { others_act(); A_NOTE(mo); int old = *w; *w = old | v;
  if (v == kWriteBit && !(old & kWriteBit)) { g_bit_mine = 1; if (!MO_HAS_ACQUIRE(mo)) g_bad_order = 1; if (old == 0) g_excl_mine = 1; /* no reader at all: exclusive at once */ } return old; }
static int A_FETCH_AND(int* w, int v, int mo) { others_act(); A_NOTE(mo); int old = *w; *w = old & v;
  if (v == kReaderBits) { if (!g_bit_mine) g_viol = 1; /* cleared a writer bit this thread does not own */ g_bit_mine = 0; g_excl_mine = 0; if (!MO_HAS_RELEASE(mo)) g_bad_order = 1; } else g_viol = 1; return old; }
static int A_FETCH_ADD(int* w, int v, int mo) { others_act(); A_NOTE(mo); int old = *w; *w = (int)((unsigned)old + (unsigned)v);
  if (v != 1) g_viol = 1; g_mine_count += 1;
  if (!(old & kWriteBit) || g_bit_mine) { g_hold_read_mine = 1; if (!MO_HAS_ACQUIRE(mo)) g_bad_order = 1; }   /* registered while no writer owned the bit (or downgrade by the owner): a holding read */
  return old; }
static int A_FETCH_SUB(int* w, int v, int mo) { others_act(); A_NOTE(mo); int old = *w; *w = (int)((unsigned)old - (unsigned)v);
  if (v != 1 || g_mine_count < 1) g_viol = 1; /* decremented a count this thread did not contribute */ g_mine_count -= 1; g_hold_read_mine = 0;
  if (!MO_HAS_RELEASE(mo)) g_bad_order = 1;
  if (old == (kWriteBit | 1) && !g_bit_mine) g_need_wake = 1;   /* last reader under another thread's writer bit: that writer may be parked in wait(kWriteBit) */
  return old; }
static int A_LOAD(const int* w, int mo) { others_act(); A_NOTE(mo); int v = *w;
  if (v == kWriteBit && g_bit_mine && MO_HAS_ACQUIRE(mo)) g_excl_mine = 1;    /* drained, observed with acquire */
  return v; }
static void A_STORE(int* w, int v, int mo) { others_act(); A_NOTE(mo);
  /* a plain store overwrites whatever the other threads contributed since the value was computed */
  *w = v; if (!(v & kWriteBit)) { if (!g_bit_mine) g_viol = 1; g_bit_mine = 0; g_excl_mine = 0; }
  if (!MO_HAS_RELEASE(mo)) g_bad_order = 1;
  if (*w != WORD_OF()) g_viol = 1; }
static void G_yield(void) { others_act(); }
static void G_cpuRelax(void) { }
/* event_.wait(kWriteBit): returns only after an acquire load of kWriteBit (CompletionEventImpl::wait, proved under C21) */
static void G_event_wait(RWLockImpl* self, int completed) {
  others_act();
  __CPROVER_assume(self->word == completed);          /* blocks until then (progress is not decided here) */
  if (completed == kWriteBit && g_bit_mine) g_excl_mine = 1;
}
static void G_event_tryNotify(RWLockImpl* self) { g_wakes++; g_need_wake = 0; }

#define PRE (self == g_self && WORD_OK && EXCL_INV && !g_viol && !g_bad_order && !g_need_wake)
#define POST (WORD_OK && EXCL_INV && !g_viol && !g_bad_order && !g_need_wake)
#define ASSIGNS __CPROVER_assigns(*self, g_viol, g_bad_order, g_wakes, g_need_wake, g_last_mo)

void RW_readerRelease(RWLockImpl* self)
__CPROVER_requires(PRE && g_mine_count >= 1)
__CPROVER_ensures(POST && g_mine_count == __CPROVER_old(g_mine_count) - 1 && !g_hold_read_mine && g_bit_mine == __CPROVER_old(g_bit_mine) && g_excl_mine == __CPROVER_old(g_excl_mine))
ASSIGNS
#include "RW_readerRelease.body.inc"

void RW_setWriteBit(RWLockImpl* self)
__CPROVER_requires(PRE && !g_bit_mine)
__CPROVER_ensures(POST && g_bit_mine && g_mine_count == __CPROVER_old(g_mine_count) && g_hold_read_mine == __CPROVER_old(g_hold_read_mine))
ASSIGNS
#include "RW_setWriteBit.body.inc"

/* phase 1 of the distributed try_lock: claims the bit ignoring readers; fails only against another writer and then leaves no trace */
bool RW_tryWriteBit(RWLockImpl* self)
__CPROVER_requires(PRE && !g_bit_mine)
__CPROVER_ensures(POST && RV == g_bit_mine && g_mine_count == __CPROVER_old(g_mine_count) && g_hold_read_mine == __CPROVER_old(g_hold_read_mine))
ASSIGNS
#include "RW_tryWriteBit.body.inc"

void RW_waitForReaderDrain(RWLockImpl* self)
__CPROVER_requires(PRE && g_bit_mine && g_mine_count == 0)
__CPROVER_ensures(POST && g_bit_mine && g_excl_mine && g_mine_count == 0 && g_readers_other == 0 && !g_excl_other && g_hold_read_mine == __CPROVER_old(g_hold_read_mine))
ASSIGNS
#include "RW_waitForReaderDrain.body.inc"

void RW_lock(RWLockImpl* self)
__CPROVER_requires(PRE && !g_bit_mine && g_mine_count == 0 && !g_hold_read_mine)
/* write access is exclusive: no other writer, no reader */
__CPROVER_ensures(POST && g_bit_mine && g_excl_mine && g_readers_other == 0 && !g_excl_other)
ASSIGNS
#include "RW_lock.body.inc"

bool RW_try_lock(RWLockImpl* self)
__CPROVER_requires(PRE && !g_bit_mine && g_mine_count == 0 && !g_hold_read_mine)
__CPROVER_ensures(POST)
__CPROVER_ensures(RV ==> (g_bit_mine && g_excl_mine && g_readers_other == 0 && !g_excl_other))
/* a failed try_lock leaves no trace: no bit, no count, and the word is exactly what the others make it */
__CPROVER_ensures(!RV ==> (!g_bit_mine && !g_excl_mine && g_mine_count == 0))
ASSIGNS
#include "RW_try_lock.body.inc"

void RW_unlock(RWLockImpl* self)
__CPROVER_requires(PRE && g_bit_mine && g_mine_count <= 1)
__CPROVER_ensures(POST && !g_bit_mine && !g_excl_mine && g_mine_count == __CPROVER_old(g_mine_count) && g_hold_read_mine == __CPROVER_old(g_hold_read_mine))
ASSIGNS
#include "RW_unlock.body.inc"

void RW_lock_shared(RWLockImpl* self)
__CPROVER_requires(PRE && !g_bit_mine && g_mine_count == 0 && !g_hold_read_mine)
/* read access only while no writer holds the lock */
__CPROVER_ensures(POST && g_hold_read_mine && g_mine_count == 1 && !g_excl_other && g_bit_mine == __CPROVER_old(g_bit_mine) && g_excl_mine == __CPROVER_old(g_excl_mine))
ASSIGNS
#include "RW_lock_shared.body.inc"

bool RW_try_lock_shared(RWLockImpl* self)
__CPROVER_requires(PRE && !g_bit_mine && g_mine_count == 0 && !g_hold_read_mine)
__CPROVER_ensures(POST && g_bit_mine == __CPROVER_old(g_bit_mine) && g_excl_mine == __CPROVER_old(g_excl_mine))
__CPROVER_ensures(RV ==> (g_hold_read_mine && g_mine_count == 1 && !g_excl_other))
__CPROVER_ensures(!RV ==> (!g_hold_read_mine && g_mine_count == 0))
ASSIGNS
#include "RW_try_lock_shared.body.inc"

void RW_unlock_shared(RWLockImpl* self)
__CPROVER_requires(PRE && g_hold_read_mine && g_mine_count == 1 && !g_bit_mine)
__CPROVER_ensures(POST && !g_hold_read_mine && g_mine_count == 0 && g_bit_mine == __CPROVER_old(g_bit_mine) && g_excl_mine == __CPROVER_old(g_excl_mine))
ASSIGNS
#include "RW_unlock_shared.body.inc"

void RW_lock_upgrade(RWLockImpl* self)
__CPROVER_requires(PRE && g_hold_read_mine && g_mine_count == 1 && !g_bit_mine)
__CPROVER_ensures(POST && g_bit_mine && g_excl_mine && g_mine_count == 0 && g_readers_other == 0 && !g_excl_other)
ASSIGNS
#include "RW_lock_upgrade.body.inc"

void RW_lock_downgrade(RWLockImpl* self)
__CPROVER_requires(PRE && g_bit_mine && g_excl_mine && g_mine_count == 0)
__CPROVER_ensures(POST && !g_bit_mine && g_hold_read_mine && g_mine_count == 1)
ASSIGNS
#include "RW_lock_downgrade.body.inc"

#if defined(VERIF_CBMC)
static void mk(RWLockImpl* l, int mode) {
  /* mode 0: this thread holds nothing; 1: holds a read lock; 2: owns the bit (not yet exclusive); 3: holds the write lock */
  g_self = l; g_viol = 0; g_bad_order = 0; g_wakes = 0; g_need_wake = 0;
  g_bit_mine = (mode >= 2); g_excl_mine = (mode == 3); g_hold_read_mine = (mode == 1); g_mine_count = (mode == 1) ? 1 : 0;
  int r = nondet_int(), t = nondet_int(); __CPROVER_assume(r >= 0 && r < CNT_MAX && t >= 0 && t < CNT_MAX);
  _Bool b = nondet_bool(), x = nondet_bool();
  if (g_bit_mine) { b = 0; x = 0; }
  if (g_excl_mine) r = 0;
  if (!b) x = 0;
  if (x) { r = 0; __CPROVER_assume(!g_hold_read_mine); }
  g_readers_other = r; g_trans_other = t; g_bit_other = b; g_excl_other = x;
  l->word = WORD_OF();
}
#ifndef C23_INCLUDE
void h_RW_readerRelease(void) { RWLockImpl l; mk(&l, 1); RW_readerRelease(&l); }
void h_RW_tryWriteBit(void) { RWLockImpl l; mk(&l, nondet_bool() ? 1 : 0); RW_tryWriteBit(&l); }
void h_RW_setWriteBit(void) { RWLockImpl l; mk(&l, nondet_bool() ? 1 : 0); RW_setWriteBit(&l); }
void h_RW_waitForReaderDrain(void) { RWLockImpl l; mk(&l, 2); RW_waitForReaderDrain(&l); }
void h_RW_lock(void) { RWLockImpl l; mk(&l, 0); RW_lock(&l); }
void h_RW_try_lock(void) { RWLockImpl l; mk(&l, 0); RW_try_lock(&l); }
void h_RW_unlock(void) { RWLockImpl l; mk(&l, nondet_bool() ? 3 : 2); RW_unlock(&l); }
void h_RW_lock_shared(void) { RWLockImpl l; mk(&l, 0); RW_lock_shared(&l); }
void h_RW_try_lock_shared(void) { RWLockImpl l; mk(&l, 0); RW_try_lock_shared(&l); }
void h_RW_unlock_shared(void) { RWLockImpl l; mk(&l, 1); RW_unlock_shared(&l); }
void h_RW_lock_upgrade(void) { RWLockImpl l; mk(&l, 1); RW_lock_upgrade(&l); }
void h_RW_lock_downgrade(void) { RWLockImpl l; mk(&l, 3); RW_lock_downgrade(&l); }
#endif
#endif
