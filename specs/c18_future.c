/* C18: FutureImplBase status protocol (dispenso/detail/future_impl.h): kNotStarted -> kRunning (one CAS winner) -> kReady.
 * Rely/guarantee on the status word: before every atomic access other threads may move it forward (claim it, or -- only if this
 * thread is not the claimant -- complete it); it never moves backward.  Ghosts: g_mine (this thread won the CAS), g_runs (runFunc
 * invocations by this thread), g_ready_by_me / g_woke (this thread stored kReady / issued the wake for it).
 * status_.notify / wait / waitFor / waitUntil are CompletionEventImpl methods, used through their C21 contracts. */
#include "prelude.h"
#include "atomics.h"
#define RV __CPROVER_return_value
int g_last_mo;
enum { kNotStarted = 0, kRunning = 1, kReady = 2 };
typedef struct Fut { int status; bool allowInline_; long* taskSetCounter_; long counter_cell; } Fut;
Fut* g_self;
bool g_mine, g_ready_by_me, g_woke, g_viol, g_bad_order, g_counter_dec_before_ready, g_then_chain_before_ready;
int g_runs;
_Bool nondet_bool(void); int nondet_int(void);
#include "Fut_run.sig.inc"

static void others_act(void) {
  int s = nondet_int();
  __CPROVER_assume(s >= g_self->status && s <= kReady);
  if (g_mine) __CPROVER_assume(s == g_self->status);          /* only the claimant completes; nobody else claims once claimed */
  g_self->status = s;
}
static int A_LOAD_status(Fut* self, int mo) { others_act(); A_NOTE(mo); if (!MO_HAS_ACQUIRE(mo)) g_bad_order = 1; return self->status; }
static bool A_CAS_WEAK_status(Fut* self, int* expected, int desired, int mo) {
  others_act(); A_NOTE(mo);
  if (self->status != *expected || nondet_bool()) { if (self->status != *expected) *expected = self->status; return 0; }   /* weak: may fail spuriously */
  __CPROVER_assert(*expected == kNotStarted && desired == kRunning, "guarantee: the only CAS on the status word is kNotStarted -> kRunning");
  if (!MO_HAS_ACQUIRE(mo)) g_bad_order = 1;
  self->status = desired; g_mine = 1;
  return 1;
}
static void A_STORE_status(Fut* self, int v, int mo) {
  others_act(); A_NOTE(mo);
  __CPROVER_assert(v == kReady && g_mine, "guarantee: the status word is stored to only by the claimant, and only with kReady");
  if (!MO_HAS_RELEASE(mo)) g_bad_order = 1;
  self->status = v; g_ready_by_me = 1;                         /* stored, but no waiter has been woken yet */
}
/* CompletionEventImpl::notify(v): release store of v followed by FUTEX_WAKE(all) (C21) */
static void CE_notify(Fut* self, int v) {
  others_act();
  __CPROVER_assert(v == kReady && g_mine, "guarantee: completion is published only by the claimant, and only as kReady");
  __CPROVER_assert(g_runs == 1, "the result is published only after the functor has run");
  self->status = v; g_ready_by_me = 1; g_woke = 1;
}
/* CompletionEventImpl::wait(v): returns only after an acquire load of v (C21); blocks until then */
static void CE_wait(Fut* self, int v) { others_act(); __CPROVER_assume(self->status == v); }
static bool CE_waitFor(Fut* self, int v) { others_act(); if (self->status == v) return nondet_bool() ? 1 : 0; return 0; }   /* true only if the value was observed */
static void G_runFunc(Fut* self) {
  __CPROVER_assert(g_mine, "the functor is run only by the thread that won the kNotStarted -> kRunning CAS");
  __CPROVER_assert(self->status == kRunning && !g_ready_by_me, "the functor is run before the future is published as ready");
  g_runs++;
}
static void G_counter_dec(Fut* self, int mo) { if (!g_ready_by_me) g_counter_dec_before_ready = 1; if (!MO_HAS_RELEASE(mo)) g_bad_order = 1; }
static void G_tryExecuteThenChain(Fut* self) { if (!g_ready_by_me) g_then_chain_before_ready = 1; }
static void G_decRefCountMaybeDestroy(Fut* self) { }

#define PRE (self == g_self && self->status >= kNotStarted && self->status <= kReady && !g_mine && g_runs == 0 && !g_ready_by_me && !g_woke && !g_bad_order && !g_counter_dec_before_ready && !g_then_chain_before_ready)
#define FR __CPROVER_assigns(self->status, g_mine, g_runs, g_ready_by_me, g_woke, g_bad_order, g_counter_dec_before_ready, g_then_chain_before_ready, g_last_mo)
#define GOOD (!g_bad_order && !g_counter_dec_before_ready && !g_then_chain_before_ready && g_runs <= 1 && (g_ready_by_me ==> g_woke))

/* run(s): true iff this call executed the functor: exactly once, after winning the CAS, published with a wake */
bool Fut_run(Fut* self, int s RUN_EXTRA_PARAMS)
/* s is a value of the status word observed earlier (the word only moves forward) */
__CPROVER_requires(PRE && s >= kNotStarted && s <= self->status)
__CPROVER_ensures(GOOD)
__CPROVER_ensures(RV ==> (g_runs == 1 && g_mine && self->status == kReady && g_woke))
__CPROVER_ensures(!RV ==> (g_runs == 0 && !g_mine && !g_ready_by_me))
/* not run by this call only because the value passed in / observed was already past kNotStarted: somebody else runs or ran it */
__CPROVER_ensures(!RV ==> self->status >= kRunning)
FR
#include "Fut_run.body.inc"

bool Fut_waitCommon(Fut* self, bool allowInline)
__CPROVER_requires(PRE)
__CPROVER_ensures(GOOD && (RV ==> self->status == kReady) && (!allowInline ==> g_runs == 0))
FR
#include "Fut_waitCommon.body.inc"

void Fut_wait(Fut* self)
__CPROVER_requires(PRE)
/* returns only once the future is ready; every waiter that ran the functor itself woke the others */
__CPROVER_ensures(GOOD && self->status == kReady)
FR
#include "Fut_wait.body.inc"

/* waitFor / waitUntil (control only): ready is reported only if the status was observed ready; the functor is run by the waiter only
 * if inline execution is allowed for this future */
int Fut_waitFor(Fut* self)
__CPROVER_requires(PRE)
__CPROVER_ensures(GOOD && (RV == 1 ==> self->status == kReady) && (!self->allowInline_ ==> g_runs == 0))
FR
#include "Fut_waitFor.body.inc"
int Fut_waitUntil(Fut* self)
__CPROVER_requires(PRE)
__CPROVER_ensures(GOOD && (RV == 1 ==> self->status == kReady) && (!self->allowInline_ ==> g_runs == 0))
FR
#include "Fut_waitUntil.body.inc"

bool Fut_ready(Fut* self)
__CPROVER_requires(PRE)
__CPROVER_ensures(!g_bad_order && (RV ==> self->status == kReady))
FR
#include "Fut_ready.body.inc"

/* run(): the pool-side entry: runs the functor if nobody has yet, then drops the pool's reference */
void Fut_run0(Fut* self)
__CPROVER_requires(PRE)
__CPROVER_ensures(GOOD && self->status >= kRunning)
FR
#include "Fut_run0.body.inc"

#ifdef VERIF_CBMC
static void mk(Fut* f) { g_self = f; f->status = nondet_int(); __CPROVER_assume(f->status >= 0 && f->status <= 2); f->taskSetCounter_ = nondet_bool() ? &f->counter_cell : 0;
  g_mine = 0; g_runs = 0; g_ready_by_me = 0; g_woke = 0; g_bad_order = 0; g_counter_dec_before_ready = 0; g_then_chain_before_ready = 0; }
void h_Fut_run(void) { Fut f; mk(&f); int s; Fut_run(&f, s RUN_NONDET_ARGS); }
void h_Fut_waitCommon(void) { Fut f; mk(&f); bool a; Fut_waitCommon(&f, a); }
void h_Fut_wait(void) { Fut f; mk(&f); Fut_wait(&f); }
void h_Fut_waitFor(void) { Fut f; mk(&f); Fut_waitFor(&f); }
void h_Fut_waitUntil(void) { Fut f; mk(&f); Fut_waitUntil(&f); }
void h_Fut_ready(void) { Fut f; mk(&f); Fut_ready(&f); }
void h_Fut_run0(void) { Fut f; mk(&f); Fut_run0(&f); }
#endif
