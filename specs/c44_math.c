/* C44: bit-math helpers of dispenso/detail/math.h and alignment helpers of dispenso/platform.h.
 * Bodies are #included from the per-run extraction.  Back end: CBMC (bit-precise, all 2^64 / 2^32 inputs). */
#include "prelude.h"
#define RV __CPROVER_return_value

/* R18: the x86 bsr instruction is outside the verifier -> axiom stub with the Intel SDM contract (source operand non-zero:
 * destination = index of the most significant set bit).  Listed in the evidence as an unverified assumption; the compiled
 * function is additionally compared natively against a reference for every 32-bit input (bounded stand-in for 64-bit). */
uint64_t AX_bsr64(uint64_t v)
__CPROVER_requires(v != 0)
__CPROVER_ensures(RV < 64 && (v >> RV) == 1)
__CPROVER_assigns()
;
uint32_t AX_bsr32(uint32_t v)
__CPROVER_requires(v != 0)
__CPROVER_ensures(RV < 32 && (v >> RV) == 1)
__CPROVER_assigns()
;

uint64_t nextPow2(uint64_t v)
__CPROVER_requires(v <= ((uint64_t)1 << 63))
__CPROVER_ensures(v == 0 ==> RV == 0)
__CPROVER_ensures(v >= 1 ==> (RV != 0 && (RV & (RV - 1)) == 0 && RV >= v && (RV >> 1) < v))
__CPROVER_assigns()
#include "nextPow2.body.inc"

uint32_t log2const64(uint64_t v)
__CPROVER_requires(v != 0)
__CPROVER_ensures(RV < 64 && (v >> RV) == 1)
__CPROVER_assigns()
#include "log2const64.body.inc"

uint32_t log2const32(uint32_t v)
__CPROVER_requires(v != 0)
__CPROVER_ensures(RV < 32 && (v >> RV) == 1)
__CPROVER_assigns()
#include "log2const32.body.inc"

uint32_t log2_64(uint64_t v)
__CPROVER_requires(v != 0)
__CPROVER_ensures(RV < 64 && (v >> RV) == 1)
__CPROVER_assigns()
#include "log2_64.body.inc"

uint32_t log2_32(uint32_t v)
__CPROVER_requires(v != 0)
__CPROVER_ensures(RV < 32 && (v >> RV) == 1)
__CPROVER_assigns()
#include "log2_32.body.inc"

int32_t countTrailingZeros(uint64_t v)
__CPROVER_requires(v != 0)
__CPROVER_ensures(0 <= RV && RV < 64 && ((v >> RV) & 1) == 1 && (v & ((((uint64_t)1) << RV) - 1)) == 0)
__CPROVER_assigns()
#include "countTrailingZeros.body.inc"

static int32_t spec_popcount(uint64_t v) {
  int32_t n = 0;
  for (int i = 0; i < 64; ++i) n += (int32_t)((v >> i) & 1);
  return n;
}
int32_t countSetBits(uint64_t v)
__CPROVER_ensures(RV == spec_popcount(v))
__CPROVER_assigns()
#include "countSetBits.body.inc"

#define kCacheLineSize KCACHELINE
uintptr_t alignToCacheLine(uintptr_t val)
__CPROVER_requires(val <= UINTPTR_MAX - (KCACHELINE - 1))
__CPROVER_ensures(RV >= val && RV % KCACHELINE == 0 && RV - val < KCACHELINE)
__CPROVER_assigns()
#include "alignToCacheLine.body.inc"

/* ---- alignedMalloc / alignedFree in integer address space (ghost allocator) ----
 * ::malloc is an axiom: it returns the base address of a fresh block of the requested size, aligned to 16 (glibc x86-64),
 * that does not wrap the address space; it does not fail.  Memory words are a ghost map keyed by address. */
uintptr_t g_blk_base, g_blk_size;   /* the block handed out by the last G_malloc */
bool g_blk_live;
uintptr_t g_word_addr, g_word_val;  /* the single recovery word written */
bool g_word_written;
uintptr_t g_freed;
unsigned g_free_count;

uintptr_t G_malloc(size_t n)
__CPROVER_requires(!g_blk_live)
__CPROVER_ensures(RV != 0 && RV % 16 == 0 && RV <= UINTPTR_MAX - n && g_blk_base == RV && g_blk_size == n && g_blk_live)
__CPROVER_assigns(g_blk_base, g_blk_size, g_blk_live)
;
static void G_store_word(uintptr_t addr, uintptr_t val) {
  __CPROVER_assert(g_blk_live && addr >= g_blk_base && addr % sizeof(uintptr_t) == 0 &&
                   addr - g_blk_base <= g_blk_size - sizeof(uintptr_t) && g_blk_size >= sizeof(uintptr_t),
                   "recovery word is written inside the malloc'd block, naturally aligned");
  g_word_addr = addr; g_word_val = val; g_word_written = 1;
}
static uintptr_t G_load_word(uintptr_t addr) {
  __CPROVER_assert(g_word_written && addr == g_word_addr, "alignedFree reads the recovery word alignedMalloc wrote");
  return g_word_val;
}
static void G_free(uintptr_t p) {
  __CPROVER_assert(g_blk_live && p == g_blk_base, "free() receives exactly the pointer malloc returned");
  g_blk_live = 0; g_freed = p; g_free_count++;
}
static size_t MAX_size_t(size_t a, size_t b) { return a < b ? b : a; }

uintptr_t alignedMalloc(size_t bytes, size_t alignment)
__CPROVER_requires(alignment != 0 && (alignment & (alignment - 1)) == 0 && alignment <= ((size_t)1 << 32))
__CPROVER_requires(bytes <= ((size_t)1 << 48) && !g_blk_live)
__CPROVER_ensures(RV % alignment == 0 && RV % sizeof(uintptr_t) == 0)
__CPROVER_ensures(g_blk_live && RV >= g_blk_base + sizeof(uintptr_t) && RV - g_blk_base <= g_blk_size - bytes)
__CPROVER_ensures(g_word_written && g_word_addr == RV - sizeof(uintptr_t) && g_word_val == g_blk_base)
__CPROVER_assigns(g_blk_base, g_blk_size, g_blk_live, g_word_addr, g_word_val, g_word_written)
#include "alignedMalloc.body.inc"

void alignedFree(uintptr_t ptr)
__CPROVER_requires(ptr == 0 || (g_blk_live && g_word_written && g_word_addr == ptr - sizeof(uintptr_t) && g_word_val == g_blk_base))
__CPROVER_ensures(ptr != 0 ==> (!g_blk_live && g_freed == __CPROVER_old(g_blk_base) && g_free_count == __CPROVER_old(g_free_count) + 1))
__CPROVER_ensures(ptr == 0 ==> (g_free_count == __CPROVER_old(g_free_count)))
__CPROVER_assigns(g_blk_live, g_freed, g_free_count)
#include "alignedFree.body.inc"

#ifdef VERIF_CBMC
void h_nextPow2(void) { uint64_t v; nextPow2(v); }
void h_log2const64(void) { uint64_t v; log2const64(v); }
void h_log2const32(void) { uint32_t v; log2const32(v); }
void h_log2_64(void) { uint64_t v; log2_64(v); }
void h_log2_32(void) { uint32_t v; log2_32(v); }
void h_countTrailingZeros(void) { uint64_t v; countTrailingZeros(v); }
void h_countSetBits(void) { uint64_t v; countSetBits(v); }
void h_alignToCacheLine(void) { uintptr_t v; alignToCacheLine(v); }
void h_alignedMalloc(void) { size_t b, a; alignedMalloc(b, a); }
void h_alignedFree(void) { uintptr_t p; alignedFree(p); }
#endif
