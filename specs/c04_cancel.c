/* C04: a cancelled task set starts no further task bodies (dispenso/task_set.h, detail/task_set_impl.h, task_set.cpp).
 * Ghosts: g_canceled = the value of canceled_ (monotone: set by cancel(), by a throwing task, by a cancelled parent; the rely never
 * clears it during an operation); g_invoked = invocations of the submitted functor / generated functors on this thread;
 * g_dec = decrements of outstandingTaskCount_ by a packaged task; g_push/g_pop = thread-local task-set stack operations.
 * The pool's untagged entry points may run the packaged task inline: TP_may_run_packaged() then executes the packaged-task body
 * through its contract (PKG_body / PKG_body_noinc, verified below). */
#include "prelude.h"
#include "atomics.h"
#define RV __CPROVER_return_value
int g_last_mo;
bool g_canceled, g_bad_order;
bool g_canceled0;   /* canceled_ when the operation was entered */
bool g_fresh;       /* a canceled() / canceled_ check has returned false since the last body was started on this thread.  (A later check of
                     * the same call that returns true does not clear it: cancel() racing with a schedule() call already past its entry
                     * check is the inherent check-to-start window, which the property cannot exclude -- DESIGN 9.6) */
int g_invoked, g_dec, g_push, g_pop, g_pkg_made, g_enqueued;
long g_credit; bool g_uncredited_handover;   /* C02 ledger, see below */
bool g_skip_threshold, g_can_inline, g_recursive, g_overloaded, g_cost_heavy;   /* load / placement predicates: arbitrary */
_Bool nondet_bool(void); long nondet_long(void);
static size_t MIN_size(size_t a, size_t b) { return b < a ? b : a; }
/* a task body is started on this thread.  The property: it may start only if the set was seen not cancelled after the previous body
 * finished (that body, its exception, another thread or a cascading parent may have cancelled the set meanwhile) */
static void G_body_starts(void) {
  __CPROVER_assert(g_fresh, "a task body is started only after a canceled() check that returned false since the previous body on this thread finished");
  g_fresh = 0; g_invoked++;
  if (nondet_bool()) g_canceled = 1;     /* the body calls cancel(), throws, or another thread cancels while it runs */
}
static void G_invoke_f(void) { G_body_starts(); }
static bool A_LOAD_canceled(int mo) {
  if (nondet_bool()) g_canceled = 1;     /* rely: another thread / a parent may cancel at any time; never cleared */
  A_NOTE(mo); if (!MO_HAS_ACQUIRE(mo)) g_bad_order = 1; if (!g_canceled) g_fresh = 1; return g_canceled; }
static void A_STORE_canceled(bool v, int mo) { A_NOTE(mo); if (!MO_HAS_RELEASE(mo)) g_bad_order = 1; __CPROVER_assert(v, "canceled_ is only ever set, never cleared, by these operations"); g_canceled = v; }
static bool A_XCHG_canceled(bool v, int mo) { A_NOTE(mo); bool old = g_canceled; if (!MO_HAS_RELEASE(mo)) g_bad_order = 1; g_canceled = v; return old; }
#define GSMALL (g_invoked >= 0 && g_invoked < 1000 && g_dec >= 0 && g_dec < 1000 && g_push >= 0 && g_push < 1000 && g_pop >= 0 && g_pop < 1000 && g_pkg_made >= 0 && g_pkg_made < 1000 && g_enqueued >= 0 && g_enqueued < 1000)
#define FR __CPROVER_assigns(g_invoked, g_dec, g_push, g_pop, g_pkg_made, g_enqueued, g_bad_order, g_last_mo, g_credit, g_uncredited_handover, g_canceled, g_fresh)

/* ---- the packaged task body (what eventually runs on a pool thread, or inline inside an untagged pool entry point) ---- */
static bool G_not_current_parent(void) { return nondet_bool(); }
static void G_pushThreadTaskSet(void) { g_push++; }
static void G_popThreadTaskSet(void) { g_pop++; }
static void G_counter_dec(int mo) { A_NOTE(mo); if (!MO_HAS_RELEASE(mo)) g_bad_order = 1; g_dec++; }
void PKG_body(void)
__CPROVER_requires(GSMALL && !g_bad_order)
/* cancelled: the body is not started; not cancelled: it runs exactly once; either way the outstanding count drops exactly once, after the
 * body, and the task-set stack is balanced */
__CPROVER_ensures(!g_bad_order && (__CPROVER_old(g_canceled) ==> (g_canceled && g_invoked == __CPROVER_old(g_invoked))) && g_invoked >= __CPROVER_old(g_invoked) && g_invoked <= __CPROVER_old(g_invoked) + 1 &&
                  g_dec == __CPROVER_old(g_dec) + 1 && g_push - __CPROVER_old(g_push) == g_pop - __CPROVER_old(g_pop))
__CPROVER_assigns(g_invoked, g_dec, g_push, g_pop, g_bad_order, g_last_mo, g_canceled, g_fresh)
#include "PKG_body.body.inc"
void PKG_body_noinc(void)
__CPROVER_requires(GSMALL && !g_bad_order)
__CPROVER_ensures(!g_bad_order && (__CPROVER_old(g_canceled) ==> (g_canceled && g_invoked == __CPROVER_old(g_invoked))) && g_invoked >= __CPROVER_old(g_invoked) && g_invoked <= __CPROVER_old(g_invoked) + 1 &&
                  g_dec == __CPROVER_old(g_dec) + 1 && g_push - __CPROVER_old(g_push) == g_pop - __CPROVER_old(g_pop))
__CPROVER_assigns(g_invoked, g_dec, g_push, g_pop, g_bad_order, g_last_mo, g_canceled, g_fresh)
#include "PKG_body_noinc.body.inc"

/* pool entry points: tagged ones only enqueue (C47); untagged ones may run the packaged task at once */
static void G_handover(long n) { if (g_credit < n) g_uncredited_handover = 1; else g_credit -= n; }
static void TP_enqueue_packaged(void) { G_handover(1); g_enqueued++; }
static void TP_may_run_packaged(void) { G_handover(1); if (nondet_bool()) PKG_body(); else g_enqueued++; }
static long A_LOAD_outstanding(int mo) { A_NOTE(mo); return nondet_long(); }
/* C02 ledger: outstandingTaskCount_ is raised (credit) BEFORE a packaged task is handed to the pool; every hand-over consumes one credit */
static void G_outstanding_add(long n, int mo) { A_NOTE(mo); if (n >= 0 && g_credit < 1000000 && n < 1000000) g_credit += n; }
/* packageTask(f): the statements in front of the returned lambda (extracted) */
void PKG_make(void)
__CPROVER_requires(g_credit >= 0 && g_credit < 1000000 && g_pkg_made >= 0 && g_pkg_made < 1000)
__CPROVER_ensures(g_credit == __CPROVER_old(g_credit) + 1 && g_pkg_made == __CPROVER_old(g_pkg_made) + 1)
__CPROVER_assigns(g_credit, g_pkg_made, g_last_mo)
{
#include "PKG_make.slice.inc"
  g_pkg_made++;
}
static void G_make_package(void) { PKG_make(); }

#define SPRE (GSMALL && g_canceled0 == g_canceled && g_invoked == 0 && !g_bad_order && g_dec == 0 && g_credit == 0 && !g_uncredited_handover)
/* with the set cancelled before the call, no body is started -- neither inline on the caller nor through the packaged task */
/* ... and (C02) every packaged task handed to the pool was credited to the outstanding count first, with nothing credited in excess */
#define SPOST (!g_bad_order && (g_canceled0 ==> (g_canceled && g_invoked == 0)) && !g_uncredited_handover && g_credit == 0)
void TS_schedule(void) __CPROVER_requires(SPRE) __CPROVER_ensures(SPOST) FR
#include "TS_schedule.body.inc"
void CTS_schedule(bool skipRecheck) __CPROVER_requires(SPRE) __CPROVER_ensures(SPOST) FR
#include "CTS_schedule.body.inc"
void CTS_schedulePlaced(bool skipRecheck) __CPROVER_requires(SPRE) __CPROVER_ensures(SPOST) FR
#include "CTS_schedulePlaced.body.inc"

/* bulk: generated functors are run inline only in loop iterations that tested canceled() first */
static void G_invokeInline(void) { G_body_starts(); }
static void G_bulk_enqueue(size_t n) { if (n < 1000000) G_handover((long)n); else g_uncredited_handover = 1; }
void TSB_scheduleBulkImpl(size_t count) __CPROVER_requires(SPRE && count <= 100000) __CPROVER_ensures(SPOST) FR
#include "TSB_scheduleBulkImpl.body.inc"
void TSB_scheduleBulkImplPlaced(size_t count) __CPROVER_requires(SPRE && count <= 100000) __CPROVER_ensures(SPOST) FR
#include "TSB_scheduleBulkImplPlaced.body.inc"

/* scheduleBulk(count, gen, ForceQueuingTag): every chunk is credited before it is handed to the pool (C02); nothing is invoked (C04/C47) */
void TSB_scheduleBulkImplForceQueue(size_t count) __CPROVER_requires(SPRE && count <= 100000) __CPROVER_ensures(SPOST) FR
#include "TSB_scheduleBulkImplForceQueue_ledger.body.inc"

/* ---- cancel(): marks the set and cascades to every registered child, whatever the previous state ---- */
size_t g_nchildren, g_children_cancelled; bool g_locked, g_child_order_bad;
static void G_lock(void) { g_locked = 1; }
static void G_child_cancel(size_t node) { if (node != g_children_cancelled || !g_locked) g_child_order_bad = 1; g_children_cancelled++; }
void TSB_cancelChildren(void)
__CPROVER_requires(g_children_cancelled == 0 && !g_child_order_bad && g_nchildren <= 1000000)
__CPROVER_ensures(g_children_cancelled == g_nchildren && !g_child_order_bad)
__CPROVER_assigns(g_children_cancelled, g_locked, g_child_order_bad)
#include "TSB_cancelChildren.body.inc"
void TSB_cancel(void)
__CPROVER_requires(g_children_cancelled == 0 && !g_child_order_bad && !g_bad_order && g_nchildren <= 1000000)
/* after cancel() returns the set is cancelled and every child has been told, even if the set was already marked (e.g. by a throwing task) */
__CPROVER_ensures(g_canceled && g_children_cancelled == g_nchildren && !g_child_order_bad && !g_bad_order)
__CPROVER_assigns(g_canceled, g_children_cancelled, g_locked, g_child_order_bad, g_bad_order, g_last_mo, g_fresh)
#include "TSB_cancel.body.inc"
/* constructor: a set created under an already cancelled parent (ParentCascadeCancel::kOn) starts out cancelled */
bool g_has_parent, g_parent_canceled, g_registered;
static bool G_parent_canceled(void) { return g_parent_canceled; }
static void G_registerChild(void) { g_registered = 1; }
void TSB_ctor_parent(void)
__CPROVER_requires(!g_canceled && !g_bad_order && !g_registered)
__CPROVER_ensures(!g_bad_order && (g_has_parent ==> g_registered) && ((g_has_parent && g_parent_canceled) ==> g_canceled))
__CPROVER_assigns(g_canceled, g_registered, g_bad_order, g_last_mo, g_fresh)
{
#include "TSB_ctor_parent.slice.inc"
}
/* wait()/tryWait() report cancellation: testAndResetException returns canceled_ (acquire) */
bool TSB_testAndResetException(void)
__CPROVER_requires(!g_bad_order)
__CPROVER_ensures(RV == g_canceled && !g_bad_order)
__CPROVER_assigns(g_bad_order, g_last_mo, g_canceled, g_fresh)
#include "TSB_testAndResetException.body.inc"

/* ---- C02: wait() / tryWait() return "all done" only after an acquire load of the outstanding count that returned zero ---- */
long g_counter; bool g_last_load_zero_acq; int g_loads;
static long A_LOAD_counter(int mo) { A_NOTE(mo); g_counter = nondet_long(); __CPROVER_assume(g_counter >= 0); g_last_load_zero_acq = (g_counter == 0 && MO_HAS_ACQUIRE(mo)); return g_counter; }
static bool G_tryExecute(void) { return nondet_bool(); }        /* runs some other queued task, or reports that there was none */
static void G_yield(void) { }
static bool WAIT_testAndResetException(void) { return g_canceled; }
#define WFR __CPROVER_assigns(g_counter, g_last_load_zero_acq, g_last_mo)
bool CTS_wait(void) __CPROVER_ensures(g_last_load_zero_acq) WFR
#include "CTS_wait.body.inc"
bool TS_wait(void) __CPROVER_ensures(g_last_load_zero_acq) WFR
#include "TS_wait.body.inc"
bool CTS_tryWait(size_t maxToExecute) __CPROVER_ensures(RV ==> g_last_load_zero_acq) WFR
#include "CTS_tryWait.body.inc"
bool TS_tryWait(size_t maxToExecute) __CPROVER_requires(maxToExecute <= I64_MAX)   /* the budget is converted to ssize_t */
__CPROVER_ensures(RV ==> g_last_load_zero_acq) WFR
#include "TS_tryWait.body.inc"

#ifdef VERIF_CBMC
void h_PKG_make(void) { g_credit = 0; g_pkg_made = 0; PKG_make(); }
void h_CTS_wait(void) { CTS_wait(); }
void h_TS_wait(void) { TS_wait(); }
void h_CTS_tryWait(void) { size_t m; CTS_tryWait(m); }
void h_TS_tryWait(void) { size_t m; TS_tryWait(m); }
static void mk(void) { g_credit = 0; g_uncredited_handover = 0; g_invoked = 0; g_dec = 0; g_push = 0; g_pop = 0; g_pkg_made = 0; g_enqueued = 0; g_bad_order = 0; g_canceled = nondet_bool(); g_canceled0 = g_canceled; g_fresh = 0; }
void h_PKG_body(void) { mk(); PKG_body(); }
void h_PKG_body_noinc(void) { mk(); PKG_body_noinc(); }
void h_TS_schedule(void) { mk(); TS_schedule(); }
void h_CTS_schedule(void) { mk(); bool s; CTS_schedule(s); }
void h_CTS_schedulePlaced(void) { mk(); bool s; CTS_schedulePlaced(s); }
void h_TSB_scheduleBulkImpl(void) { mk(); size_t c; TSB_scheduleBulkImpl(c); }
void h_TSB_scheduleBulkImplPlaced(void) { mk(); size_t c; TSB_scheduleBulkImplPlaced(c); }
void h_TSB_scheduleBulkImplForceQueue(void) { mk(); size_t c; TSB_scheduleBulkImplForceQueue(c); }
void h_TSB_cancelChildren(void) { g_children_cancelled = 0; g_child_order_bad = 0; g_locked = 0; TSB_cancelChildren(); }
void h_TSB_cancel(void) { mk(); g_children_cancelled = 0; g_child_order_bad = 0; g_locked = 0; TSB_cancel(); }
void h_TSB_ctor_parent(void) { g_canceled = 0; g_bad_order = 0; g_registered = 0; TSB_ctor_parent(); }
void h_TSB_testAndResetException(void) { mk(); TSB_testAndResetException(); }
#endif
