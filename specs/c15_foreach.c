/* C15 / C48(for_each): sizing of for_each_n (dispenso/for_each.h): which path is taken and with how many threads;
 * the serial loop; the boundary table of the non-random-access schedule.  Chunk derivation/offsets: specs/c17_foreach.c. */
#include "prelude.h"
#define RV __CPROVER_return_value
DEF_MINMAX(ssize_t)
DEF_MINMAX(int32_t)

typedef struct FeSizing { bool serial; ssize_t numThreads; } FeSizing;

/* inputs: n, options.maxThreads, options.wait, tasks.numPoolThreads() (>= 0: zero-thread pools exist), isParForRecursive(...) */
FeSizing fe_sizing(size_t n, uint32_t opt_maxThreads, bool opt_wait, ssize_t numPoolThreads, bool isRecursive)
__CPROVER_requires(numPoolThreads >= 0 && numPoolThreads <= 2147483647 && (mathint)n <= I64_MAX - 2147483647)
#ifdef KF_EXCLUDE
__CPROVER_requires(!(KF_EXCLUDE))
#endif
/* serial execution is required for n == 0, maxThreads == 0 and (C48) maxThreads == 1 is allowed either way as long as <= 1 thread runs */
__CPROVER_ensures((n == 0 || opt_maxThreads == 0 || isRecursive) ==> RV.serial)
/* the parallel path hands staticChunkSize at least one chunk, never more chunks than elements */
__CPROVER_ensures(!RV.serial ==> (RV.numThreads >= 1 && (mathint)RV.numThreads <= (mathint)n))
/* C48: never more concurrent applications than maxThreads (a value above INT32_MAX cannot be told from a negative one: at least 1) */
__CPROVER_ensures(!RV.serial ==> ((mathint)RV.numThreads <= (mathint)opt_maxThreads || RV.numThreads == 1))
__CPROVER_ensures(!RV.serial ==> (mathint)RV.numThreads <= (mathint)numPoolThreads + (opt_wait ? 1 : 0))
__CPROVER_assigns()
{
#include "fe_sizing.slice.inc"
  return (FeSizing){0, numThreads};
}

#ifdef VERIF_CBMC
/* ---- the serial loop: f is applied to elements start, start+1, ..., exactly n times ---- */
size_t g_next_expected; size_t g_applied; bool g_out_of_order;
static void G_apply(size_t pos) { if (pos != g_next_expected) g_out_of_order = 1; g_next_expected = pos + 1; g_applied++; }
void fe_serial_loop(size_t start, size_t n)
__CPROVER_requires(g_applied == 0 && g_next_expected == start && !g_out_of_order && start <= (size_t)-1 - n)
__CPROVER_ensures(g_applied == n && !g_out_of_order && g_next_expected == __CPROVER_old(start) + n)
__CPROVER_assigns(g_next_expected, g_applied, g_out_of_order)
{
#include "fe_serial_loop.slice.inc"
}
void h_fe_serial_loop(void) { size_t s, n; g_applied = 0; g_next_expected = s; g_out_of_order = 0; fe_serial_loop(s, n); }
#endif

/* ---- non-random-access schedule: boundaries[t] = start + sum of the first t chunk sizes (iterators rendered as positions) ---- */
#define NT_MAX 4096
typedef struct FeBounds { size_t b0; size_t bk; size_t bk1; size_t blast; ssize_t len; } FeBounds;
FeBounds fe_boundaries(size_t start, ssize_t numThreads, size_t chunkSize, ssize_t transitionIdx, size_t smallChunkSize, size_t n, ssize_t k, size_t boundaries[NT_MAX + 1])
__CPROVER_requires(numThreads >= 1 && numThreads <= NT_MAX && 0 <= k && k < numThreads && 1 <= transitionIdx && transitionIdx <= numThreads)
__CPROVER_requires(smallChunkSize <= chunkSize && chunkSize - smallChunkSize <= 1 && smallChunkSize >= 1)
__CPROVER_requires((mathint)transitionIdx * (mathint)chunkSize + ((mathint)numThreads - (mathint)transitionIdx) * (mathint)smallChunkSize == (mathint)n)
__CPROVER_requires((mathint)start + (mathint)n <= I64_MAX)
__CPROVER_ensures(RV.len == numThreads + 1 && boundaries[0] == start)
__CPROVER_ensures((mathint)boundaries[numThreads] == (mathint)start + (mathint)n)
/* ghost index k: chunk k is [boundaries[k], boundaries[k+1]) of the size the static chunking prescribes */
__CPROVER_ensures((mathint)boundaries[k + 1] - (mathint)boundaries[k] == (k < transitionIdx ? (mathint)chunkSize : (mathint)smallChunkSize))
{
  ssize_t blen = 0;
#include "fe_boundaries.slice.inc"
  return (FeBounds){boundaries[0], boundaries[k], boundaries[k + 1], boundaries[numThreads], blen};
}
