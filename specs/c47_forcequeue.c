/* C47: ForceQueuingTag never runs the functor on the caller (on a pool with >= 1 thread).
 * Invocation-log ghost: every direct invocation of the submitted functor in an extracted body (`f();`) is G_invoke_f(); pool entry
 * points WITHOUT the tag (schedule(f), schedule(token, f), schedulePlaced(f) ...) are stubs that MAY invoke it (they test
 * shouldRunInline()); entry points WITH the tag are verified here to reach forceEnqueue, which enqueues exactly once and invokes nothing
 * when the value it loads from numThreads_ is >= 1.  The queueing primitives behind forceEnqueue (scheduleImpl, scheduleImplPlaced,
 * enqueueToCentralQueue, scheduleBulkEnqueue, conditionallyWake) are rendered by their invocation sites only (rule R13: every call of a
 * task/functor object in their text becomes G_invoke_f(); everything else is dropped) and must contain none. */
#include "prelude.h"
#define RV __CPROVER_return_value
int g_invoked;       /* times the submitted functor ran on this (the calling) thread before return */
int g_enqueued;      /* times it was handed to a queue / ring */
int g_numThreads;    /* the value numThreads_.load() returns */
int g_cost_heavy;    /* ConcurrentTaskSet::cost_ == TaskCost::kHeavy */
_Bool nondet_bool(void);
static void G_invoke_f(void) { g_invoked++; }
static int A_LOAD_numThreads(void) { return g_numThreads; }
static void G_workRemaining_add(int n) { }
/* entry points without the tag: may run the functor inline (shouldRunInline()) -- stubs */
static void TP_may_inline(void) { if (nondet_bool()) g_invoked++; else g_enqueued++; }
#define GSMALL (g_invoked >= 0 && g_invoked < 1000000 && g_enqueued >= 0 && g_enqueued < 1000000)   /* ghost counters do not overflow */
#define FQPRE (g_numThreads >= 1 && g_invoked == 0 && g_enqueued == 0)
#define FQPOST (g_invoked == 0 && g_enqueued == 1)
#define FR __CPROVER_assigns(g_invoked, g_enqueued)

/* queueing primitives: rendered by their invocation sites only */
void TP_scheduleImpl(void) __CPROVER_requires(GSMALL) __CPROVER_ensures(g_invoked == __CPROVER_old(g_invoked) && g_enqueued == __CPROVER_old(g_enqueued) + 1) FR
{
#include "TP_scheduleImpl.sites.inc"
  g_enqueued++;
}
void TP_scheduleImplPlaced(void) __CPROVER_requires(GSMALL) __CPROVER_ensures(g_invoked == __CPROVER_old(g_invoked) && g_enqueued == __CPROVER_old(g_enqueued) + 1) FR
{
#include "TP_scheduleImplPlaced.sites.inc"
  g_enqueued++;
}
void TP_scheduleBulkEnqueue(int count) __CPROVER_requires(GSMALL && count >= 0 && count < 1000000) __CPROVER_ensures(g_invoked == __CPROVER_old(g_invoked) && g_enqueued == __CPROVER_old(g_enqueued) + count) FR
{
#include "TP_scheduleBulkEnqueue.sites.inc"
  g_enqueued += count;
}

/* ThreadPool::forceEnqueue<kPlaced> */
void TP_forceEnqueue(int kPlaced) __CPROVER_requires(FQPRE) __CPROVER_ensures(FQPOST) FR
#include "TP_forceEnqueue.body.inc"
/* ThreadPool::schedule(F, ForceQueuingTag) and friends */
void TP_schedule_fq(void) __CPROVER_requires(FQPRE) __CPROVER_ensures(FQPOST) FR
#include "TP_schedule_fq.body.inc"
void TP_schedule_tok_fq(void) __CPROVER_requires(FQPRE) __CPROVER_ensures(FQPOST) FR
#include "TP_schedule_tok_fq.body.inc"
void TP_schedulePlaced_fq(void) __CPROVER_requires(FQPRE) __CPROVER_ensures(FQPOST) FR
#include "TP_schedulePlaced_fq.body.inc"
void TP_schedulePlaced_tok_fq(void) __CPROVER_requires(FQPRE) __CPROVER_ensures(FQPOST) FR
#include "TP_schedulePlaced_tok_fq.body.inc"
/* TaskSet / ConcurrentTaskSet */
void TS_schedule_fq(void) __CPROVER_requires(FQPRE) __CPROVER_ensures(FQPOST) FR
#include "TS_schedule_fq.body.inc"
void CTS_schedule_fq(void) __CPROVER_requires(FQPRE) __CPROVER_ensures(FQPOST) FR
#include "CTS_schedule_fq.body.inc"
void CTS_schedulePlaced_fq(void) __CPROVER_requires(FQPRE) __CPROVER_ensures(FQPOST) FR
#include "CTS_schedulePlaced_fq.body.inc"
/* scheduleBulk(count, gen, ForceQueuingTag): every generated functor is enqueued, none invoked; the generator lambda handed to the
 * pool only packages gen(i) (checked: rendered by its invocation sites) */
_Bool g_canceled_now(void);
static bool TSB_canceled(void) { return nondet_bool(); }
int g_bulk_total;
static void G_outstanding_add(long n) { }
void TSB_scheduleBulkImplForceQueue(size_t count)
__CPROVER_requires(g_numThreads >= 1 && g_numThreads <= 4096 && g_invoked == 0 && g_enqueued == 0 && count <= 100000)
__CPROVER_ensures(g_invoked == 0 && g_enqueued <= count)
FR
#include "TSB_scheduleBulkImplForceQueue.body.inc"

#ifdef VERIF_CBMC
void h_TP_scheduleImpl(void) { TP_scheduleImpl(); }
void h_TP_scheduleImplPlaced(void) { TP_scheduleImplPlaced(); }
void h_TP_scheduleBulkEnqueue(void) { int c; TP_scheduleBulkEnqueue(c); }
void h_TP_forceEnqueue(void) { int p; TP_forceEnqueue(p); }
void h_TP_schedule_fq(void) { TP_schedule_fq(); }
void h_TP_schedule_tok_fq(void) { TP_schedule_tok_fq(); }
void h_TP_schedulePlaced_fq(void) { TP_schedulePlaced_fq(); }
void h_TP_schedulePlaced_tok_fq(void) { TP_schedulePlaced_tok_fq(); }
void h_TS_schedule_fq(void) { TS_schedule_fq(); }
void h_CTS_schedule_fq(void) { CTS_schedule_fq(); }
void h_CTS_schedulePlaced_fq(void) { CTS_schedulePlaced_fq(); }
void h_TSB_scheduleBulkImplForceQueue(void) { size_t c; TSB_scheduleBulkImplForceQueue(c); }
#endif
