/* C37: ConcurrentObjectArena (dispenso/concurrent_object_arena.h), Index = size_t.
 * Buffers are rendered as handles in a ghost heap: a block is identified by an id, the pointer table is an array of ids, only
 * entries [0, buffersPos_) of the table are initialised.  Reading an uninitialised table entry, constructing an object twice
 * or outside the reserved range, are assertion failures. */
#include "prelude.h"
#include "atomics.h"
#define RV __CPROVER_return_value
typedef size_t Index;
int g_last_mo;
#define NB 64                      /* capacity of the ghost pointer tables (a constant of the rendering, not of the code) */

typedef struct Arena {
  Index kLog2BuffSize, kBufferSize, kMask;
  Index pos_, allocatedSize_;
  Index buffers_table;             /* id of the current pointer table (T** buffers_) */
  Index buffersSize_, buffersPos_;
  Index deleteLater_;              /* std::vector<T**> deleteLater_ rendered as a handle */
} Arena;

/* ghost heap of pointer tables: table id -> entries (block ids) and how many are initialised */
Index g_tab_entry[4][NB]; Index g_tab_cap[4]; Index g_tab_init[4]; unsigned g_tabs;
Index g_next_block_id;
unsigned g_deleteLater;

/* R19: detail::log2i is a template in the global ::detail namespace */
Index log2i(Index v)
__CPROVER_requires(v >= 1)
__CPROVER_ensures(RV < 64 && (v >> RV) == 1)
__CPROVER_assigns()
#include "log2i.body.inc"

/* ---- constructor arithmetic: member-initialisers of the (minBuffSize, initialSize) constructor ---- */
void Arena_ctor_sizes(Arena* self, Index minBuffSize)
__CPROVER_requires(minBuffSize >= 1 && minBuffSize <= ((Index)1 << 62))
__CPROVER_ensures(self->kLog2BuffSize < 64 && self->kBufferSize == ((Index)1 << self->kLog2BuffSize) && self->kMask == self->kBufferSize - 1)
/* "given or bigger contiguous array size": the smallest power of two >= minBuffSize */
__CPROVER_ensures(self->kBufferSize >= minBuffSize && (self->kBufferSize >> 1) < minBuffSize)
__CPROVER_assigns(self->kLog2BuffSize, self->kBufferSize, self->kMask)
#include "Arena_ctor_sizes.body.inc"

/* ---- index split of operator[] ---- */
typedef struct Split { Index bufIndex; Index i; } Split;
#define ARENA_SIZES_OK(a) ((a)->kLog2BuffSize < 62 && (a)->kBufferSize == ((Index)1 << (a)->kLog2BuffSize) && (a)->kMask == (a)->kBufferSize - 1)
Split Arena_index_split(const Arena* self, Index index)
__CPROVER_requires(ARENA_SIZES_OK(self))
/* bijection onto (buffer, offset < kBufferSize) */
__CPROVER_ensures(RV.i < self->kBufferSize && (RV.bufIndex << self->kLog2BuffSize) + RV.i == index)
__CPROVER_ensures(index < self->buffersPos_ * self->kBufferSize && self->buffersPos_ <= NB ==> RV.bufIndex < self->buffersPos_)
__CPROVER_assigns()
{
#include "Arena_index_split.slice.inc"
  return (Split){bufIndex, i};
}

/* ---- constructObjects(begin, end): default-constructs exactly the elements [begin, end), each once, in order ---- */
Index g_constructed_next; Index g_constructed_count; bool g_construct_bad;
static Index G_table_entry(Index table, Index b) { return b; }      /* block id of buffer b (ids are not needed for this unit) */
static void G_construct(const Arena* self, Index b, Index i) {
  if (((b << self->kLog2BuffSize) + i) != g_constructed_next) g_construct_bad = 1;   /* out of order / outside [begin,end) / twice */
  g_constructed_next++; g_constructed_count++;
}
void Arena_constructObjects(const Arena* self, Index beginIndex, Index endIndex)
__CPROVER_requires(ARENA_SIZES_OK(self) && beginIndex <= endIndex && endIndex < ((Index)1 << 62))
__CPROVER_requires(g_constructed_next == beginIndex && g_constructed_count == 0 && !g_construct_bad)
__CPROVER_ensures(!g_construct_bad && g_constructed_next == endIndex && g_constructed_count == endIndex - beginIndex)
__CPROVER_assigns(g_constructed_next, g_constructed_count, g_construct_bad)
#include "Arena_constructObjects.body.inc"

/* ---- copy constructor: which entries of the source's pointer table are read ---- */
bool g_read_uninit;
static Index G_alignedMalloc_block(void) { return g_next_block_id++; }
static Index G_read_table(const Arena* other, Index table, Index i) {
  /* only entries [0, buffersPos_) of a pointer table hold pointers to buffers */
  __CPROVER_assert(i < other->buffersPos_, "copy reads only initialised entries of the source's buffer table");
  return i;
}
static void G_memcpy_block(Index dst, Index src) { }
Index g_new_table_len; Index g_new_table_written;
void Arena_copy_ctor(Arena* self, const Arena* other)
__CPROVER_requires(ARENA_SIZES_OK(other) && other->buffersPos_ <= other->buffersSize_ && other->buffersSize_ <= NB && other->buffersPos_ >= 1)
__CPROVER_requires(g_new_table_written == 0)
#ifdef KF_EXCLUDE
__CPROVER_requires(!(KF_EXCLUDE))
#endif
__CPROVER_ensures(self->pos_ == other->pos_ && self->allocatedSize_ == other->allocatedSize_ && self->buffersPos_ == other->buffersPos_ && self->buffersSize_ == other->buffersSize_)
__CPROVER_ensures(self->kLog2BuffSize == other->kLog2BuffSize && self->kBufferSize == other->kBufferSize && self->kMask == other->kMask)
/* every live buffer of the source has been copied */
__CPROVER_ensures(g_new_table_written >= other->buffersPos_)
/* representation invariant of the copy: its pointer table really has buffersSize_ entries (allocateBuffer writes entry buffersPos_ < buffersSize_ without reallocating) */
__CPROVER_ensures(g_new_table_len == self->buffersSize_)
__CPROVER_assigns(*self, g_next_block_id, g_new_table_len, g_new_table_written, g_last_mo)
#include "Arena_copy_ctor.body.inc"

/* ---- getBufferSize ---- */
Index Arena_getBufferSize(const Arena* self, Index index)
__CPROVER_requires(ARENA_SIZES_OK(self) && self->buffersPos_ >= 1 && self->buffersPos_ <= NB && index < self->buffersPos_)
__CPROVER_requires(self->pos_ <= self->buffersPos_ * self->kBufferSize && self->pos_ >= (self->buffersPos_ - 1) * self->kBufferSize)
/* sizes of all buffers add up to size(): full buffers, then the remainder in the last one */
__CPROVER_ensures(index + 1 < self->buffersPos_ ==> RV == self->kBufferSize)
__CPROVER_ensures(index + 1 == self->buffersPos_ ==> (self->buffersPos_ - 1) * self->kBufferSize + RV == self->pos_)
__CPROVER_assigns()
#include "Arena_getBufferSize.body.inc"

/* ---- swap: every data member is exchanged (move construction, move/copy assignment all go through it) ---- */
static void SWAP_Index(Index* a, Index* b) { Index t = *a; *a = *b; *b = t; }
#define A_LOADI(x, mo) (A_NOTE(mo), (x))
#define A_STOREI(x, v, mo) (A_NOTE(mo), (x) = (v))
#define SAME(a, b) ((a)->kLog2BuffSize == (b).kLog2BuffSize && (a)->kBufferSize == (b).kBufferSize && (a)->kMask == (b).kMask && (a)->pos_ == (b).pos_ && \
  (a)->allocatedSize_ == (b).allocatedSize_ && (a)->buffers_table == (b).buffers_table && (a)->buffersSize_ == (b).buffersSize_ && (a)->buffersPos_ == (b).buffersPos_ && (a)->deleteLater_ == (b).deleteLater_)
Arena g_old_lhs, g_old_rhs;
void Arena_swap(Arena* lhs, Arena* rhs)
__CPROVER_requires(SAME(lhs, g_old_lhs) && SAME(rhs, g_old_rhs))
__CPROVER_ensures(SAME(lhs, g_old_rhs) && SAME(rhs, g_old_lhs))
__CPROVER_assigns(*lhs, *rhs, g_last_mo)
#include "Arena_swap.body.inc"

#ifdef VERIF_CBMC
void h_Arena_swap(void) { Arena a, b; g_old_lhs = a; g_old_rhs = b; Arena_swap(&a, &b); }
void h_log2i(void) { Index v; log2i(v); }
void h_Arena_ctor_sizes(void) { Arena a; Index m; Arena_ctor_sizes(&a, m); }
void h_Arena_index_split(void) { Arena a; Index i; Arena_index_split(&a, i); }
void h_Arena_constructObjects(void) { Arena a; Index b, e; g_constructed_next = b; g_constructed_count = 0; g_construct_bad = 0; Arena_constructObjects(&a, b, e); }
void h_Arena_copy_ctor(void) { Arena a, o; g_new_table_written = 0; Arena_copy_ctor(&a, &o); }
void h_Arena_getBufferSize(void) { Arena a; Index i; Arena_getBufferSize(&a, i); }
#endif
