/* C05: task exceptions are captured and rethrown exactly once (dispenso/task_set.cpp, detail/task_set_impl.h).
 * guardException_: kUnset -> kSetting (one CAS winner writes exception_) -> kSet -> kUnset (the waiter that rethrows).
 * Rely/guarantee on the guard word: before every atomic access other threads may let another thrower claim and publish (only while this
 * thread does not hold kSetting) and -- under the single-waiter assumption only the waiter itself -- reset kSet to kUnset.
 * Exceptions are rendered by a throw flag (R15): an invocation of a user functor may set g_thrown; `try { S } catch (...) { H }` around a
 * single invocation becomes `S; if (g_thrown) { g_thrown = 0; H }`; std::rethrow_exception(e) ends the function (g_rethrown++). */
#include "prelude.h"
#include "atomics.h"
#define RV __CPROVER_return_value
int g_last_mo;
enum { kUnset = 0, kSetting = 1, kSet = 2 };
int g_guard; bool g_canceled, g_bad_order, g_i_hold_setting, g_exception_written_by_me, g_published_by_me, g_i_am_waiter;
bool g_exception_taken, g_reset_done, g_thrown; int g_rethrown, g_invoked, g_dec, g_push, g_pop, g_captures;
_Bool nondet_bool(void); int nondet_int(void);
static void others_act(void) {
  int s = nondet_int(); __CPROVER_assume(s >= kUnset && s <= kSet);
  if (g_i_hold_setting) __CPROVER_assume(s == g_guard);                 /* nobody else writes the guard while this thread holds kSetting */
  else {
    /* another thrower may claim and publish: Unset -> Setting -> Set; only a waiter resets Set -> Unset, and this thread is the only waiter */
    if (g_guard == kSet && s != kSet) __CPROVER_assume(0);
    if (g_guard == kSetting && s == kUnset) __CPROVER_assume(0);
  }
  g_guard = s;
}
static int A_LOAD_guard(int mo) { others_act(); A_NOTE(mo); if (!MO_HAS_ACQUIRE(mo)) g_bad_order = 1; return g_guard; }
static bool A_CAS_guard(int* expected, int desired, int mo) {
  others_act(); A_NOTE(mo);
  if (g_guard != *expected) { *expected = g_guard; return 0; }
  __CPROVER_assert(*expected == kUnset && desired == kSetting, "guarantee: the only CAS on the guard is kUnset -> kSetting");
  if (!MO_HAS_ACQUIRE(mo)) g_bad_order = 1;
  g_guard = desired; g_i_hold_setting = 1;
  return 1;
}
/* an unconditional exchange is a write like any other: it must be a transition this thread's guarantee allows (kUnset -> kSetting only) */
static int A_XCHG_guard(int desired, int mo) {
  others_act(); A_NOTE(mo);
  int old = g_guard;
  __CPROVER_assert(old == kUnset && desired == kSetting, "guarantee: the only read-modify-write on the guard is kUnset -> kSetting (an exchange over kSetting / kSet destroys another thrower's claim or a published exception)");
  if (!MO_HAS_ACQUIRE(mo)) g_bad_order = 1;
  g_guard = desired; if (old == kUnset && desired == kSetting) g_i_hold_setting = 1;
  return old;
}
static void A_STORE_guard(int v, int mo) {
  others_act(); A_NOTE(mo);
  if (!MO_HAS_RELEASE(mo)) g_bad_order = 1;
  if (v == kSet) { __CPROVER_assert(g_i_hold_setting && g_exception_written_by_me, "guarantee: kSet is published only by the CAS winner, after it stored the exception"); g_i_hold_setting = 0; g_published_by_me = 1; }
  else { __CPROVER_assert(v == kUnset && g_exception_taken, "guarantee: the guard is reset only by the waiter that has taken the exception out"); g_reset_done = 1; }
  g_guard = v;
}
static void G_store_current_exception(void) { __CPROVER_assert(g_i_hold_setting, "exception_ is written only by the thread that won kUnset -> kSetting"); g_exception_written_by_me = 1; }
static void G_take_exception(void) { __CPROVER_assert(g_guard == kSet, "exception_ is moved out only while the guard is kSet (observed with acquire)"); g_exception_taken = 1; }
static void A_STORE_canceled(bool v, int mo) { A_NOTE(mo); if (!MO_HAS_RELEASE(mo)) g_bad_order = 1; g_canceled = v; }
static bool A_LOAD_canceled(int mo) { A_NOTE(mo); if (!MO_HAS_ACQUIRE(mo)) g_bad_order = 1; return g_canceled; }

/* trySetCurrentException(): the first thrower wins; its exception is stored before kSet is published; the set is cancelled */
void TSB_trySetCurrentException(void)
__CPROVER_requires(g_guard >= kUnset && g_guard <= kSet && !g_i_hold_setting && !g_exception_written_by_me && !g_published_by_me && !g_bad_order && !g_exception_taken)
__CPROVER_ensures(!g_bad_order && !g_i_hold_setting && (g_exception_written_by_me == g_published_by_me) && (g_published_by_me ==> g_canceled))
/* a thrown exception is never dropped while nothing has been captured: on return SOME exception has been claimed (this one, or another
 * thrower's that got there first); the waiter cannot have reset the guard meanwhile, because this task has not finished yet */
__CPROVER_ensures(g_guard != kUnset)
__CPROVER_assigns(g_guard, g_i_hold_setting, g_exception_written_by_me, g_published_by_me, g_canceled, g_bad_order, g_last_mo)
#include "TSB_trySetCurrentException.body.inc"

/* testAndResetException(): rethrows only an exception it took out under kSet, resets the guard first, at most once; otherwise reports canceled_ */
bool TSB_testAndResetException(void)
__CPROVER_requires(g_guard >= kUnset && g_guard <= kSet && !g_i_hold_setting && !g_bad_order && !g_exception_taken && !g_reset_done && g_rethrown == 0)
__CPROVER_ensures(!g_bad_order && g_rethrown <= 1 && (g_rethrown == 1 ==> (g_exception_taken && g_reset_done)) && (g_rethrown == 0 ==> (!g_exception_taken && RV == g_canceled)))
__CPROVER_assigns(g_guard, g_exception_taken, g_reset_done, g_rethrown, g_bad_order, g_last_mo)
#include "TSB_testAndResetException.body.inc"

/* packaged task bodies, exceptions build: a throwing body is captured, and the outstanding count still drops exactly once afterwards */
static void G_invoke_f(void) { g_invoked++; if (nondet_bool()) g_thrown = 1; }
static void G_capture(void) { g_captures++; }      /* trySetCurrentException(), verified above */
static bool G_not_current_parent(void) { return nondet_bool(); }
static void G_pushThreadTaskSet(void) { g_push++; }
static void G_popThreadTaskSet(void) { g_pop++; }
static void G_counter_dec(int mo) { A_NOTE(mo); if (!MO_HAS_RELEASE(mo)) g_bad_order = 1; __CPROVER_assert(!g_thrown, "no exception is in flight past the handler when the count is lowered"); g_dec++; }
#define PPRE (g_invoked == 0 && g_dec == 0 && g_push == 0 && g_pop == 0 && g_captures == 0 && !g_thrown && !g_bad_order)
#define PPOST (!g_bad_order && !g_thrown && g_dec == 1 && g_push == g_pop && g_invoked <= 1 && g_captures <= g_invoked)
void PKG_body_exc(void) __CPROVER_requires(PPRE) __CPROVER_ensures(PPOST)
__CPROVER_assigns(g_invoked, g_dec, g_push, g_pop, g_captures, g_thrown, g_bad_order, g_last_mo)
#include "PKG_body_exc.body.inc"
void PKG_body_noinc_exc(void) __CPROVER_requires(PPRE) __CPROVER_ensures(PPOST)
__CPROVER_assigns(g_invoked, g_dec, g_push, g_pop, g_captures, g_thrown, g_bad_order, g_last_mo)
#include "PKG_body_noinc_exc.body.inc"
/* bulk inline execution: a throwing generated functor is captured and does not escape into the scheduling loop */
void TSB_invokeInline_exc(void) __CPROVER_requires(PPRE) __CPROVER_ensures(!g_thrown && g_invoked == 1 && g_captures <= 1)
__CPROVER_assigns(g_invoked, g_captures, g_thrown)
#include "TSB_invokeInline_exc.body.inc"

#ifdef VERIF_CBMC
static void mk(void) { g_guard = nondet_int(); __CPROVER_assume(g_guard >= 0 && g_guard <= 2); g_canceled = nondet_bool(); g_bad_order = 0; g_i_hold_setting = 0; g_exception_written_by_me = 0; g_published_by_me = 0;
  g_exception_taken = 0; g_reset_done = 0; g_thrown = 0; g_rethrown = 0; g_invoked = 0; g_dec = 0; g_push = 0; g_pop = 0; g_captures = 0; }
void h_TSB_trySetCurrentException(void) { mk(); TSB_trySetCurrentException(); }
void h_TSB_testAndResetException(void) { mk(); TSB_testAndResetException(); }
void h_PKG_body_exc(void) { mk(); PKG_body_exc(); }
void h_PKG_body_noinc_exc(void) { mk(); PKG_body_noinc_exc(); }
void h_TSB_invokeInline_exc(void) { mk(); TSB_invokeInline_exc(); }
#endif
