/* C17/C15: the chunk derivation in for_each_n and the per-chunk offset computation of the random-access
 * for_each_n_schedule (dispenso/for_each.h).  Slices are #included from the per-run extraction. */
#include "prelude.h"
#include "c17_chunking_decls.h"

typedef struct FeChunks { size_t chunkSize; ssize_t transitionIdx; size_t smallChunkSize; ssize_t numThreads; } FeChunks;
typedef struct FeRange { ssize_t offset; ssize_t thisChunkSize; } FeRange;

#define FE_BOUND(c, T, s, k) ((mathint)(k) < (mathint)(T) ? (mathint)(k) * (mathint)(c) : (mathint)(T) * (mathint)(c) + ((mathint)(k) - (mathint)(T)) * (mathint)(s))
#define FE_WF(n, nt, c, T, s) ((nt) >= 1 && 1 <= (T) && (T) <= (nt) && (s) <= (c) && (c) - (s) <= 1 && (s) >= 1 && \
   (mathint)(T) * (mathint)(c) + ((mathint)(nt) - (mathint)(T)) * (mathint)(s) == (mathint)(n) && (mathint)(n) <= I64_MAX)

FeChunks fe_derive(size_t n, ssize_t numThreads)
__CPROVER_requires(1 <= numThreads && (mathint)numThreads <= (mathint)n && (mathint)n <= I64_MAX - (mathint)numThreads)
#ifdef KF_EXCLUDE
__CPROVER_requires(!(KF_EXCLUDE))
#endif
__CPROVER_ensures(FE_WF(n, numThreads, RV.chunkSize, RV.transitionIdx, RV.smallChunkSize))
__CPROVER_ensures(RV.numThreads == numThreads)
__CPROVER_assigns()
{
#include "fe_derive.slice.inc"
  return (FeChunks){chunkSize, transitionIdx, smallChunkSize, numThreads};
}

/* body of the generator lambda handed to scheduleBulk: idx -> (offset, thisChunkSize) */
FeRange fe_offset_sched(size_t idx, size_t chunkSize, ssize_t transitionIdx, size_t smallChunkSize, size_t n, ssize_t numThreads)
__CPROVER_requires(FE_WF(n, numThreads, chunkSize, transitionIdx, smallChunkSize) && (mathint)idx < (mathint)numThreads)
__CPROVER_ensures((mathint)RV.offset == FE_BOUND(chunkSize, transitionIdx, smallChunkSize, idx))
__CPROVER_ensures((mathint)RV.offset + (mathint)RV.thisChunkSize == FE_BOUND(chunkSize, transitionIdx, smallChunkSize, (mathint)idx + 1))
__CPROVER_ensures(RV.thisChunkSize >= 1)
__CPROVER_assigns()
{
#include "fe_offset_sched.slice.inc"
  return (FeRange){offset, thisChunkSize};
}

/* the caller's own (last) chunk when options.wait */
FeRange fe_offset_tail(size_t chunkSize, ssize_t transitionIdx, size_t smallChunkSize, size_t n, ssize_t numThreads)
__CPROVER_requires(FE_WF(n, numThreads, chunkSize, transitionIdx, smallChunkSize))
__CPROVER_ensures((mathint)RV.offset == FE_BOUND(chunkSize, transitionIdx, smallChunkSize, (mathint)numThreads - 1))
__CPROVER_ensures((mathint)RV.offset + (mathint)RV.thisChunkSize == (mathint)n)
__CPROVER_ensures(RV.thisChunkSize >= 1)
__CPROVER_assigns()
{
#include "fe_offset_tail.slice.inc"
  return (FeRange){offset, thisChunkSize};
}

/* property-level lemma, from the contracts only: the scheduled chunks [0, numToSchedule) followed by the caller's chunk
 * (wait) tile [0, n) -- consecutive, non-empty, first at 0, last ending at n. */
void c17_foreach_partition(size_t idx, size_t chunkSize, ssize_t transitionIdx, size_t smallChunkSize, size_t n, ssize_t numThreads, bool wait)
__CPROVER_requires(FE_WF(n, numThreads, chunkSize, transitionIdx, smallChunkSize))
__CPROVER_requires((mathint)idx < (mathint)(wait ? numThreads - 1 : numThreads))
__CPROVER_assigns()
{
  FeRange a = fe_offset_sched(idx, chunkSize, transitionIdx, smallChunkSize, n, numThreads);
  __CPROVER_assert(a.offset >= 0 && a.thisChunkSize >= 1 && (mathint)a.offset + a.thisChunkSize <= (mathint)n, "scheduled chunk is a non-empty sub-range of [0,n)");
  if (idx == 0) __CPROVER_assert(a.offset == 0, "chunk 0 starts at element 0");
  ssize_t numToSchedule = wait ? numThreads - 1 : numThreads;
  if ((mathint)idx + 1 < (mathint)numToSchedule) {
    FeRange b = fe_offset_sched(idx + 1, chunkSize, transitionIdx, smallChunkSize, n, numThreads);
    __CPROVER_assert(a.offset + a.thisChunkSize == b.offset, "chunk idx ends where chunk idx+1 starts");
  } else if (wait) {
    FeRange t = fe_offset_tail(chunkSize, transitionIdx, smallChunkSize, n, numThreads);
    __CPROVER_assert(a.offset + a.thisChunkSize == t.offset, "last scheduled chunk ends where the caller's chunk starts");
    __CPROVER_assert((mathint)t.offset + t.thisChunkSize == (mathint)n, "caller's chunk ends at n");
  } else {
    __CPROVER_assert((mathint)a.offset + a.thisChunkSize == (mathint)n, "last scheduled chunk ends at n");
  }
}
