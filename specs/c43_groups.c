/* C43 (grouping sentence): detail::buildGroupsFromCacheTopology (dispenso/cpu_set.cpp): the decision the loop makes for one L2 atom.
 * The std::vector state is rendered by what the property speaks about: the size of the pending group, the known L3 group its
 * atoms belong to (`known`: -1 = none of them has L3 information), whether two known L3 groups were ever mixed, and how often the
 * atom was appended / the pending group flushed.  flushGroup(pending, result) and pending.insert(end, l2.cpus...) are rendered by
 * their effect on that state (rule R17); l3IndexForCpu(...) is the atom's L3 index (>= -1), l2.cpus.size() its size.
 * Loop invariant INV: no mix so far; the pending group fits maxGroupSize; every atom with L3 information in the pending group
 * belongs to currentL3 -- in particular there is none when currentL3 == -1. */
#include "prelude.h"
#define RV __CPROVER_return_value
DEF_MINMAX(int32_t)
typedef struct GS { int32_t currentL3; int32_t pendingSize; int32_t known; bool mixed; int32_t flushed; int32_t appended; } GS;
#define INV(s, maxg) (!(s).mixed && (s).pendingSize >= 0 && (s).pendingSize <= (maxg) && (s).currentL3 >= -1 && (s).known >= -1 && \
                      ((s).known == -1 || (s).known == (s).currentL3))
GS group_step(GS st, int32_t l2L3_in, int32_t l2Size_in, int32_t maxGroupSize)
/* maxGroupSize has been clamped to at least the largest L2 group (group_clamp) */
__CPROVER_requires(INV(st, maxGroupSize) && l2L3_in >= -1 && l2L3_in <= 1000000 && 1 <= l2Size_in && l2Size_in <= maxGroupSize && maxGroupSize <= 1048576)
/* never mixes two known L3 groups, never exceeds the bound, never splits an L2 group (the atom is appended whole, exactly once) */
__CPROVER_ensures(INV(RV, maxGroupSize) && !RV.mixed && RV.pendingSize <= maxGroupSize && RV.appended == 1 && RV.flushed <= 1)
__CPROVER_ensures(RV.pendingSize == (RV.flushed ? 0 : st.pendingSize) + l2Size_in)
__CPROVER_assigns()
{
  int32_t currentL3 = st.currentL3, pendingSize = st.pendingSize, known = st.known; bool mixed = st.mixed; int32_t flushed = 0, appended = 0;
#include "group_step.slice.inc"
  return (GS){currentL3, pendingSize, known, mixed, flushed, appended};
}
/* the clamp in front of the loop */
int32_t group_clamp(int32_t maxGroupSize, int32_t largestL2)
__CPROVER_requires(largestL2 >= 0)
__CPROVER_ensures(RV >= largestL2 && RV >= maxGroupSize && (RV == largestL2 || RV == maxGroupSize))
__CPROVER_assigns()
{
#include "group_clamp.slice.inc"
  return maxGroupSize;
}
