/* C38: SmallVector<T, N> (dispenso/small_vector.h).  -DKN=<N> -DALIGNOF_T=<alignof(T)> (a power of two).
 *
 * Rendering.  A storage area (the inline buffer, or one heap allocation) is identified by a small handle; per handle the ghost state is
 * its capacity in elements, the alignment its base address is guaranteed to have, whether it was released, and HOW MANY live objects
 * it holds.  `T* p` is rendered as the handle; `new (p + i) T(a)`, `p[i].~T()`, `p[i] = std::move(p[j])` as E_construct / E_destroy /
 * E_assign on (p, i), which assert at the access: storage not released, i inside the allocation, storage aligned for T, and keep the
 * live count (construct: +1, destroy: -1, never below zero).  An argument that refers to an element of the vector itself
 * (v.push_back(v[0]) is valid for std::vector) is read through ARG(), which asserts that the storage it points into has not been
 * vacated since the reference was taken.
 * What this decides: sizes, capacities, growth, bounds of every element access, alignment of every storage area, balance of
 * constructions/destructions against size(), release of heap storage exactly once and only when empty, and the order of "read the
 * argument" vs "vacate the old storage".  What it does NOT decide: the VALUES of the elements after each operation (which index holds
 * what) -- a cell-level model with value ghosts was built and was out of reach of the solver here (DESIGN section 5, C38).
 * The union of inline storage and {ptr, capacity} is rendered as separate fields (reading the inactive member is not detected). */
#include "prelude.h"
#define RV __CPROVER_return_value
typedef int T_tag;
#define T_DEFAULT ((T_tag)0)
#define DEFAULT_NEW_ALIGNMENT 16            /* __STDCPP_DEFAULT_NEW_ALIGNMENT__: what ::operator new(size) guarantees */
#define MAX_ALIGN_T 16                      /* alignof(std::max_align_t) */
#define kHeapBit (((size_t)1) << 63)
#define kSizeMask (~kHeapBit)
#define CAP_MAX (((size_t)1) << 40)         /* sizes/capacities below 2^40 elements (newCap * sizeof(T) does not overflow): stated */
typedef unsigned char BlkH;                 /* 0: the inline buffer of `self`, 1: of `other`, 2..4: heap allocations */
#define NBLK 5
size_t g_cap[NBLK], g_align[NBLK], g_live[NBLK]; bool g_freed[NBLK], g_used[NBLK], g_vacated[NBLK], g_kind[NBLK];   /* kind: 0 = ::operator new, 1 = alignedMalloc */
typedef struct SV { size_t size_; BlkH inl; BlkH heap_ptr; size_t heap_capacity; } SV;
typedef struct Ref { BlkH blk; size_t idx; } Ref;
unsigned g_T_constructed, g_T_destroyed, g_allocs, g_frees;
_Bool nondet_bool(void); size_t nondet_size_t(void); int nondet_int(void);

static void E_check(BlkH h, size_t i) {
  __CPROVER_assert(h < NBLK, "valid storage handle");
  __CPROVER_assert(!g_freed[h], "element access in storage that has not been released");
  __CPROVER_assert(i < g_cap[h], "element access inside the allocation (index < capacity of the storage)");
  __CPROVER_assert(g_align[h] >= ALIGNOF_T, "every element is at an address aligned for T: the storage's base alignment covers alignof(T)");
}
static void E_construct(BlkH h, size_t i, T_tag v) { E_check(h, i); __CPROVER_assert(g_live[h] < g_cap[h], "placement-new into storage with room for one more object"); g_live[h]++; g_T_constructed++; }
static void E_destroy(BlkH h, size_t i) { E_check(h, i); __CPROVER_assert(g_live[h] >= 1, "destructor runs on a live object"); g_live[h]--; g_T_destroyed++; if (g_live[h] == 0) g_vacated[h] = 1; else g_vacated[h] = 1; }
static T_tag E_move(BlkH h, size_t i) { E_check(h, i); __CPROVER_assert(g_live[h] >= 1, "object is moved from inside its lifetime"); return nondet_int(); }
static void E_assign(BlkH h, size_t i, T_tag v) { E_check(h, i); __CPROVER_assert(g_live[h] >= 1, "assignment to a live object"); }
static Ref E_ref(BlkH h, size_t i) { E_check(h, i); return (Ref){h, i}; }
/* constructor argument: a value, or a reference to an element of a vector (read when the new object is constructed) */
typedef struct Arg { int is_ref; T_tag val; BlkH blk; size_t idx; } Arg;
static T_tag ARG(Arg a) {
  if (a.is_ref) {
    __CPROVER_assert(a.blk < NBLK && !g_freed[a.blk] && !g_vacated[a.blk], "an argument that refers to an element of the vector is read before the storage it lives in is vacated or released (std::vector: v.push_back(v[0]) is valid)");
    return nondet_int();
  }
  return a.val;
}
/* ::operator new(n * sizeof(T)) / alignedMalloc(n * sizeof(T), a) / ::operator delete(p) / alignedFree(p) */
static BlkH SV_alloc(size_t n, size_t align, bool kind) {
  __CPROVER_assert(n <= CAP_MAX, "allocation size does not overflow");
  BlkH p = (BlkH)nondet_size_t(); __CPROVER_assume(p >= 2 && p < NBLK && !g_used[p]);
  g_used[p] = 1; g_kind[p] = kind; g_cap[p] = n; g_align[p] = align; g_freed[p] = 0; g_live[p] = 0; g_vacated[p] = 0; g_allocs++;
  return p;
}
static void SV_free(BlkH h, bool kind) {
  __CPROVER_assert(h >= 2 && h < NBLK, "only heap storage is released");
  __CPROVER_assert(g_kind[h] == kind, "storage is released by the deallocation function that matches its allocation (operator delete / alignedFree)");
  __CPROVER_assert(!g_freed[h], "storage is released exactly once");
  __CPROVER_assert(g_live[h] == 0, "storage is released only after every object in it was destroyed");
  g_freed[h] = 1; g_frees++;
}
#define SV_new(n) SV_alloc((n), DEFAULT_NEW_ALIGNMENT, 0)
#define SV_new_aligned(n, a) SV_alloc((n), (a), 1)

/* ---------------------------------------------------------------- representation invariant */
#define RAW(v) ((v)->size_ & kSizeMask)
#define ISINL(v) (((v)->size_ & kHeapBit) == 0)
#define DATA(v) (ISINL(v) ? (v)->inl : (v)->heap_ptr)
#define CAPOF(v) (ISINL(v) ? (size_t)KN : (v)->heap_capacity)
#define HOK(v) ((v)->inl < 2 && (v)->heap_ptr < NBLK)
#define WF(v) (HOK(v) && g_cap[(v)->inl] == KN && g_align[(v)->inl] >= ALIGNOF_T && !g_freed[(v)->inl] && RAW(v) <= CAPOF(v) && RAW(v) < CAP_MAX && \
               (ISINL(v) || ((v)->heap_ptr >= 2 && !g_freed[(v)->heap_ptr] && g_kind[(v)->heap_ptr] == (ALIGNOF_T > MAX_ALIGN_T) && g_cap[(v)->heap_ptr] == (v)->heap_capacity && (v)->heap_capacity >= 1 && (v)->heap_capacity <= CAP_MAX / 2 && \
                             g_align[(v)->heap_ptr] >= ALIGNOF_T && g_live[(v)->inl] == 0)) && g_live[DATA(v)] == RAW(v))
size_t g_size0, g_cap0; unsigned g_c0, g_d0, g_a0, g_f0;    /* entry values (set by the harness) */
#define ENTRY(v) (g_size0 == RAW(v) && g_cap0 == CAPOF(v) && g_c0 == g_T_constructed && g_d0 == g_T_destroyed && g_a0 == g_allocs && g_f0 == g_frees)
/* live objects are balanced: constructed - destroyed == change of size */
#define BALANCE(v) ((mathint)g_T_constructed - g_c0 - ((mathint)g_T_destroyed - g_d0) == (mathint)RAW(v) - (mathint)g_size0)
/* heap blocks: every allocation made is either the vector's current block or released again */
#define NOLEAK(v) ((mathint)g_allocs - g_a0 - ((mathint)g_frees - g_f0) == (ISINL(v) ? 0 : 1) - (g_cap0 == KN && g_inl0 ? 0 : 1))
bool g_inl0;
#define TABLES __CPROVER_object_whole(g_cap), __CPROVER_object_whole(g_align), __CPROVER_object_whole(g_live), __CPROVER_object_whole(g_freed), __CPROVER_object_whole(g_used), __CPROVER_object_whole(g_vacated), __CPROVER_object_whole(g_kind)
#define FRAME self->size_, self->heap_ptr, self->heap_capacity, g_T_constructed, g_T_destroyed, g_allocs, g_frees, TABLES

bool SV_isInline(const SV* self) __CPROVER_ensures(RV == ISINL(self)) __CPROVER_assigns()
#include "SV_isInline.body.inc"
size_t SV_rawSize(const SV* self) __CPROVER_ensures(RV == RAW(self)) __CPROVER_assigns()
#include "SV_rawSize.body.inc"
BlkH SV_data(SV* self) __CPROVER_ensures(RV == DATA(self)) __CPROVER_assigns()
#include "SV_data.body.inc"
size_t SV_capacity(const SV* self) __CPROVER_ensures(RV == CAPOF(self)) __CPROVER_assigns()
#include "SV_capacity.body.inc"
void SV_setSize(SV* self, size_t s)
__CPROVER_requires(s < CAP_MAX)
__CPROVER_ensures(RAW(self) == s && (self->size_ & kHeapBit) == (__CPROVER_old(self->size_) & kHeapBit))
__CPROVER_assigns(self->size_)
#include "SV_setSize.body.inc"

/* relocateToHeap(newData, newCap): the elements [0, size) are moved into the (fresh, suitably aligned) block newData, which may already
 * hold the element emplace_back constructed at index size; old objects destroyed, old heap block released */
void SV_relocateToHeap(SV* self, BlkH newData, size_t newCap);
/* growToHeap(newCap): all elements moved to a fresh, suitably aligned allocation of newCap elements; old objects destroyed, old heap
 * block released; size unchanged */
void SV_growToHeap(SV* self, size_t newCap)
__CPROVER_requires(WF(self) && ENTRY(self) && newCap >= RAW(self) && newCap >= 1 && newCap <= CAP_MAX)
__CPROVER_ensures(HOK(self) && (newCap <= CAP_MAX / 2 ==> WF(self)) && !ISINL(self) && self->heap_capacity == newCap && RAW(self) == g_size0 && BALANCE(self))
__CPROVER_ensures(g_T_constructed - g_c0 == g_size0 && g_allocs - g_a0 == 1 && g_frees - g_f0 == (g_inl0 ? 0 : 1))
__CPROVER_assigns(FRAME)
#include "SV_growToHeap.body.inc"
void SV_relocateToHeap(SV* self, BlkH newData, size_t newCap)
#include "SV_relocateToHeap.body.inc"

void SV_ensureCapacity(SV* self, size_t newCap)
__CPROVER_requires(WF(self) && ENTRY(self) && newCap <= CAP_MAX / 2)
__CPROVER_ensures(HOK(self) && WF(self) && CAPOF(self) >= newCap && RAW(self) == g_size0 && BALANCE(self))
__CPROVER_assigns(FRAME)
#include "SV_ensureCapacity.body.inc"

void SV_destroyAll(SV* self)
__CPROVER_requires(WF(self) && ENTRY(self))
/* every element destroyed exactly once, heap storage released; size_ is left to the caller */
__CPROVER_ensures(HOK(self) && g_live[DATA(self)] == 0 && g_live[self->inl] == 0 && g_T_destroyed - g_d0 == g_size0 && g_T_constructed == g_c0)
__CPROVER_ensures(HOK(self) && self->size_ == __CPROVER_old(self->size_) && (!ISINL(self) ==> g_freed[self->heap_ptr]))
__CPROVER_assigns(g_T_destroyed, g_frees, TABLES)
#include "SV_destroyAll.body.inc"

/* emplace_back(args): appended at index size(); args may refer to an element of this very vector */
Ref SV_emplace_back(SV* self, Arg args)
__CPROVER_requires(WF(self) && ENTRY(self) && RAW(self) + 1 < CAP_MAX / 2)
__CPROVER_requires(args.is_ref ==> (args.blk == DATA(self) && args.idx < RAW(self) && !g_vacated[args.blk]))
__CPROVER_ensures(HOK(self) && WF(self) && RAW(self) == g_size0 + 1 && BALANCE(self))
__CPROVER_ensures(HOK(self) && RV.blk == DATA(self) && RV.idx == g_size0)
__CPROVER_assigns(FRAME)
#include "SV_emplace_back.body.inc"

void SV_pop_back(SV* self)
__CPROVER_requires(WF(self) && ENTRY(self) && RAW(self) >= 1)
__CPROVER_ensures(HOK(self) && WF(self) && RAW(self) == g_size0 - 1 && BALANCE(self) && CAPOF(self) == g_cap0)
__CPROVER_assigns(FRAME)
#include "SV_pop_back.body.inc"

void SV_resize(SV* self, size_t count)
__CPROVER_requires(WF(self) && ENTRY(self) && count <= CAP_MAX / 2 - 1)
__CPROVER_ensures(HOK(self) && WF(self) && RAW(self) == count && BALANCE(self))
__CPROVER_assigns(FRAME)
#include "SV_resize.body.inc"

/* resize(count, value): `value` is a const T&; as for std::vector it may refer to an element of this very vector (v.resize(n, v[0])) */
void SV_resize_value(SV* self, size_t count, Arg value)
__CPROVER_requires(WF(self) && ENTRY(self) && count <= CAP_MAX / 2 - 1)
__CPROVER_requires(value.is_ref ==> (value.blk == DATA(self) && value.idx < RAW(self) && !g_vacated[value.blk]))
__CPROVER_ensures(HOK(self) && WF(self) && RAW(self) == count && BALANCE(self))
__CPROVER_assigns(FRAME)
#include "SV_resize_value.body.inc"

/* erase(pos): one element fewer, nothing constructed, one destroyed; returns the position of the element that followed */
Ref SV_erase(SV* self, size_t pos)
__CPROVER_requires(WF(self) && ENTRY(self) && pos < RAW(self))
__CPROVER_ensures(HOK(self) && WF(self) && RAW(self) == g_size0 - 1 && BALANCE(self) && g_T_constructed == g_c0)
__CPROVER_ensures(HOK(self) && RV.blk == DATA(self) && RV.idx == pos)
__CPROVER_assigns(FRAME)
#include "SV_erase.body.inc"

void SV_clear(SV* self)
__CPROVER_requires(WF(self) && ENTRY(self))
__CPROVER_ensures(HOK(self) && RAW(self) == 0 && g_live[self->inl] == 0 && g_T_destroyed - g_d0 == g_size0 && g_T_constructed == g_c0)
__CPROVER_assigns(FRAME)
#include "SV_clear.body.inc"

void SV_reserve(SV* self, size_t newCap)
__CPROVER_requires(WF(self) && ENTRY(self) && newCap <= CAP_MAX / 2)
__CPROVER_ensures(HOK(self) && WF(self) && CAPOF(self) >= newCap && RAW(self) == g_size0 && BALANCE(self))
__CPROVER_assigns(FRAME)
#include "SV_reserve.body.inc"

void SV_dtor(SV* self)
__CPROVER_requires(WF(self) && ENTRY(self))
__CPROVER_ensures(HOK(self) && g_live[self->inl] == 0 && (!ISINL(self) ==> (g_freed[self->heap_ptr] && g_live[self->heap_ptr] == 0)) && g_T_destroyed - g_d0 == g_size0)
__CPROVER_assigns(FRAME)
#include "SV_dtor.body.inc"

/* move constructor: *this takes over the contents (inline elements are moved one by one, a heap block changes hands); other is left empty */
size_t g_osize0;
void SV_move_ctor(SV* self, SV* other)
__CPROVER_requires(self != other && WF(other) && g_osize0 == RAW(other) && g_c0 == g_T_constructed && g_d0 == g_T_destroyed)
__CPROVER_requires(HOK(self) && self->inl != other->inl && g_cap[self->inl] == KN && g_align[self->inl] >= ALIGNOF_T && !g_freed[self->inl] && g_live[self->inl] == 0)
__CPROVER_ensures(HOK(self) && HOK(other) && WF(self) && RAW(self) == g_osize0 && RAW(other) == 0 && ISINL(other) && g_live[other->inl] == 0 && g_T_constructed - g_c0 == g_T_destroyed - g_d0)
__CPROVER_assigns(self->size_, self->heap_ptr, self->heap_capacity, other->size_, g_T_constructed, g_T_destroyed, TABLES)
#include "SV_move_ctor.body.inc"

BlkH g_oldheap;
/* SmallVector(count) / SmallVector(count, value): an empty inline vector resized to count (through resize's contract) */
void SV_ctor_count(SV* self, size_t count)
__CPROVER_requires(HOK(self) && g_cap[self->inl] == KN && g_align[self->inl] >= ALIGNOF_T && !g_freed[self->inl] && g_live[self->inl] == 0 && count <= CAP_MAX / 2 - 1)
__CPROVER_requires(g_size0 == 0 && g_cap0 == KN && g_c0 == g_T_constructed && g_d0 == g_T_destroyed && g_a0 == g_allocs && g_f0 == g_frees)
__CPROVER_ensures(HOK(self) && WF(self) && RAW(self) == count && BALANCE(self))
__CPROVER_assigns(FRAME)
#include "SV_ctor_count.body.inc"
void SV_ctor_count_value(SV* self, size_t count, Arg value)
__CPROVER_requires(HOK(self) && g_cap[self->inl] == KN && g_align[self->inl] >= ALIGNOF_T && !g_freed[self->inl] && g_live[self->inl] == 0 && count <= CAP_MAX / 2 - 1 && !value.is_ref)
__CPROVER_requires(g_size0 == 0 && g_cap0 == KN && g_c0 == g_T_constructed && g_d0 == g_T_destroyed && g_a0 == g_allocs && g_f0 == g_frees)
__CPROVER_ensures(HOK(self) && WF(self) && RAW(self) == count && BALANCE(self))
__CPROVER_assigns(FRAME)
#include "SV_ctor_count_value.body.inc"

/* copy construction / copy assignment: as many elements as other holds are copy-constructed (net of any relocation), other is not
 * modified; assignment first destroys what this vector held and releases its heap block */
size_t g_olive0;
void SV_copy_ctor(SV* self, const SV* other)
__CPROVER_requires(self != other && WF(other) && g_osize0 == RAW(other) && g_olive0 == g_live[DATA(other)] && g_c0 == g_T_constructed && g_d0 == g_T_destroyed)
__CPROVER_requires(HOK(self) && self->inl != other->inl && g_cap[self->inl] == KN && g_align[self->inl] >= ALIGNOF_T && !g_freed[self->inl] && g_live[self->inl] == 0 && g_osize0 + 1 < CAP_MAX / 2)
__CPROVER_ensures(HOK(self) && HOK(other) && WF(self) && WF(other) && RAW(self) == g_osize0 && RAW(other) == g_osize0 && g_live[DATA(other)] == g_olive0)
__CPROVER_ensures((g_T_constructed - g_c0) - (g_T_destroyed - g_d0) == g_osize0)
__CPROVER_assigns(self->size_, self->heap_ptr, self->heap_capacity, g_T_constructed, g_T_destroyed, g_frees, g_allocs, TABLES)
#include "SV_copy_ctor.body.inc"

void SV_copy_assign(SV* self, const SV* other)
__CPROVER_requires(self != other && WF(self) && WF(other) && self->inl != other->inl && (ISINL(self) || ISINL(other) || self->heap_ptr != other->heap_ptr))
__CPROVER_requires(g_osize0 == RAW(other) && g_olive0 == g_live[DATA(other)] && g_size0 == RAW(self) && g_inl0 == ISINL(self) && g_oldheap == self->heap_ptr && g_c0 == g_T_constructed && g_d0 == g_T_destroyed && g_osize0 + 1 < CAP_MAX / 2)
__CPROVER_ensures(HOK(self) && HOK(other) && WF(self) && WF(other) && RAW(self) == g_osize0 && RAW(other) == g_osize0 && g_live[DATA(other)] == g_olive0)
__CPROVER_ensures((g_T_constructed - g_c0) + g_size0 == (g_T_destroyed - g_d0) + g_osize0 && (!g_inl0 ==> g_freed[g_oldheap]))
__CPROVER_assigns(self->size_, self->heap_ptr, self->heap_capacity, g_T_constructed, g_T_destroyed, g_frees, g_allocs, TABLES)
#include "SV_copy_assign.body.inc"

/* operator=(SmallVector&& other): the elements this vector held are destroyed and its heap block released; other's elements are taken over
 * (inline: moved one by one and destroyed in other; heap: the block changes hands); other is left empty and inline */
void SV_move_assign(SV* self, SV* other)
__CPROVER_requires(self != other && WF(self) && WF(other) && self->inl != other->inl && (ISINL(self) || ISINL(other) || self->heap_ptr != other->heap_ptr))
__CPROVER_requires(g_osize0 == RAW(other) && g_size0 == RAW(self) && g_inl0 == ISINL(self) && g_oldheap == self->heap_ptr && g_c0 == g_T_constructed && g_d0 == g_T_destroyed)
__CPROVER_ensures(HOK(self) && HOK(other) && WF(self) && RAW(self) == g_osize0 && RAW(other) == 0 && ISINL(other) && g_live[other->inl] == 0)
__CPROVER_ensures((g_T_destroyed - g_d0) - (g_T_constructed - g_c0) == g_size0 && (!g_inl0 ==> g_freed[g_oldheap]))
__CPROVER_assigns(self->size_, self->heap_ptr, self->heap_capacity, other->size_, g_T_constructed, g_T_destroyed, g_frees, TABLES)
#include "SV_move_assign.body.inc"

#ifdef VERIF_CBMC
#ifdef SIZE_BOUND
#define BND(c) __CPROVER_assume((c) <= SIZE_BOUND + 1)
#else
#define BND(c)
#endif
static void mk_inl(BlkH h) { g_cap[h] = KN; g_align[h] = ALIGNOF_T; g_freed[h] = 0; g_live[h] = 0; g_used[h] = 1; g_vacated[h] = 0; }
static void mk_state(SV* v, BlkH inl);
static void mk(SV* v, BlkH inl) {
  for (int j = 0; j < NBLK; ++j) { g_used[j] = 0; g_freed[j] = 0; g_vacated[j] = 0; g_live[j] = 0; g_cap[j] = 0; g_align[j] = 0; }
  mk_state(v, inl);
  g_T_constructed = nondet_int(); g_T_destroyed = nondet_int(); __CPROVER_assume(g_T_constructed < (1u << 30) && g_T_destroyed < (1u << 30)); g_allocs = 0; g_frees = 0;
  g_size0 = RAW(v); g_cap0 = CAPOF(v); g_inl0 = ISINL(v); g_c0 = g_T_constructed; g_d0 = g_T_destroyed; g_a0 = g_allocs; g_f0 = g_frees;
}
static void mk_state(SV* v, BlkH inl) {
  v->inl = inl; mk_inl(inl);
  size_t n = nondet_size_t(); __CPROVER_assume(n < CAP_MAX / 2);
  BND(n);
  if (nondet_bool()) { __CPROVER_assume(n <= KN); v->size_ = n; v->heap_ptr = 0; v->heap_capacity = 0; g_live[inl] = n; }
  else {
    size_t c = nondet_size_t(); __CPROVER_assume(c >= 1 && c <= CAP_MAX / 2 && n <= c);
    BND(c);
    BlkH b = (ALIGNOF_T > MAX_ALIGN_T) ? SV_new_aligned(c, ALIGNOF_T) : SV_new(c); g_live[b] = n;   /* a heap block as the code itself allocates it */
    v->size_ = kHeapBit | n; v->heap_ptr = b; v->heap_capacity = c;
  }
}
void h_SV_isInline(void) { SV v; SV_isInline(&v); }
void h_SV_rawSize(void) { SV v; SV_rawSize(&v); }
void h_SV_data(void) { SV v; SV_data(&v); }
void h_SV_capacity(void) { SV v; SV_capacity(&v); }
void h_SV_setSize(void) { SV v; size_t s; SV_setSize(&v, s); }
void h_SV_growToHeap(void) { SV v; mk(&v, 0); size_t c; BND(c); SV_growToHeap(&v, c); }
void h_SV_ensureCapacity(void) { SV v; mk(&v, 0); size_t c; BND(c); SV_ensureCapacity(&v, c); }
void h_SV_destroyAll(void) { SV v; mk(&v, 0); SV_destroyAll(&v); }
void h_SV_emplace_back(void) { SV v; mk(&v, 0); Arg a; a.val = nondet_int(); a.is_ref = nondet_bool(); a.blk = DATA(&v); a.idx = nondet_size_t(); if (a.is_ref) __CPROVER_assume(a.idx < RAW(&v)); SV_emplace_back(&v, a); }
void h_SV_pop_back(void) { SV v; mk(&v, 0); SV_pop_back(&v); }
void h_SV_resize(void) { SV v; mk(&v, 0); size_t c; BND(c); SV_resize(&v, c); }
void h_SV_resize_value(void) { SV v; mk(&v, 0); size_t c; BND(c); Arg x; SV_resize_value(&v, c, x); }
void h_SV_erase(void) { SV v; mk(&v, 0); size_t p; SV_erase(&v, p); }
void h_SV_clear(void) { SV v; mk(&v, 0); SV_clear(&v); }
void h_SV_reserve(void) { SV v; mk(&v, 0); size_t c; BND(c); SV_reserve(&v, c); }
void h_SV_dtor(void) { SV v; mk(&v, 0); SV_dtor(&v); }
void h_SV_move_ctor(void) { SV o; mk(&o, 1); g_osize0 = RAW(&o); SV v; v.inl = 0; mk_inl(0); v.heap_ptr = 0; v.heap_capacity = 0; v.size_ = nondet_size_t(); SV_move_ctor(&v, &o); }
static void mk_fresh(SV* v) { for (int j = 0; j < NBLK; ++j) { g_used[j] = 0; g_freed[j] = 0; g_vacated[j] = 0; g_live[j] = 0; g_cap[j] = 0; g_align[j] = 0; }
  v->inl = 0; mk_inl(0); v->heap_ptr = 0; v->heap_capacity = 0; v->size_ = nondet_size_t();
  g_T_constructed = nondet_int(); g_T_destroyed = nondet_int(); __CPROVER_assume(g_T_constructed < (1u << 30) && g_T_destroyed < (1u << 30)); g_allocs = 0; g_frees = 0;
  g_size0 = 0; g_cap0 = KN; g_inl0 = 1; g_c0 = g_T_constructed; g_d0 = g_T_destroyed; g_a0 = g_allocs; g_f0 = g_frees; }
void h_SV_ctor_count(void) { SV v; mk_fresh(&v); size_t c; BND(c); SV_ctor_count(&v, c); }
void h_SV_ctor_count_value(void) { SV v; mk_fresh(&v); size_t c; BND(c); Arg x; x.is_ref = 0; SV_ctor_count_value(&v, c, x); }
void h_SV_copy_ctor(void) { SV o; mk(&o, 1); g_osize0 = RAW(&o); g_olive0 = g_live[DATA(&o)]; SV v; v.inl = 0; mk_inl(0); v.heap_ptr = 0; v.heap_capacity = 0; v.size_ = nondet_size_t(); SV_copy_ctor(&v, &o); }
void h_SV_copy_assign(void) { SV o; SV v; for (int j = 0; j < NBLK; ++j) { g_used[j] = 0; g_freed[j] = 0; g_vacated[j] = 0; g_live[j] = 0; g_cap[j] = 0; g_align[j] = 0; }
  mk_state(&o, 1); mk_state(&v, 0); g_osize0 = RAW(&o); g_olive0 = g_live[DATA(&o)];
  g_T_constructed = nondet_int(); g_T_destroyed = nondet_int(); __CPROVER_assume(g_T_constructed < (1u << 30) && g_T_destroyed < (1u << 30)); g_allocs = 0; g_frees = 0;
  g_size0 = RAW(&v); g_inl0 = ISINL(&v); g_oldheap = v.heap_ptr; g_c0 = g_T_constructed; g_d0 = g_T_destroyed; SV_copy_assign(&v, &o); }
void h_SV_move_assign(void) { SV o; SV v; for (int j = 0; j < NBLK; ++j) { g_used[j] = 0; g_freed[j] = 0; g_vacated[j] = 0; g_live[j] = 0; g_cap[j] = 0; g_align[j] = 0; }
  mk_state(&o, 1); mk_state(&v, 0); g_osize0 = RAW(&o);
  g_T_constructed = nondet_int(); g_T_destroyed = nondet_int(); __CPROVER_assume(g_T_constructed < (1u << 30) && g_T_destroyed < (1u << 30)); g_allocs = 0; g_frees = 0;
  g_size0 = RAW(&v); g_inl0 = ISINL(&v); g_oldheap = v.heap_ptr; g_c0 = g_T_constructed; g_d0 = g_T_destroyed; SV_move_assign(&v, &o); }
#endif
