/* C45: dispenso::threadId() (dispenso/thread_id.cpp).  nextThread is the process-wide atomic counter, currentThread the
 * thread-local cache.  Stability: once currentThread is set it is returned unchanged and the counter is not touched.
 * Uniqueness: a fresh id is the value returned by fetch_add (atomic RMW axiom: every value is returned to exactly one caller),
 * the counter only grows, and no id equals the "invalid" marker while fewer than 2^64-1 ids have been issued. */
#include "prelude.h"
#include "atomics.h"
#define RV __CPROVER_return_value
int g_last_mo;
uint64_t nextThread;                 /* std::atomic<uint64_t> nextThread{0} */
#define kInvalidThread KINVALID
uint64_t currentThread;              /* DISPENSO_THREAD_LOCAL uint64_t currentThread = kInvalidThread */
unsigned g_rmw_count;
static uint64_t A_FETCH_ADD_u64(uint64_t* x, uint64_t v, int mo) { VERIF_INTERFERE(); A_NOTE(mo); uint64_t old = *x; *x = old + v; g_rmw_count++; return old; }

uint64_t threadId(void)
__CPROVER_requires(nextThread < 18446744073709551615ul)      /* fewer than 2^64-1 ids issued so far (the bound of the property, not the code's marker) */
__CPROVER_requires(g_rmw_count == 0)
/* stable: an already assigned id is returned as is, the counter is untouched */
__CPROVER_ensures(__CPROVER_old(currentThread) != KINVALID ==> (RV == __CPROVER_old(currentThread) && nextThread == __CPROVER_old(nextThread) && g_rmw_count == 0))
/* fresh: exactly one RMW; the id is the counter value it returned; the counter advanced by one; the id is cached */
__CPROVER_ensures(__CPROVER_old(currentThread) == KINVALID ==> (RV == __CPROVER_old(nextThread) && nextThread == __CPROVER_old(nextThread) + 1 && g_rmw_count == 1))
__CPROVER_ensures(currentThread == RV && RV != KINVALID)
__CPROVER_assigns(currentThread, nextThread, g_rmw_count, g_last_mo)
#include "threadId.body.inc"

#ifdef VERIF_CBMC
void h_threadId(void) { uint64_t a, b; nextThread = a; currentThread = b; g_rmw_count = 0; threadId(); }
#endif
