/* C18 (shared state lifetime): "however many copies of the Future exist ... every get() returns the same result object".
 * The result lives in the FutureImpl shared state, which dealloc() destroys; it must be destroyed exactly when the last of its owners
 * lets go (a Future copy, the pool's runnable, a then-continuation each own one reference: incRefCount / decRefCountMaybeDestroy,
 * dispenso/detail/future_impl.h).  Ghost: g_owners = the true number of owners as a mathematical (64-bit) count.  Invariant carried by
 * every operation: the counter, read as an unbounded integer, equals g_owners -- in particular it cannot wrap for any number of
 * simultaneous copies below OWNERS_BOUND (2^31: the bound of the property as decided here, not the width of the code's counter).
 * refcount_t is the integer type the code declares for refCount_ (extracted from the member declaration, rule R9).
 * Rely: before every atomic access other owners may come and go (each through these same operations, so the invariant holds at every
 * step) -- but this thread's own reference stays counted. */
#include "prelude.h"
#include "atomics.h"
#include "refcount_t.inc"            /* typedef <type from `std::atomic<type> refCount_`> refcount_t; */
int g_last_mo;
#define OWNERS_BOUND 2147483648ull
refcount_t refCount_;
unsigned long long g_owners; bool g_bad_order; int g_dealloc; bool g_i_own;
unsigned long long nondet_ull(void);
static void others_act(void) {
  unsigned long long n = nondet_ull();
  __CPROVER_assume(n < OWNERS_BOUND && n >= (g_i_own ? 1ull : 0ull));
  /* other owners only exist while the state is alive; once the count is zero nobody can resurrect it */
  if (g_owners == 0) __CPROVER_assume(n == 0);
  __CPROVER_assume((unsigned long long)(refcount_t)n == n);     /* they got there through operations that each kept the invariant */
  g_owners = n; refCount_ = (refcount_t)n;
}
/* the ghost count moves with the RMW itself (one atomic step): +v owners / this thread's reference is gone */
static refcount_t A_FETCH_ADD_ref(refcount_t v, int mo) { others_act(); A_NOTE(mo); refcount_t old = refCount_; refCount_ = (refcount_t)(old + v); g_owners += v; return old; }
static refcount_t A_FETCH_SUB_ref(refcount_t v, int mo) {
  others_act(); A_NOTE(mo); if (!MO_HAS_RELEASE(mo)) g_bad_order = 1;
  __CPROVER_assert(v == 1 && g_i_own, "an owner gives up exactly its own reference");
  refcount_t old = refCount_; refCount_ = (refcount_t)(old - v); g_owners -= v; g_i_own = 0; return old; }
static void G_dealloc(void) { __CPROVER_assert(g_owners == 0, "dealloc() runs only after the last owner let go: no other Future / runnable still refers to the result"); g_dealloc++; }

#define INV ((unsigned long long)refCount_ == g_owners)
/* incRefCount(): called by an owner (copy construction, scheduling, then-registration): one more owner, exactly counted */
void Fut_incRefCount(void)
__CPROVER_requires(INV && g_owners >= 1 && g_owners < OWNERS_BOUND - 1 && g_i_own)
__CPROVER_ensures(INV && g_owners >= 2)
__CPROVER_assigns(refCount_, g_owners, g_last_mo)
#include "Fut_incRefCount.body.inc"
/* decRefCountMaybeDestroy(): the caller gives up its reference; the state is destroyed iff that was the last one */
void Fut_decRefCountMaybeDestroy(void)
__CPROVER_requires(INV && g_owners >= 1 && g_owners < OWNERS_BOUND && g_i_own && g_dealloc == 0 && !g_bad_order)
__CPROVER_ensures(!g_bad_order && (g_dealloc == 1) == (g_owners == 0) && g_dealloc <= 1)
__CPROVER_assigns(refCount_, g_owners, g_dealloc, g_bad_order, g_last_mo, g_i_own)
#include "Fut_decRefCountMaybeDestroy.body.inc"

#ifdef VERIF_CBMC
void h_Fut_incRefCount(void) { g_i_own = 1; Fut_incRefCount(); }
void h_Fut_decRefCountMaybeDestroy(void) { g_i_own = 1; g_dealloc = 0; g_bad_order = 0; Fut_decRefCountMaybeDestroy(); }
#endif

/* ---- FutureBase<Result>: which handles own a reference (copy / move / destructor of the Future handle, dispenso/detail/future_impl.h).
 * Shared states are small handles (0 = nullptr); g_own[h] = true number of owners, g_deadst[h] = dealloc() has run.  incRefCount /
 * decRefCountMaybeDestroy are used through what the units above prove about them: the count follows the owners, the state dies with the
 * last owner, and nobody may touch a dead state. ---- */
#ifdef C18_HANDLES
typedef unsigned Impl;
typedef struct FB { Impl impl_; } FB;
unsigned long long g_own[3]; bool g_deadst[3];
static void G_dec(Impl h) {
  __CPROVER_assert(h >= 1 && h <= 2 && !g_deadst[h] && g_own[h] >= 1, "a reference is given up on a live state that this handle owns");
  g_own[h]--; if (g_own[h] == 0) g_deadst[h] = 1;
}
static void G_inc(Impl h) {
  __CPROVER_assert(h >= 1 && h <= 2 && !g_deadst[h], "a reference is taken only on a state that is still alive (somebody owns it)");
  g_own[h]++;
}
#define HOLD(fb, h) (((fb)->impl_ == (h)) ? 1ull : 0ull)
/* both handles hold what the ledger says: every state a handle points to is alive and counted (once per distinct handle object) */
#define FB_OK(a, b, same) ((a)->impl_ <= 2 && (b)->impl_ <= 2 && ((same) ==> (a)->impl_ == (b)->impl_) && \
  ((a)->impl_ != 0 ==> (!g_deadst[(a)->impl_] && g_own[(a)->impl_] >= 1 + ((!(same) && (b)->impl_ == (a)->impl_) ? 1ull : 0ull))) && \
  ((b)->impl_ != 0 ==> (!g_deadst[(b)->impl_] && g_own[(b)->impl_] >= 1 + ((!(same) && (b)->impl_ == (a)->impl_) ? 1ull : 0ull))) && g_own[1] < (1ull << 40) && g_own[2] < (1ull << 40) && (g_deadst[1] ==> g_own[1] == 0) && (g_deadst[2] ==> g_own[2] == 0))
bool g_same; Impl g_self0, g_f0; unsigned long long g_own0[3];
/* copy(f): this handle ends up sharing f's state; its old state loses exactly this owner, f's state gains exactly one; a state that still
 * has an owner is never destroyed (in particular when f is this very handle, or shares its state) */
void FB_copy(FB* self, const FB* f)
__CPROVER_requires(g_same == (self == f) && FB_OK(self, f, g_same) && g_self0 == self->impl_ && g_f0 == f->impl_ && g_own0[1] == g_own[1] && g_own0[2] == g_own[2])
__CPROVER_ensures(self->impl_ == g_f0 && f->impl_ == g_f0)
__CPROVER_ensures(g_own[1] == g_own0[1] - (g_self0 == 1 ? 1 : 0) + (g_f0 == 1 ? 1 : 0) && g_own[2] == g_own0[2] - (g_self0 == 2 ? 1 : 0) + (g_f0 == 2 ? 1 : 0))
__CPROVER_ensures((g_f0 != 0 ==> !g_deadst[g_f0]) && (g_deadst[1] ==> g_own[1] == 0) && (g_deadst[2] ==> g_own[2] == 0))
__CPROVER_assigns(self->impl_, __CPROVER_object_whole(g_own), __CPROVER_object_whole(g_deadst))
#include "FB_copy.body.inc"
/* move(f): this handle takes over f's reference (no count change on that state), gives up its own; f is left empty */
void FB_move(FB* self, FB* f)
__CPROVER_requires(g_same == (self == f) && FB_OK(self, f, g_same) && g_self0 == self->impl_ && g_f0 == f->impl_ && g_own0[1] == g_own[1] && g_own0[2] == g_own[2])
__CPROVER_ensures(self->impl_ == g_f0 && (g_self0 != g_f0 ==> f->impl_ == 0))
__CPROVER_ensures(g_self0 != g_f0 ==> (g_own[1] == g_own0[1] - (g_self0 == 1 ? 1 : 0) && g_own[2] == g_own0[2] - (g_self0 == 2 ? 1 : 0)))
__CPROVER_ensures(g_self0 == g_f0 ==> (g_own[1] == g_own0[1] && g_own[2] == g_own0[2] && f->impl_ == g_f0))
__CPROVER_ensures((g_f0 != 0 ==> !g_deadst[g_f0]) && (g_deadst[1] ==> g_own[1] == 0) && (g_deadst[2] ==> g_own[2] == 0))
__CPROVER_assigns(self->impl_, f->impl_, __CPROVER_object_whole(g_own), __CPROVER_object_whole(g_deadst))
#include "FB_move.body.inc"
/* ~FutureBase(): gives up exactly its own reference */
void FB_dtor(FB* self)
__CPROVER_requires(FB_OK(self, self, 1) && g_self0 == self->impl_ && g_own0[1] == g_own[1] && g_own0[2] == g_own[2])
__CPROVER_ensures(g_own[1] == g_own0[1] - (g_self0 == 1 ? 1 : 0) && g_own[2] == g_own0[2] - (g_self0 == 2 ? 1 : 0))
__CPROVER_assigns(__CPROVER_object_whole(g_own), __CPROVER_object_whole(g_deadst))
#include "FB_dtor.body.inc"
#ifdef VERIF_CBMC
_Bool nondet_bool(void); unsigned nondet_unsigned(void);
static void fbmk(FB* a, FB* b) { g_deadst[0] = 0; g_own0[1] = g_own[1]; g_own0[2] = g_own[2]; g_self0 = a->impl_; g_f0 = b->impl_; }
void h_FB_copy(void) { FB a, b; a.impl_ = nondet_unsigned(); b.impl_ = nondet_unsigned(); g_own[1] = nondet_ull(); g_own[2] = nondet_ull(); g_deadst[1] = nondet_bool(); g_deadst[2] = nondet_bool();
  g_same = nondet_bool(); fbmk(&a, g_same ? &a : &b); FB_copy(&a, g_same ? &a : &b); }
void h_FB_move(void) { FB a, b; a.impl_ = nondet_unsigned(); b.impl_ = nondet_unsigned(); g_own[1] = nondet_ull(); g_own[2] = nondet_ull(); g_deadst[1] = nondet_bool(); g_deadst[2] = nondet_bool();
  g_same = nondet_bool(); fbmk(&a, g_same ? &a : &b); FB_move(&a, g_same ? &a : &b); }
void h_FB_dtor(void) { FB a; a.impl_ = nondet_unsigned(); g_own[1] = nondet_ull(); g_own[2] = nondet_ull(); g_deadst[1] = nondet_bool(); g_deadst[2] = nondet_bool(); fbmk(&a, &a); FB_dtor(&a); }
#endif
#endif
