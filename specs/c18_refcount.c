/* C18 (shared state lifetime): "however many copies of the Future exist ... every get() returns the same result object".
 * The result lives in the FutureImpl shared state, which dealloc() destroys; it must be destroyed exactly when the last of its owners
 * lets go (a Future copy, the pool's runnable, a then-continuation each own one reference: incRefCount / decRefCountMaybeDestroy,
 * dispenso/detail/future_impl.h).  Ghost: g_owners = the true number of owners as a mathematical (64-bit) count.  Invariant carried by
 * every operation: the counter, read as an unbounded integer, equals g_owners -- in particular it cannot wrap for any number of
 * simultaneous copies below OWNERS_BOUND (2^31: the bound of the property as decided here, not the width of the code's counter).
 * refcount_t is the integer type the code declares for refCount_ (extracted from the member declaration, rule R9).
 * Rely: before every atomic access other owners may come and go (each through these same operations, so the invariant holds at every
 * step) -- but this thread's own reference stays counted. */
#include "prelude.h"
#include "atomics.h"
#include "refcount_t.inc"            /* typedef <type from `std::atomic<type> refCount_`> refcount_t; */
int g_last_mo;
#define OWNERS_BOUND 2147483648ull
refcount_t refCount_;
unsigned long long g_owners; bool g_bad_order; int g_dealloc; bool g_i_own;
unsigned long long nondet_ull(void);
static void others_act(void) {
  unsigned long long n = nondet_ull();
  __CPROVER_assume(n < OWNERS_BOUND && n >= (g_i_own ? 1ull : 0ull));
  /* other owners only exist while the state is alive; once the count is zero nobody can resurrect it */
  if (g_owners == 0) __CPROVER_assume(n == 0);
  __CPROVER_assume((unsigned long long)(refcount_t)n == n);     /* they got there through operations that each kept the invariant */
  g_owners = n; refCount_ = (refcount_t)n;
}
/* the ghost count moves with the RMW itself (one atomic step): +v owners / this thread's reference is gone */
static refcount_t A_FETCH_ADD_ref(refcount_t v, int mo) { others_act(); A_NOTE(mo); refcount_t old = refCount_; refCount_ = (refcount_t)(old + v); g_owners += v; return old; }
static refcount_t A_FETCH_SUB_ref(refcount_t v, int mo) {
  others_act(); A_NOTE(mo); if (!MO_HAS_RELEASE(mo)) g_bad_order = 1;
  __CPROVER_assert(v == 1 && g_i_own, "an owner gives up exactly its own reference");
  refcount_t old = refCount_; refCount_ = (refcount_t)(old - v); g_owners -= v; g_i_own = 0; return old; }
static void G_dealloc(void) { __CPROVER_assert(g_owners == 0, "dealloc() runs only after the last owner let go: no other Future / runnable still refers to the result"); g_dealloc++; }

#define INV ((unsigned long long)refCount_ == g_owners)
/* incRefCount(): called by an owner (copy construction, scheduling, then-registration): one more owner, exactly counted */
void Fut_incRefCount(void)
__CPROVER_requires(INV && g_owners >= 1 && g_owners < OWNERS_BOUND - 1 && g_i_own)
__CPROVER_ensures(INV && g_owners >= 2)
__CPROVER_assigns(refCount_, g_owners, g_last_mo)
#include "Fut_incRefCount.body.inc"
/* decRefCountMaybeDestroy(): the caller gives up its reference; the state is destroyed iff that was the last one */
void Fut_decRefCountMaybeDestroy(void)
__CPROVER_requires(INV && g_owners >= 1 && g_owners < OWNERS_BOUND && g_i_own && g_dealloc == 0 && !g_bad_order)
__CPROVER_ensures(!g_bad_order && (g_dealloc == 1) == (g_owners == 0) && g_dealloc <= 1)
__CPROVER_assigns(refCount_, g_owners, g_dealloc, g_bad_order, g_last_mo, g_i_own)
#include "Fut_decRefCountMaybeDestroy.body.inc"

#ifdef VERIF_CBMC
void h_Fut_incRefCount(void) { g_i_own = 1; Fut_incRefCount(); }
void h_Fut_decRefCountMaybeDestroy(void) { g_i_own = 1; g_dealloc = 0; g_bad_order = 0; Fut_decRefCountMaybeDestroy(); }
#endif
